#!/bin/bash
# Import the behaviour-preserving variants sub-agents have finished (round R): each patch_t*.diff of /tmp/to<R>_<prop> is confirmed by selftest/twinrun.py --import
# (applies to HEAD in a fresh worktree, 470 tests pass) and stored under /verif/twins/<prop>_<variant>/.  The sub-agent's worktree /tmp/tw<R>_<prop> and its output
# directory are removed afterwards.
R=${R:-6}
cd "$(dirname "$0")/.."
for d in /tmp/to${R}_C*; do
  [ -d "$d" ] || continue
  p=$(basename "$d" | sed "s/to${R}_//")
  n=$(ls $d/patch_t${R}*.diff 2>/dev/null | wc -l)
  if [ "$n" -ge 4 ] && [ -z "$(git -C /tmp/tw${R}_$p status --porcelain 2>/dev/null)" ]; then
    python3 selftest/twinrun.py --import $d $p __none__ 2>&1 | grep -v "^WARNING" | grep "tests\|APPLY"
    git -C /repo worktree remove --force /tmp/tw${R}_$p; rm -rf "$d"
  fi
done
