#!/bin/bash
# Import the seeded changes sub-agents have finished (round R, variants V1 V2): each is confirmed in a fresh worktree by selftest/verify_seed.py
# (demo passes without the change, 470 tests pass with it, demo fails with it) and stored under /verif/seeded/<prop>_<variant>/.
# The sub-agent's worktree /tmp/sw<R>_<prop> and output directory /tmp/so<R>_<prop> are removed afterwards.
R=${R:-6}; V1=${V1:-k}; V2=${V2:-l}
cd "$(dirname "$0")/.."
for d in /tmp/so${R}_C*; do
  [ -d "$d" ] || continue
  p=$(basename "$d" | sed "s/so${R}_//")
  if [ -f $d/patch_$V1.diff ] && [ -f $d/patch_$V2.diff ] && [ -f $d/demo_$V1.py ] && [ -f $d/demo_$V2.py ] && [ -f $d/meta_$V2.json ]; then
    if [ -z "$(git -C /tmp/sw${R}_$p status --porcelain 2>/dev/null)" ]; then
      for v in $V1 $V2; do python3 selftest/verify_seed.py $d $v ${p}_$v 2>&1 | grep -v "^WARNING"; done
      git -C /repo worktree remove --force /tmp/sw${R}_$p; rm -rf "$d"
    fi
  fi
done
