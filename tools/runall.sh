#!/bin/sh
# run every registered quick check against /repo (or $1) and print one line each
cd "$(dirname "$0")/.."
for p in $(python3 -c "import json;print(' '.join(c['property_id'] for c in json.load(open('MANIFEST.json'))['checks']))"); do
  out=$(python3 -m sa.check $p ${1:+--repo $1} ${2:+--evidence-dir $2} 2>&1); rc=$?
  echo "$p rc=$rc $(echo "$out" | tail -1)"
  [ $rc -ne 0 ] && echo "$out" | grep -E "^(REFUTED|ANALYSIS-ERROR)" | cut -c1-240
done
