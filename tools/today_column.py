"""Refresh the obligation counts in the "today" column of DESIGN.md §0 from /verif/evidence/*.json (written by the checks)."""
import json
import os
import re

VERIF = os.path.dirname(os.path.dirname(os.path.abspath(__file__)))
p = os.path.join(VERIF, 'DESIGN.md')
lines = open(p).read().split('\n')
for i, l in enumerate(lines):
    m = re.match(r'\| (C\d\d) \|', l)
    if not m or l.count('|') < 5:
        continue
    ev = json.load(open(os.path.join(VERIF, 'evidence', m.group(1) + '.json')))['coverage']
    cells = l.split('|')
    today = cells[-2]
    if ev['refuted_known']:
        today = re.sub(r'^ \d+ \+ \d+ known', f' {ev["discharged"]} + {ev["refuted_known"]} known', today)
    else:
        today = re.sub(r'^ \d+, all discharged', f' {ev["discharged"]}, all discharged', today)
    cells[-2] = today
    lines[i] = '|'.join(cells)
for i, l in enumerate(lines):
    m = re.match(r'^(### (C\d\d) – .*\()(\d+)((?:, \d+ known)?)(.*)$', l)
    if m:
        ev = json.load(open(os.path.join(VERIF, 'evidence', m.group(2) + '.json')))['coverage']
        known = f', {ev["refuted_known"]} known' if ev['refuted_known'] else ''
        lines[i] = f'{m.group(1)}{ev["obligations"]}{known}{m.group(5)}'
open(p, 'w').write('\n'.join(lines))
