"""Regenerate /verif/MANIFEST.json from sa/rules/*.py (each rule module carries its own
claim texts) - run after adding or removing a property check."""
import importlib
import json
import os
import sys

VERIF = os.path.dirname(os.path.dirname(os.path.abspath(__file__)))
sys.path.insert(0, VERIF)

props = [json.loads(l) for l in open(os.path.join(VERIF, 'properties.jsonl'))]
checks = []
na = []
engines_used = {}
for p in props:
    pid = p['id']
    path = os.path.join(VERIF, 'sa', 'rules', f'{pid.lower()}.py')
    mod = None
    if os.path.exists(path):
        mod = importlib.import_module(f'sa.rules.{pid.lower()}')
    if mod is None or not getattr(mod, 'CLAIMED', True):
        na.append({'property_id': pid, 'reason': getattr(mod, 'NA_REASON', None) or
                   'check not built yet in this round (design in DESIGN.md section 5); claimed once its rules run clean'})
        continue
    checks.append({
        'property_id': pid,
        'quick_cmd': f'python3 -m sa.check {pid}',
        'thorough_cmd': f'python3 -m sa.check {pid} --tier thorough',
        'evidence_file': f'/verif/evidence/{pid}.json',
        'replay_cmd_template': f'python3 -m sa.check {pid} --replay {{path}}',
        'engine': 'sa',
        'level_claimed': {
            'category': 'other',
            'text': getattr(mod, 'LEVEL_TEXT', 'static analysis: decides necessary structural conditions of the property '
                                               'on every path / alternative / call site of the current source, not the behaviour itself'),
            'design_ref': f'DESIGN.md section 5 ({pid})',
        },
        'level_note': getattr(mod, 'LEVEL_NOTE', '; '.join(getattr(mod, 'ASSUMPTIONS', []))),
        'technique': getattr(mod, 'TECHNIQUE', 'static analysis (ast): path enumeration, call resolution, guard/dataflow rules'),
    })
    for e in list(getattr(mod, 'ENGINES', ['pyindex', 'paths'])) + ['normalise', 'inline']:
        engines_used.setdefault(e, []).append(pid)
    if pid in ('C02', 'C13', 'C15'):
        engines_used.setdefault('flows', []).append(pid)

ENG = {
    'pyindex': ('sa/pyindex.py + sa/calls.py', 'resolved program: imports, classes, MRO, registries, call graph (source only)'),
    'paths': ('sa/paths.py + sa/cond.py', 'per-function path enumeration (syntax-directed CFG), branch-condition normal form, dominance queries'),
    'grammar': ('sa/grammar.py + sa/gtools.py', 'abstract evaluation of the pyparsing definitions into a grammar IR; results-name flow, vocabularies, multiplicities'),
    'strctx': ('sa/strctx.py', 'string-context analysis of renderer templates (f-strings/joins), writer/reader token agreement'),
    'effects': ('sa/effects.py', 'mutation/freshness analysis over the call-graph closure'),
    'normalise': ('sa/normalise.py', 'semantics-preserving canonicalisation and desugaring of every parsed module (one spelling per idiom) before any rule reads it'),
    'inline': ('sa/inline.py', 'helper inliner (guard clauses, search loops, nested calls, expression form) used when a rule reads through an extracted helper'),
    'strval': ('sa/strval.py + sa/rules/forms.py', 'abstract string evaluation of text-building functions into skeletons with labelled holes; statement-form obligations'),
    'peval': ('sa/peval.py', 'partial evaluation of a function per constant of a closed set (reference kinds): tests on the kind decided, calls/subscripts reached recorded'),
    'specialise': ('sa/inline.py (types=) + sa/rules/wiring.py + sa/rules/common.py:expanded', 'typed specialisation: methods resolved through declared classes, isinstance tests decided, helper-expanded views of functions'),
    'flows': ('sa/flows.py', 'reader token classes per model attribute (grammar -> action -> blueprint -> model) and light typing of renderer variables'),
}
engines = [{'name': k, 'path': ENG[k][0], 'serves_properties': sorted(set(v)), 'kind_free_text': ENG[k][1]}
           for k, v in sorted(engines_used.items()) if k in ENG]

m = {
    'version': 1,
    'setup_cmd': 'python3 -m compileall -q sa selftest tools',
    'hooks': {
        'guard': 'PYDBML_VERIF',
        'enable': 'no hooks needed: every check parses the source text of /repo (stdlib ast); nothing in /repo is instrumented',
        'baseline_off_cmd': 'cd /repo && /venv/bin/python -m pytest -ra -q -p no:cacheprovider --timeout=900 --continue-on-collection-errors',
        'source_commits': [],
        'add_only': True,
    },
    'engines': engines,
    'checks': checks,
    'notes': ('Technique family: static analysis only. Each check re-parses /repo (or $VERIF_REPO) on every run, '
              'never imports or executes pydbml. Exit 0 = all structural obligations discharged (known findings listed in '
              'known_findings.json are printed as KNOWN-FINDING); exit 1 + VIOLATION = a refuted obligation; exit 2 + '
              'ANALYSIS-ERROR = a construct the analyser cannot interpret (never reported as a violation). The thorough tier '
              'adds the mutation/twin self-test battery in scratch copies under $VERIF_SCRATCH (default /var/tmp).'),
    'not_applicable': na,
}
json.dump(m, open(os.path.join(VERIF, 'MANIFEST.json'), 'w'), indent=1)
print(f'{len(checks)} checks, {len(na)} not claimed')
