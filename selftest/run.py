"""Mutation / twin battery (thorough tier).  Filled in per property in selftest/mutants.py."""
from __future__ import annotations


def battery_for(prop, col, repo):
    try:
        from .mutants import run_battery
    except ImportError:
        return {'selftest': 'no battery defined yet'}
    return run_battery(prop, col, repo)
