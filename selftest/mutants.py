"""Self-test battery of the checkers (thorough tier).

Mutants: AST-computed single-site changes of /repo's CURRENT source that still compile and break a
structural obligation (guard deleted / flipped, exception class swapped, back-pointer store deleted, call
deleted, keyword argument dropped, results name renamed, caseless literal made case-sensitive, repetition
bound changed, longest-match alternative made ordered, constant swapped, `is not None` weakened, ...).
Twins: behaviour-preserving rewrites (alpha-renaming of locals, `a += b` -> `a = a + b`, swapped
if/else branches with negated test, commuted `==`, inserted no-op statements) on which no rule may
answer REFUTED.

Every variant lives in its own scratch copy of the package under $VERIF_SCRATCH (default /var/tmp),
removed as soon as it has been judged.  A property's battery = the variants whose operator/site is
relevant to it (RELEVANT below) judged by that property's check only.
"""
from __future__ import annotations

import ast
import copy
import json
import os
import shutil
import sys
import tempfile
from concurrent.futures import ProcessPoolExecutor
from typing import Callable, Dict, Iterator, List, Optional, Tuple

VERIF = os.path.dirname(os.path.dirname(os.path.abspath(__file__)))
SCRATCH = os.environ.get('VERIF_SCRATCH', '/var/tmp')


class Variant:
    def __init__(self, vid: str, relpath: str, source: str, kind: str, what: str):
        self.vid, self.relpath, self.source, self.kind, self.what = vid, relpath, source, kind, what


def modules(repo: str) -> List[Tuple[str, str]]:
    out = []
    root = os.path.join(repo, 'pydbml')
    for dp, dn, fn in os.walk(root):
        dn[:] = sorted(d for d in dn if d != '__pycache__')
        for f in sorted(fn):
            if f.endswith('.py'):
                p = os.path.join(dp, f)
                out.append((os.path.relpath(p, repo), open(p, encoding='utf8').read()))
    return out


def qual(stack: List[str]) -> str:
    return '.'.join(stack) or '<module>'


class Sites(ast.NodeVisitor):
    """Collect (qualname, node, parent-list, index) for statement-level sites."""
    def __init__(self):
        self.stack: List[str] = []
        self.stmts: List[Tuple[str, ast.stmt, list, int]] = []

    def _body(self, body: list):
        for i, st in enumerate(body):
            self.stmts.append((qual(self.stack), st, body, i))
            self.visit(st)

    def generic_visit(self, node):
        for fld in ('body', 'orelse', 'finalbody'):
            b = getattr(node, fld, None)
            if isinstance(b, list) and b and isinstance(b[0], ast.stmt):
                named = isinstance(node, (ast.FunctionDef, ast.ClassDef)) and fld == 'body'
                if named:
                    self.stack.append(node.name)
                self._body(b)
                if named:
                    self.stack.pop()
        for h in getattr(node, 'handlers', []) or []:
            self._body(h.body)


def unparse(tree: ast.AST) -> str:
    ast.fix_missing_locations(tree)
    return ast.unparse(tree) + '\n'


def edit(src: str, fn: Callable[[ast.Module], bool]) -> Optional[str]:
    tree = ast.parse(src)
    if not fn(tree):
        return None
    try:
        out = unparse(tree)
        compile(out, '<variant>', 'exec')
        return out
    except Exception:
        return None


# ----------------------------------------------------------------------------------------------
# mutant generators
# ----------------------------------------------------------------------------------------------

def gen_mutants(repo: str) -> List[Variant]:
    out: List[Variant] = []
    for rel, src in modules(repo):
        tree = ast.parse(src)
        s = Sites()
        s._body(tree.body)
        # statement-level operators: located by (qualname, ordinal among same-kind sites in that function)
        counters: Dict[Tuple[str, str], int] = {}

        def nid(op: str, q: str) -> str:
            k = (op, q)
            counters[k] = counters.get(k, 0) + 1
            return f'{op}:{rel}:{q}#{counters[k]}'
        for q, st, body, i in s.stmts:
            # guards: `if T: raise X`
            if isinstance(st, ast.If) and len(st.body) == 1 and isinstance(st.body[0], ast.Raise) and not st.orelse:
                key = (st.lineno, st.col_offset)

                def del_guard(t, key=key):
                    for n in ast.walk(t):
                        for fld in ('body', 'orelse'):
                            b = getattr(n, fld, None)
                            if isinstance(b, list):
                                for j, x in enumerate(b):
                                    if isinstance(x, ast.If) and (x.lineno, x.col_offset) == key:
                                        b[j] = ast.Pass()
                                        return True
                    return False

                def flip_guard(t, key=key):
                    for n in ast.walk(t):
                        if isinstance(n, ast.If) and (n.lineno, n.col_offset) == key:
                            n.test = ast.UnaryOp(op=ast.Not(), operand=n.test)
                            return True
                    return False

                def swap_exc(t, key=key):
                    for n in ast.walk(t):
                        if isinstance(n, ast.If) and (n.lineno, n.col_offset) == key:
                            r = n.body[0]
                            if isinstance(r.exc, ast.Call) and isinstance(r.exc.func, ast.Name) and r.exc.func.id not in ('ValueError',):
                                r.exc.func = ast.Name(id='ValueError', ctx=ast.Load())
                                return True
                    return False
                for op, fn, what in (('DEL_GUARD', del_guard, 'guard deleted'), ('FLIP_GUARD', flip_guard, 'guard condition negated'),
                                     ('SWAP_EXC', swap_exc, 'exception class replaced by ValueError')):
                    new = edit(src, fn)
                    if new:
                        out.append(Variant(nid(op, q), rel, new, 'mutant', f'{what}: `{ast.unparse(st.test)[:60]}` in {q}'))
            # attribute stores of owner links
            if isinstance(st, ast.Assign) and len(st.targets) == 1 and isinstance(st.targets[0], ast.Attribute) \
                    and st.targets[0].attr in ('table', 'parent', 'database', 'parser') and not (
                    isinstance(st.targets[0].value, ast.Name) and st.targets[0].value.id == 'self' and q.endswith('__init__')):
                key = (st.lineno, st.col_offset)

                def del_store(t, key=key):
                    for n in ast.walk(t):
                        for fld in ('body', 'orelse'):
                            b = getattr(n, fld, None)
                            if isinstance(b, list):
                                for j, x in enumerate(b):
                                    if isinstance(x, ast.Assign) and (x.lineno, x.col_offset) == key:
                                        b[j] = ast.Pass()
                                        return True
                    return False
                new = edit(src, del_store)
                if new:
                    out.append(Variant(nid('DEL_LINK', q), rel, new, 'mutant', f'link store deleted: `{ast.unparse(st)[:60]}` in {q}'))
            # expression statements that are calls of guarding/wiring helpers
            if isinstance(st, ast.Expr) and isinstance(st.value, ast.Call):
                f = st.value.func
                name = f.attr if isinstance(f, ast.Attribute) else (f.id if isinstance(f, ast.Name) else '')
                if name in ('_set_database', '_unset_database', 'check_attributes_for_sql', 'validate_for_sql', 'validate_for_dbml', '_validate',
                            'addParseAction', 'add_parse_action', '_set_syntax', 'build_database'):
                    key = (st.lineno, st.col_offset)

                    def del_call(t, key=key):
                        for n in ast.walk(t):
                            for fld in ('body', 'orelse'):
                                b = getattr(n, fld, None)
                                if isinstance(b, list):
                                    for j, x in enumerate(b):
                                        if isinstance(x, ast.Expr) and (x.lineno, x.col_offset) == key:
                                            b[j] = ast.Pass()
                                            return True
                        return False
                    new = edit(src, del_call)
                    if new:
                        out.append(Variant(nid('DEL_CALL', q), rel, new, 'mutant', f'call deleted: `{ast.unparse(st)[:60]}` in {q}'))
        # expression-level operators, located by ordinal in the module
        exprs = list(ast.walk(tree))
        ords: Dict[str, int] = {}

        def expr_variants(op: str, pred: Callable[[ast.AST], bool], mut: Callable[[ast.AST], bool], what: Callable[[ast.AST], str], limit: int = 40):
            k = 0
            for n in exprs:
                if pred(n):
                    k += 1
                    if k > limit:
                        break
                    ordinal = k

                    def fn(t, ordinal=ordinal):
                        c = 0
                        for m in ast.walk(t):
                            if pred(m):
                                c += 1
                                if c == ordinal:
                                    return mut(m)
                        return False
                    new = edit(src, fn)
                    if new:
                        out.append(Variant(f'{op}:{rel}#{k}', rel, new, 'mutant', what(n)))
        is_defs = rel.startswith('pydbml/definitions/')
        if is_defs:
            # results name renamed
            def is_named(n):
                return isinstance(n, ast.Call) and len(n.args) == 1 and isinstance(n.args[0], ast.Constant) and isinstance(n.args[0].value, str) \
                    and not n.keywords and not isinstance(n.func, ast.Attribute) and n.args[0].value.replace('*', '').isidentifier() and isinstance(n.func, (ast.Name, ast.Call, ast.Subscript))

            def rename(n):
                v = n.args[0].value
                n.args[0] = ast.Constant(value=(v[:-1] + '_x*') if v.endswith('*') else v + '_x')
                return True
            expr_variants('RENAME_RESULT', is_named, rename, lambda n: f'results name {n.args[0].value!r} renamed')

            def is_caseless(n):
                return isinstance(n, ast.Call) and isinstance(n.func, ast.Attribute) and n.func.attr == 'CaselessLiteral'

            def uncase(n):
                n.func.attr = 'Literal'
                return True
            expr_variants('CASE_SENSITIVE', is_caseless, uncase, lambda n: f'CaselessLiteral({ast.unparse(n.args[0])}) made case-sensitive')

            def is_or(n):
                return isinstance(n, ast.BinOp) and isinstance(n.op, ast.BitXor)

            def to_first(n):
                n.op = ast.BitOr()
                return True
            expr_variants('LONGEST_TO_ORDERED', is_or, to_first, lambda n: 'longest-match `^` replaced by ordered `|`')

            def is_bound(n):
                return isinstance(n, ast.Subscript) and isinstance(n.slice, ast.Tuple) and len(n.slice.elts) == 2 and isinstance(n.slice.elts[0], ast.Constant)

            def loosen(n):
                lo = n.slice.elts[0].value
                n.slice.elts[0] = ast.Constant(value=0 if lo else 1)
                return True
            expr_variants('BOUND', is_bound, loosen, lambda n: f'repetition bound {ast.unparse(n.slice)} changed')
        if rel.startswith('pydbml/renderer/') or rel.endswith('tools.py'):
            def is_isnotnone(n):
                return isinstance(n, ast.Compare) and len(n.ops) == 1 and isinstance(n.ops[0], ast.IsNot) and isinstance(n.comparators[0], ast.Constant) \
                    and n.comparators[0].value is None and isinstance(n.left, ast.Attribute)

            def weaken(n):
                n.ops = [ast.NotEq()]
                n.comparators = [ast.Constant(value=0)]
                return True
            expr_variants('WEAKEN_NOT_NONE', is_isnotnone, weaken, lambda n: f'`{ast.unparse(n)}` weakened')

            def is_nl(n):
                return isinstance(n, ast.Constant) and n.value == '\n'

            def to_space(n):
                n.value = ' '
                return True
            if rel.endswith('tools.py'):
                expr_variants('SEPARATOR', is_nl, to_space, lambda n: "line separator '\\n' replaced by ' '", limit=6)
        if rel.startswith('pydbml/renderer/') and not rel.endswith('__init__.py'):
            def replace_nth(pred, repl, ordinal):
                def fn(t):
                    c = 0
                    for parent in ast.walk(t):
                        for fld, val in ast.iter_fields(parent):
                            vals = val if isinstance(val, list) else [val]
                            for j, v in enumerate(vals):
                                if isinstance(v, ast.AST) and pred(v):
                                    c += 1
                                    if c == ordinal:
                                        nv = repl(v)
                                        if isinstance(val, list):
                                            val[j] = nv
                                        else:
                                            setattr(parent, fld, nv)
                                        return True
                    return False
                return fn
            WRAPPERS = ('prepare_text_for_dbml', 'prepare_text_for_sql', 'get_full_name_for_sql', 'get_full_name_for_dbml', 'name_to_dbml', 'string_to_dbml',
                        'quote_string', 'escape_braces', 'comment_to_sql', 'comment_to_dbml', 'note_option_to_dbml', 'doublequote_string')

            def is_wrapper(n):
                return isinstance(n, ast.Call) and isinstance(n.func, ast.Name) and n.func.id in WRAPPERS and len(n.args) == 1 and not n.keywords
            k = 0
            for n in exprs:
                if is_wrapper(n) and k < 40:
                    k += 1
                    new = edit(src, replace_nth(is_wrapper, lambda v: v.args[0], k))
                    if new:
                        out.append(Variant(f'R_DROP_WRAPPER:{rel}#{k}', rel, new, 'mutant', f'`{ast.unparse(n)[:60]}` replaced by its argument'))

            def is_test(n):
                return (isinstance(n, ast.If) and not (len(n.body) == 1 and isinstance(n.body[0], ast.Raise))) or isinstance(n, ast.IfExp)

            def flip(n):
                n.test = ast.UnaryOp(op=ast.Not(), operand=n.test)
                return True
            expr_variants('R_FLIP_IF', is_test, flip, lambda n: f'condition `{ast.unparse(n.test)[:60]}` negated', limit=40)
            SIDES = {'col1': 'col2', 'col2': 'col1', 'table1': 'table2', 'table2': 'table1'}

            def is_side(n):
                return isinstance(n, ast.Attribute) and n.attr in SIDES and isinstance(n.ctx, ast.Load)

            def swap_side(n):
                n.attr = SIDES[n.attr]
                return True
            expr_variants('R_SWAP_SIDE', is_side, swap_side, lambda n: f'`{ast.unparse(n)}` replaced by the other side', limit=40)

            def is_kwtext(n):
                return isinstance(n, ast.Constant) and isinstance(n.value, str) and sum(ch.isalpha() for ch in n.value) >= 2 and '\n' not in n.value

            def misspell(n):
                v = n.value
                i = next(i for i, ch in enumerate(v) if ch.isalpha())
                j = next((j for j in range(i + 1, len(v)) if v[j].isalpha() and v[j] != v[i]), None)
                if j is None:
                    return False
                n.value = v[:i] + v[j] + v[i + 1:j] + v[i] + v[j + 1:]
                return True
            expr_variants('R_KW_TEXT', is_kwtext, misspell, lambda n: f'literal text {n.value[:30]!r} misspelt', limit=40)
            k = 0
            for q, st, body, i in s.stmts:
                is_emit = (isinstance(st, ast.Expr) and isinstance(st.value, ast.Call) and isinstance(st.value.func, ast.Attribute) and st.value.func.attr in ('append', 'extend')) \
                    or (isinstance(st, ast.AugAssign) and isinstance(st.op, ast.Add))
                if is_emit and k < 40:
                    k += 1
                    key = (st.lineno, st.col_offset)

                    def del_emit(t, key=key):
                        for n in ast.walk(t):
                            for fld in ('body', 'orelse'):
                                b = getattr(n, fld, None)
                                if isinstance(b, list):
                                    for j, x in enumerate(b):
                                        if isinstance(x, (ast.Expr, ast.AugAssign)) and (x.lineno, x.col_offset) == key:
                                            b[j] = ast.Pass()
                                            return True
                        return False
                    new = edit(src, del_emit)
                    if new:
                        out.append(Variant(f'R_DEL_EMIT:{rel}:{q}#{k}', rel, new, 'mutant', f'emission deleted: `{ast.unparse(st)[:60]}` in {q}'))
        if rel.endswith('parser/parser.py'):
            def is_copy(n):
                return isinstance(n, ast.Call) and isinstance(n.func, ast.Attribute) and n.func.attr == 'copy' and not n.args

            def uncopy(n):
                # replace `x.copy()` by `x`
                n.func = ast.Name(id='_identity', ctx=ast.Load())
                n.args = [n.func_value] if hasattr(n, 'func_value') else n.args
                return False
            k = 0
            for n in exprs:
                if is_copy(n):
                    k += 1
                    ordinal = k

                    def fn(t, ordinal=ordinal):
                        c = 0
                        for parent in ast.walk(t):
                            for fld, val in ast.iter_fields(parent):
                                vals = val if isinstance(val, list) else [val]
                                for j, v in enumerate(vals):
                                    if isinstance(v, ast.AST) and is_copy(v):
                                        c += 1
                                        if c == ordinal:
                                            if isinstance(val, list):
                                                val[j] = v.func.value
                                            else:
                                                setattr(parent, fld, v.func.value)
                                            return True
                        return False
                    new = edit(src, fn)
                    if new:
                        out.append(Variant(f'DEL_COPY:{rel}#{k}', rel, new, 'mutant', f'`{ast.unparse(n)}` -> shared element used directly'))

            def is_bomcall(n):
                return isinstance(n, ast.Call) and isinstance(n.func, ast.Name) and n.func.id == 'remove_bom'
            k = 0
            for n in exprs:
                if is_bomcall(n):
                    k += 1
                    ordinal = k

                    def fn(t, ordinal=ordinal):
                        c = 0
                        for parent in ast.walk(t):
                            for fld, val in ast.iter_fields(parent):
                                if isinstance(val, ast.AST) and is_bomcall(val):
                                    c += 1
                                    if c == ordinal:
                                        setattr(parent, fld, val.args[0])
                                        return True
                        return False
                    new = edit(src, fn)
                    if new:
                        out.append(Variant(f'DEL_BOM:{rel}#{k}', rel, new, 'mutant', 'remove_bom call removed'))

            def is_parseall(n):
                return isinstance(n, ast.keyword) and n.arg in ('parseAll', 'parse_all')

            def no_parseall(n):
                n.value = ast.Constant(value=False)
                return True
            expr_variants('NO_PARSE_ALL', is_parseall, no_parseall, lambda n: 'parse_all switched off')
        if rel.endswith('parser/blueprints.py'):
            # keyword dropped from a model constructor call inside build()
            k = 0
            for n in exprs:
                if isinstance(n, ast.Call) and isinstance(n.func, ast.Name) and n.func.id[:1].isupper() and len(n.keywords) >= 3:
                    for ki, kw in enumerate(n.keywords):
                        if kw.arg in ('comment', 'name', 'note', 'schema', 'unique', 'pk', 'type', 'on_update', 'alias', 'properties', 'color', 'items'):
                            k += 1
                            key = (n.lineno, n.col_offset, kw.arg)

                            def fn(t, key=key):
                                for m in ast.walk(t):
                                    if isinstance(m, ast.Call) and (getattr(m, 'lineno', 0), getattr(m, 'col_offset', 0)) == key[:2]:
                                        m.keywords = [x for x in m.keywords if x.arg != key[2]]
                                        return True
                                return False
                            new = edit(src, fn)
                            if new:
                                out.append(Variant(f'DROP_KW:{rel}:{n.func.id}.{kw.arg}', rel, new, 'mutant', f'{n.func.id}(...) no longer receives {kw.arg}='))
    return out


# ----------------------------------------------------------------------------------------------
# twins
# ----------------------------------------------------------------------------------------------

class AlphaRename(ast.NodeTransformer):
    def __init__(self, mapping):
        self.m = mapping

    def visit_Name(self, node):
        if node.id in self.m:
            node.id = self.m[node.id]
        return node


def gen_twins(repo: str) -> List[Variant]:
    out: List[Variant] = []
    for rel, src in modules(repo):
        if rel.endswith('__init__.py'):
            continue
        # T1: alpha-rename plain locals (assigned names that are neither parameters nor used in nested scopes/globals) in every function
        def t_rename(t):
            changed = False
            for fn in [n for n in ast.walk(t) if isinstance(n, ast.FunctionDef)]:
                params = {a.arg for a in fn.args.args + fn.args.kwonlyargs}
                if fn.args.vararg:
                    params.add(fn.args.vararg.arg)
                if fn.args.kwarg:
                    params.add(fn.args.kwarg.arg)
                nested = any(isinstance(x, (ast.FunctionDef, ast.Lambda, ast.ClassDef)) and x is not fn for x in ast.walk(fn))
                if nested:
                    continue
                stores = {x.id for x in ast.walk(fn) if isinstance(x, ast.Name) and isinstance(x.ctx, ast.Store)}
                if any(isinstance(x, (ast.Global, ast.Nonlocal)) for x in ast.walk(fn)):
                    continue
                names = {x.id for x in ast.walk(fn) if isinstance(x, ast.Name)}
                kwnames = {k.arg for c in ast.walk(fn) if isinstance(c, ast.Call) for k in c.keywords if k.arg}
                mapping = {}
                for s_ in sorted(stores - params):
                    new = s_ + '_v'
                    if new not in names and s_ not in kwnames or True:
                        if new not in names:
                            mapping[s_] = new
                if mapping:
                    AlphaRename(mapping).visit(fn)
                    changed = True
            return changed
        new = edit(src, t_rename)
        if new:
            out.append(Variant(f'T_RENAME_LOCALS:{rel}', rel, new, 'twin', 'all plain locals alpha-renamed'))

        # T2: a += b  ->  a = a + b  (names only)
        def t_aug(t):
            changed = False
            for n in ast.walk(t):
                for fld in ('body', 'orelse'):
                    b = getattr(n, fld, None)
                    if isinstance(b, list):
                        for j, x in enumerate(b):
                            if isinstance(x, ast.AugAssign) and isinstance(x.target, ast.Name) and isinstance(x.op, ast.Add):
                                b[j] = ast.Assign(targets=[ast.Name(id=x.target.id, ctx=ast.Store())],
                                                  value=ast.BinOp(left=ast.Name(id=x.target.id, ctx=ast.Load()), op=ast.Add(), right=x.value))
                                changed = True
            return changed
        new = edit(src, t_aug)
        if new:
            out.append(Variant(f'T_AUG_TO_ASSIGN:{rel}', rel, new, 'twin', '`a += b` rewritten as `a = a + b`'))

        # T3: if/else with both branches: swap branches and negate the test
        def t_swap(t):
            changed = False
            for n in ast.walk(t):
                if isinstance(n, ast.If) and n.orelse and not (len(n.orelse) == 1 and isinstance(n.orelse[0], ast.If)) \
                        and not isinstance(n.test, ast.Call):
                    n.test = ast.UnaryOp(op=ast.Not(), operand=n.test)
                    n.body, n.orelse = n.orelse, n.body
                    changed = True
            return changed
        new = edit(src, t_swap)
        if new:
            out.append(Variant(f'T_SWAP_BRANCHES:{rel}', rel, new, 'twin', 'if/else branches swapped with negated test'))

        # T4: commute == comparisons
        def t_comm(t):
            changed = False
            for n in ast.walk(t):
                if isinstance(n, ast.Compare) and len(n.ops) == 1 and isinstance(n.ops[0], (ast.Eq, ast.NotEq)) \
                        and not isinstance(n.comparators[0], ast.Constant):
                    n.left, n.comparators = n.comparators[0], [n.left]
                    changed = True
            return changed
        new = edit(src, t_comm)
        if new:
            out.append(Variant(f'T_COMMUTE_EQ:{rel}', rel, new, 'twin', '`a == b` rewritten as `b == a`'))

        # T5: a no-op statement at the start of every function body (after the docstring)
        def t_noop(t):
            changed = False
            for fn in [n for n in ast.walk(t) if isinstance(n, ast.FunctionDef)]:
                i = 1 if fn.body and isinstance(fn.body[0], ast.Expr) and isinstance(fn.body[0].value, ast.Constant) else 0
                fn.body.insert(i, ast.Assert(test=ast.Constant(value=True), msg=None))
                changed = True
            return changed
        new = edit(src, t_noop)
        if new:
            out.append(Variant(f'T_NOOP:{rel}', rel, new, 'twin', '`assert True` inserted at the start of every function'))
    return out


# ----------------------------------------------------------------------------------------------
# relevance: which variants belong to which property's battery
# ----------------------------------------------------------------------------------------------

FILES = {
    'C01': ('pydbml/definitions/', 'pydbml/parser/'), 'C02': ('pydbml/renderer/dbml/', 'pydbml/tools.py', 'pydbml/definitions/generic.py'),
    'C03': ('pydbml/renderer/sql/', 'pydbml/_classes/table.py'), 'C04': ('pydbml/renderer/sql/default/reference.py', 'pydbml/renderer/sql/default/table.py',
                                                                         'pydbml/renderer/sql/default/renderer.py', 'pydbml/_classes/reference.py'),
    'C05': ('pydbml/parser/', 'pydbml/database.py', 'pydbml/_classes/'), 'C06': ('pydbml/database.py', 'pydbml/parser/', 'pydbml/_classes/table.py', 'pydbml/definitions/table.py'),
    'C07': ('pydbml/definitions/', 'pydbml/parser/parser.py'), 'C08': ('pydbml/',), 'C09': ('pydbml/database.py', 'pydbml/_classes/table.py'),
    'C10': ('pydbml/renderer/', 'pydbml/_classes/', 'pydbml/database.py'), 'C11': ('pydbml/parser/', 'pydbml/definitions/'), 'C12': ('pydbml/parser/parser.py', 'pydbml/tools.py'),
    'C13': ('pydbml/renderer/', 'pydbml/tools.py', 'pydbml/parser/blueprints.py', 'pydbml/definitions/generic.py'),
    'C14': ('pydbml/definitions/', 'pydbml/tools.py', 'pydbml/renderer/'), 'C15': ('pydbml/definitions/table.py', 'pydbml/definitions/column.py', 'pydbml/parser/parser.py',
                                                                                  'pydbml/database.py', 'pydbml/renderer/dbml/default/table.py', 'pydbml/renderer/dbml/default/column.py'),
    'C16': ('pydbml/renderer/', 'pydbml/_classes/base.py', 'pydbml/database.py'), 'C17': ('pydbml/_classes/', 'pydbml/renderer/'), 'C18': ('pydbml/renderer/sql/default/',),
}


def relevant(prop: str, v: Variant) -> bool:
    return v.relpath.startswith(FILES.get(prop, ('pydbml/',)))


# ----------------------------------------------------------------------------------------------
# running
# ----------------------------------------------------------------------------------------------

def judge(args) -> Tuple[str, int, List[str]]:
    prop, repo, vid, relpath, source = args
    sys.path.insert(0, VERIF)
    from sa.check import run_property
    from sa.core import Collector
    tmp = tempfile.mkdtemp(prefix='selftest_', dir=SCRATCH)
    try:
        shutil.copytree(os.path.join(repo, 'pydbml'), os.path.join(tmp, 'pydbml'), ignore=shutil.ignore_patterns('__pycache__'))
        with open(os.path.join(tmp, relpath), 'w', encoding='utf8') as f:
            f.write(source)
        import io
        import contextlib
        buf = io.StringIO()
        with contextlib.redirect_stdout(buf), contextlib.redirect_stderr(io.StringIO()):
            rc = run_property(prop, tmp, 'quick', evidence_dir=os.path.join(tmp, 'ev'), quiet=False, selftest=False)
        lines = [l for l in buf.getvalue().splitlines() if l.startswith(('REFUTED', 'ANALYSIS-ERROR'))]
        return vid, rc, [l[:200] for l in lines[:2]]
    except Exception as e:  # pragma: no cover
        return vid, 3, [f'{type(e).__name__}: {e}']
    finally:
        shutil.rmtree(tmp, ignore_errors=True)


def load_expected() -> Dict[str, List[str]]:
    p = os.path.join(VERIF, 'selftest', 'expected.json')
    if os.path.exists(p):
        return json.load(open(p))
    return {}


def run_battery(prop: str, col, repo: str, jobs: int = 16, write_expected: bool = False) -> Dict:
    muts = [v for v in gen_mutants(repo) if relevant(prop, v)]
    twins = [v for v in gen_twins(repo) if relevant(prop, v)]
    allv = muts + twins
    tasks = [(prop, repo, v.vid, v.relpath, v.source) for v in allv]
    res: Dict[str, Tuple[int, List[str]]] = {}
    with ProcessPoolExecutor(max_workers=jobs) as ex:
        for vid, rc, lines in ex.map(judge, tasks, chunksize=2):
            res[vid] = (rc, lines)
    caught = [v for v in muts if res[v.vid][0] == 1]
    unrec = [v for v in muts if res[v.vid][0] == 2]
    silent = [v for v in muts if res[v.vid][0] == 0]
    twin_alarm = [v for v in twins if res[v.vid][0] == 1]
    twin_unrec = [v for v in twins if res[v.vid][0] == 2]
    expected = set(load_expected().get(prop, []))
    present = {v.vid for v in muts}
    missed_expected = sorted(e for e in expected if e in present and res[e][0] != 1)
    if write_expected:
        return {'caught_ids': sorted(v.vid for v in caught)}
    if os.environ.get('VERIF_UPDATE_EXPECTED') == '1':
        # maintenance mode (never set by a registered command): the list of mutants this check catches is re-recorded from this very run
        exp = load_expected()
        if missed_expected:
            print(f'{prop}: no longer caught (dropped from expected.json): {missed_expected}')
        exp[prop] = sorted(v.vid for v in caught)
        json.dump(exp, open(os.path.join(VERIF, 'selftest', 'expected.json'), 'w'), indent=0, sort_keys=True)
        expected, missed_expected = set(exp[prop]), []
    for v in twin_alarm:
        col.unk(f'{prop}-selftest', f'twin:{v.vid}', f'FALSE ALARM on a behaviour-preserving variant ({v.what}): {res[v.vid][1][:1]}')
    for e in missed_expected:
        col.unk(f'{prop}-selftest', f'mutant:{e}', 'a mutant this check is expected to catch was not reported (the rule lost its bite)')
    return {
        'selftest': {
            'mutants_total': len(muts), 'mutants_caught': len(caught), 'mutants_unrecognised': len(unrec), 'mutants_silent': len(silent),
            'expected_caught': len(expected & present), 'expected_missed': missed_expected,
            'twins_total': len(twins), 'twins_silent': len(twins) - len(twin_alarm) - len(twin_unrec), 'twins_unrecognised': len(twin_unrec),
            'twin_false_alarms': [v.vid for v in twin_alarm],
            'sample_caught': [{'id': v.vid, 'what': v.what, 'report': res[v.vid][1][:1]} for v in caught[:12]],
            'sample_silent': [{'id': v.vid, 'what': v.what} for v in silent[:12]],
            'scratch': SCRATCH,
        }
    }


if __name__ == '__main__':
    # python3 selftest/mutants.py [--write-expected] [PROP ...] : print the battery per property
    sys.path.insert(0, VERIF)
    from sa.core import Collector
    args = [a for a in sys.argv[1:] if not a.startswith('--')]
    props = args or sorted(FILES)
    write = '--write-expected' in sys.argv
    exp = load_expected()
    for p in props:
        c = Collector(p)
        r = run_battery(p, c, os.environ.get('VERIF_REPO', '/repo'), write_expected=write)
        if write:
            exp[p] = r['caught_ids']
            print(p, 'expected ->', len(exp[p]))
        else:
            s = r['selftest']
            print(p, {k: v for k, v in s.items() if not k.startswith('sample') and k != 'scratch'})
            for o in c.obs:
                print('   ', o.construct, o.msg[:160])
    if write:
        json.dump(exp, open(os.path.join(VERIF, 'selftest', 'expected.json'), 'w'), indent=0, sort_keys=True)
