"""Confirm a seeded change independently and import it into /verif/seeded/<name>/.

usage: python3 selftest/verify_seed.py <out-dir> <variant a|b> <name>

Runs, in a fresh scratch git worktree of /repo (removed afterwards):
  1. demo on the unchanged tree           -> must exit 0
  2. git apply patch; full test suite      -> must report 470 passed, 0 failed
  3. demo with the change                  -> must exit non-zero
and writes seeded/<name>/{patch.diff,demo.py,meta.json}.
"""
import json
import os
import shutil
import subprocess
import sys
import tempfile

VERIF = os.path.dirname(os.path.dirname(os.path.abspath(__file__)))
PY = '/venv/bin/python'


def sh(cmd, cwd=None, env=None):
    p = subprocess.run(cmd, shell=True, cwd=cwd, env=env, stdout=subprocess.PIPE, stderr=subprocess.STDOUT, text=True)
    return p.returncode, p.stdout


def main():
    out, var, name = sys.argv[1], sys.argv[2], sys.argv[3]
    patch = os.path.join(out, f'patch_{var}.diff')
    demo = os.path.join(out, f'demo_{var}.py')
    meta_in = os.path.join(out, f'meta_{var}.json')
    if not (os.path.exists(patch) and os.path.exists(demo)):
        print('MISSING', patch, demo)
        return 2
    wt = tempfile.mkdtemp(prefix='seedv_', dir='/tmp')
    os.rmdir(wt)
    rc, o = sh(f'git -C /repo worktree add -q --detach {wt} HEAD')
    if rc:
        print(o)
        return 2
    env = dict(os.environ, PYTHONPATH=wt, PYTHONDONTWRITEBYTECODE='1')
    try:
        rc0, o0 = sh(f'{PY} {demo}', cwd=wt, env=env)
        rc, o = sh(f'git apply {patch}', cwd=wt)
        if rc:
            print('PATCH DOES NOT APPLY', o)
            return 2
        rct, ot = sh(f'{PY} -m pytest -q -p no:cacheprovider 2>&1 | tail -3', cwd=wt, env=env)
        summary = [l for l in ot.splitlines() if 'passed' in l or 'failed' in l]
        rc1, o1 = sh(f'{PY} {demo}', cwd=wt, env=env)
        tests_ok = bool(summary) and '470 passed' in summary[-1] and 'failed' not in summary[-1]
        ok = rc0 == 0 and rc1 != 0 and tests_ok
        print(f'{name}: demo_without={rc0} tests={summary[-1] if summary else ot[-200:]!r} demo_with={rc1} -> {"VALID" if ok else "INVALID"}')
        if not ok:
            print(o0[-400:], o1[-400:])
            return 1
        dst = os.path.join(VERIF, 'seeded', name)
        os.makedirs(dst, exist_ok=True)
        shutil.copy(patch, os.path.join(dst, 'patch.diff'))
        shutil.copy(demo, os.path.join(dst, 'demo.py'))
        m = {}
        if os.path.exists(meta_in):
            try:
                m = json.load(open(meta_in))
            except Exception:
                m = {}
        meta = {
            'property': m.get('property', name.split('_')[0]),
            'summary': m.get('summary', ''),
            'needs': m.get('needs', ''),
            'files': m.get('files', []),
            'origin': 'independent sub-agent given only the property text and a scratch worktree',
            'confirmed_by_me': {
                'worktree': 'fresh `git worktree add --detach` of /repo HEAD under /tmp, removed afterwards',
                'demo_without_change': f'exit {rc0}',
                'tests_with_change': summary[-1].strip() if summary else '',
                'demo_with_change': f'exit {rc1}: ' + o1.strip().splitlines()[-1][:300] if o1.strip() else f'exit {rc1}',
                'commands': [f'PYTHONPATH=<wt> {PY} demo.py', 'git apply patch.diff',
                             f'PYTHONPATH=<wt> {PY} -m pytest -q -p no:cacheprovider', f'PYTHONPATH=<wt> {PY} demo.py'],
            },
        }
        json.dump(meta, open(os.path.join(dst, 'meta.json'), 'w'), indent=1)
        return 0
    finally:
        sh(f'git -C /repo worktree remove --force {wt}')
        shutil.rmtree(wt, ignore_errors=True)


if __name__ == '__main__':
    sys.exit(main())
