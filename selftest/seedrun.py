"""Run the registered checks against every seeded change in /verif/seeded/ (in scratch copies of
/repo's package, never in /repo itself) and print a detection matrix.

usage: python3 selftest/seedrun.py [seed-name ...] [--all-props]
"""
import json
import os
import shutil
import subprocess
import sys
import tempfile
from concurrent.futures import ThreadPoolExecutor

VERIF = os.path.dirname(os.path.dirname(os.path.abspath(__file__)))
SCRATCH = os.environ.get('VERIF_SCRATCH', '/var/tmp')


def available_props():
    d = os.path.join(VERIF, 'sa', 'rules')
    return sorted(f[:-3].upper() for f in os.listdir(d) if f.startswith('c') and f.endswith('.py') and f[1:-3].isdigit())


def run_seed(name, props):
    sd = os.path.join(VERIF, 'seeded', name)
    tmp = tempfile.mkdtemp(prefix=f'seed_{name}_', dir=SCRATCH)
    try:
        shutil.copytree('/repo/pydbml', os.path.join(tmp, 'pydbml'))
        p = subprocess.run(['patch', '-p1', '-s', '-i', os.path.join(sd, 'patch.diff')], cwd=tmp,
                           stdout=subprocess.PIPE, stderr=subprocess.STDOUT, text=True)
        if p.returncode:
            return name, {'_patch': 'FAILED ' + p.stdout[-200:]}
        res = {}
        for prop in props:
            q = subprocess.run([sys.executable, '-m', 'sa.check', prop, '--repo', tmp, '--evidence-dir',
                                os.path.join(tmp, 'ev')], cwd=VERIF, stdout=subprocess.PIPE, stderr=subprocess.STDOUT, text=True)
            lines = [l for l in q.stdout.splitlines() if l.startswith(('REFUTED', 'ANALYSIS-ERROR'))]
            res[prop] = (q.returncode, lines[:3])
        return name, res
    finally:
        shutil.rmtree(tmp, ignore_errors=True)


def main():
    args = [a for a in sys.argv[1:] if not a.startswith('--')]
    allp = '--all-props' in sys.argv
    verbose = '-v' in sys.argv or '--verbose' in sys.argv
    seeds = args or sorted(os.listdir(os.path.join(VERIF, 'seeded')))
    seeds = [s for s in seeds if os.path.exists(os.path.join(VERIF, 'seeded', s, 'patch.diff'))]
    props = available_props()
    jobs = []
    with ThreadPoolExecutor(max_workers=16) as ex:
        for s in seeds:
            own = json.load(open(os.path.join(VERIF, 'seeded', s, 'meta.json'))).get('property', s.split('_')[0])
            ps = props if allp else [p for p in props if p == own]
            jobs.append((s, own, ex.submit(run_seed, s, ps)))
        caught = 0
        for s, own, fut in jobs:
            name, res = fut.result()
            if '_patch' in res:
                print(f'{s:10s} PATCH {res["_patch"]}')
                continue
            hit = {p: rc for p, (rc, _) in res.items() if rc != 0}
            own_rc = res.get(own, (None, []))[0]
            status = 'CAUGHT' if own_rc == 1 else ('ANALYSIS-ERR' if own_rc == 2 else ('missed' if own_rc == 0 else 'no-check'))
            if own_rc == 1:
                caught += 1
            others = {p: rc for p, rc in hit.items() if p != own}
            print(f'{s:10s} own={own} {status:12s} others={others if others else ""}')
            if verbose or own_rc in (1, 2):
                for l in res.get(own, (0, []))[1][:2]:
                    print('     ', l[:230])
        print(f'caught {caught}/{len(jobs)}')


if __name__ == '__main__':
    main()
