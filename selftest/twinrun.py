"""Run every registered check against behaviour-preserving variants.

usage: python3 selftest/twinrun.py [--import <outdir> <prefix>] [names...]
  --import: confirm each patch_tN.diff of <outdir> (applies to HEAD, 470 tests pass) and store it as /verif/twins/<prefix>_tN/
Every stored twin is applied to a scratch copy of /repo's package and all checks are run: a REFUTED line is a FALSE ALARM,
an ANALYSIS-ERROR is an unrecognised (but not misjudged) rewrite."""
import json
import os
import shutil
import subprocess
import sys
import tempfile
from concurrent.futures import ThreadPoolExecutor

VERIF = os.path.dirname(os.path.dirname(os.path.abspath(__file__)))
SCRATCH = os.environ.get('VERIF_SCRATCH', '/var/tmp')
PY = '/venv/bin/python'


def sh(cmd, cwd=None, env=None):
    p = subprocess.run(cmd, shell=True, cwd=cwd, env=env, stdout=subprocess.PIPE, stderr=subprocess.STDOUT, text=True)
    return p.returncode, p.stdout


def import_twins(outdir, prefix):
    for f in sorted(os.listdir(outdir)):
        if not (f.startswith('patch_t') and f.endswith('.diff')):
            continue
        var = f[len('patch_'):-len('.diff')]
        wt = tempfile.mkdtemp(prefix='twinv_', dir='/tmp')
        os.rmdir(wt)
        sh(f'git -C /repo worktree add -q --detach {wt} HEAD')
        try:
            rc, o = sh(f'git apply {os.path.join(outdir, f)}', cwd=wt)
            if rc:
                print(f'{prefix}_{var}: PATCH DOES NOT APPLY')
                continue
            env = dict(os.environ, PYTHONPATH=wt, PYTHONDONTWRITEBYTECODE='1')
            rc, o = sh(f'{PY} -m pytest -q -p no:cacheprovider 2>&1 | tail -2', cwd=wt, env=env)
            ok = '470 passed' in o and 'failed' not in o
            print(f'{prefix}_{var}: tests {"470 passed" if ok else o.strip()[-80:]}')
            if not ok:
                continue
            dst = os.path.join(VERIF, 'twins', f'{prefix}_{var}')
            os.makedirs(dst, exist_ok=True)
            shutil.copy(os.path.join(outdir, f), os.path.join(dst, 'patch.diff'))
            m = {}
            mp = os.path.join(outdir, f'meta_{var}.json')
            if os.path.exists(mp):
                try:
                    m = json.load(open(mp))
                except Exception:
                    m = {}
            m['origin'] = 'independent sub-agent asked for behaviour-preserving refactorings (property text and a scratch worktree only)'
            m['confirmed_by_me'] = 'applies to HEAD in a fresh worktree; 470 tests pass with it'
            json.dump(m, open(os.path.join(dst, 'meta.json'), 'w'), indent=1)
        finally:
            sh(f'git -C /repo worktree remove --force {wt}')
            shutil.rmtree(wt, ignore_errors=True)


def run_twin(name, props):
    sd = os.path.join(VERIF, 'twins', name)
    tmp = tempfile.mkdtemp(prefix=f'twin_{name}_', dir=SCRATCH)
    try:
        shutil.copytree('/repo/pydbml', os.path.join(tmp, 'pydbml'))
        p = subprocess.run(['patch', '-p1', '-s', '-i', os.path.join(sd, 'patch.diff')], cwd=tmp, stdout=subprocess.PIPE, stderr=subprocess.STDOUT, text=True)
        if p.returncode:
            return name, None
        res = {}
        for prop in props:
            q = subprocess.run([sys.executable, '-m', 'sa.check', prop, '--repo', tmp, '--evidence-dir', os.path.join(tmp, 'ev')], cwd=VERIF,
                               stdout=subprocess.PIPE, stderr=subprocess.STDOUT, text=True)
            lines = [l for l in q.stdout.splitlines() if l.startswith(('REFUTED', 'ANALYSIS-ERROR'))]
            res[prop] = (q.returncode, lines)
        return name, res
    finally:
        shutil.rmtree(tmp, ignore_errors=True)


def main():
    args = sys.argv[1:]
    if args[:1] == ['--import']:
        import_twins(args[1], args[2])
        args = args[3:]
    props = [c['property_id'] for c in json.load(open(os.path.join(VERIF, 'MANIFEST.json')))['checks']]
    names = [a for a in args if not a.startswith('-')] or sorted(os.listdir(os.path.join(VERIF, 'twins')))
    alarms = unrec = 0
    with ThreadPoolExecutor(max_workers=8) as ex:
        for name, res in ex.map(lambda n: run_twin(n, props), names):
            if res is None:
                print(f'{name}: PATCH FAILED')
                continue
            fa = {p: [l for l in ls if l.startswith('REFUTED')] for p, (rc, ls) in res.items() if rc == 1}
            ue = {p: [l for l in ls if l.startswith('ANALYSIS-ERROR')] for p, (rc, ls) in res.items() if rc == 2}
            alarms += bool(fa)
            unrec += bool(ue) and not fa
            print(f'{name}: {"FALSE ALARM " + str(sorted(fa)) if fa else ""} {"unrecognised " + str(sorted(ue)) if ue else ""}{"silent" if not fa and not ue else ""}')
            for p, ls in list(fa.items()) + list(ue.items()):
                for l in ls[:(40 if '-v' in sys.argv else 2)]:
                    print('     ', l[:(400 if '-v' in sys.argv else 260)])
    print(f'twins: {len(names)}  false alarms: {alarms}  unrecognised only: {unrec}')


if __name__ == '__main__':
    main()
