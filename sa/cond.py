"""E7 (part) - normal form for branch conditions.

A (test expression, outcome) pair is turned into a term over *values*; values are access
paths after local copy propagation, or normalised source for anything else.

Terms (tuples):
  ('in', x, C)          x in C
  ('eq', a, b)          a == b          (operands sorted)
  ('is', a, b)          a is b          (operands sorted)
  ('none', x)           x is None
  ('truthy', x)         bool(x)
  ('isinstance', x, T)
  ('cmp', op, a, b)     other comparisons, op in '<','<=','>','>='
  ('not', t)
  ('and', (t1, t2, ..)) / ('or', (...))
  ('any', src) / ('other', src)
"""
from __future__ import annotations

import ast
from typing import Dict, List, Optional, Tuple

from .core import norm
from .pyindex import access_path

Term = tuple


def value(expr: ast.AST, subst: Optional[Dict[str, str]] = None) -> str:
    p = access_path(expr)
    if p is not None:
        if subst:
            head = p.split('.', 1)[0].split('[', 1)[0]
            if head in subst:
                p = subst[head] + p[len(head):]
        return p
    if isinstance(expr, ast.Constant):
        return repr(expr.value)
    if subst:
        expr = _Subst(subst).visit(_copy(expr))
    return norm(expr)


def _copy(n):
    import copy
    return copy.deepcopy(n)


class _Subst(ast.NodeTransformer):
    def __init__(self, subst):
        self.subst = subst

    def visit_Name(self, node):
        if isinstance(node.ctx, ast.Load) and node.id in self.subst:
            try:
                return ast.parse(self.subst[node.id], mode='eval').body
            except SyntaxError:
                return node
        return node


def neg(t: Term) -> Term:
    if t[0] == 'not':
        return t[1]
    if t[0] == 'and':
        return ('or', tuple(neg(x) for x in t[1]))
    if t[0] == 'or':
        return ('and', tuple(neg(x) for x in t[1]))
    return ('not', t)


def term(expr: ast.AST, outcome: bool = True, subst: Optional[Dict[str, str]] = None) -> Term:
    t = _term(expr, subst)
    return t if outcome else neg(t)


def _term(e: ast.AST, subst) -> Term:
    if isinstance(e, ast.UnaryOp) and isinstance(e.op, ast.Not):
        return neg(_term(e.operand, subst))
    if isinstance(e, ast.BoolOp):
        parts = tuple(_term(v, subst) for v in e.values)
        return ('and' if isinstance(e.op, ast.And) else 'or', parts)
    if isinstance(e, ast.Compare) and len(e.ops) == 1:
        op = e.ops[0]
        a, b = e.left, e.comparators[0]
        va, vb = value(a, subst), value(b, subst)
        if isinstance(op, ast.In):
            return ('in', va, vb)
        if isinstance(op, ast.NotIn):
            return ('not', ('in', va, vb))
        if isinstance(op, (ast.Is, ast.IsNot)):
            if isinstance(b, ast.Constant) and b.value is None:
                t = ('none', va)
            elif isinstance(a, ast.Constant) and a.value is None:
                t = ('none', vb)
            else:
                x, y = sorted((va, vb))
                t = ('is', x, y)
            return t if isinstance(op, ast.Is) else ('not', t)
        if isinstance(op, (ast.Eq, ast.NotEq)):
            if isinstance(b, ast.Constant) and b.value is None:
                t = ('none', va)
            else:
                x, y = sorted((va, vb))
                t = ('eq', x, y)
            return t if isinstance(op, ast.Eq) else ('not', t)
        sym = {ast.Lt: '<', ast.LtE: '<=', ast.Gt: '>', ast.GtE: '>='}.get(type(op))
        if sym:
            return ('cmp', sym, va, vb)
    if isinstance(e, ast.Call) and isinstance(e.func, ast.Name):
        if e.func.id == 'isinstance' and len(e.args) == 2:
            return ('isinstance', value(e.args[0], subst), norm(e.args[1]))
        if e.func.id == 'bool' and len(e.args) == 1:
            return _term(e.args[0], subst)
        if e.func.id in ('any', 'all'):
            return (e.func.id, value(e, subst))
        if e.func.id == 'hasattr' and len(e.args) == 2:
            return ('hasattr', value(e.args[0], subst), value(e.args[1], subst))
    if isinstance(e, ast.Constant):
        return ('const', bool(e.value))
    return ('truthy', value(e, subst))


def conjuncts(t: Term) -> List[Term]:
    """Flatten a conjunction into its literals (a non-conjunction is a 1-element list)."""
    if t[0] == 'and':
        out: List[Term] = []
        for x in t[1]:
            out.extend(conjuncts(x))
        return out
    return [t]


def disjuncts(t: Term) -> List[Term]:
    if t[0] == 'or':
        out: List[Term] = []
        for x in t[1]:
            out.extend(disjuncts(x))
        return out
    return [t]


def implies_absent(t: Term, x: str) -> bool:
    """Does the (true) term t establish that value x is None/falsy?  (none(x) or not truthy(x))"""
    for c in conjuncts(t):
        if c == ('none', x) or c == ('not', ('truthy', x)):
            return True
    return False


def implies_present(t: Term, x: str, strict_none: bool = False) -> bool:
    """Does t establish that x is not None (strict) / truthy-or-not-None (lenient)?"""
    for c in conjuncts(t):
        if c == ('not', ('none', x)):
            return True
        if not strict_none and c == ('truthy', x):
            return True
    return False


def copy_subst(stmts_before: List[ast.AST]) -> Dict[str, str]:
    """Local copy propagation: `name = <access path>` assignments seen so far."""
    subst: Dict[str, str] = {}
    for st in stmts_before:
        if isinstance(st, ast.Assign) and len(st.targets) == 1 and isinstance(st.targets[0], ast.Name):
            p = access_path(st.value)
            tgt = st.targets[0].id
            if p is not None:
                head = p.split('.', 1)[0].split('[', 1)[0]
                if head in subst:
                    p = subst[head] + p[len(head):]
                if p.split('.', 1)[0] != tgt:
                    subst[tgt] = p
                    continue
            subst.pop(tgt, None)
        elif isinstance(st, (ast.AugAssign, ast.AnnAssign)) and isinstance(st.target, ast.Name):
            subst.pop(st.target.id, None)
    return subst
