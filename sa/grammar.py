"""E2 - pyparsing grammar IR by abstract evaluation of pydbml/definitions/*.py and of
PyDBMLParser._set_syntax.  Nothing is imported: the module-level statements are interpreted over
IR nodes (class G) with the pyparsing 3.3 facts that matter modelled explicitly:

* `a + b`, `a - b` (ErrorStop), `a | b`, `a ^ b`, `e[...]`, `e[0, 1]`, `e[1, ...]`, `e * n`,
  `...` inside a sequence (skip to the next element, results name `_skipped`);
* strings next to an element become case-sensitive literals;
* `e('name')`, `e.set_results_name(...)` and `e.copy()` COPY the element (sequence and
  alternative nodes copy their children recursively, wrappers share their child),
  `set_parse_action` / `add_parse_action` / `leaveWhitespace` MUTATE the receiver in place;
* a parse action that returns a value replaces the tokens and drops inner results names;
* the default whitespace characters are global state, captured by each element when it is created.

Anything outside the modelled subset raises Unrecognised (reported as ANALYSIS-ERROR, never as a
violation).
"""
from __future__ import annotations

import ast
import itertools
from dataclasses import dataclass, field
from typing import Any, Dict, Iterator, List, Optional, Set, Tuple

from .core import Unrecognised, AnchorMissing, norm
from .pyindex import PyIndex, Module

DEFS = 'pydbml.definitions'
ALPHAS = 'ABCDEFGHIJKLMNOPQRSTUVWXYZabcdefghijklmnopqrstuvwxyz'
NUMS = '0123456789'
PP_CONSTS = {
    'alphas': ALPHAS, 'nums': NUMS, 'alphanums': ALPHAS + NUMS, 'hexnums': NUMS + 'ABCDEFabcdef',
    'printables': ''.join(chr(c) for c in range(33, 127)),
    'identchars': None, 'identbodychars': None,
}

PP_ELEMENTS = {   # pyparsing's ready-made expressions (module-level singletons): name -> (kind, attrs)
    'c_style_comment': ('regex', {'pattern': r'/\*(?:[^*]|\*(?!/))*\*\/', 'flags': 0}),
    'dbl_slash_comment': ('regex', {'pattern': r'//(?:\\\n|[^\n])*', 'flags': 0}),
    'cpp_style_comment': ('regex', {'pattern': r'(?:/\*(?:[^*]|\*(?!/))*\*\/)|(?://(?:\\\n|[^\n])*)', 'flags': 0}),
    'java_style_comment': ('regex', {'pattern': r'(?:/\*(?:[^*]|\*(?!/))*\*\/)|(?://(?:\\\n|[^\n])*)', 'flags': 0}),
    'python_style_comment': ('regex', {'pattern': r'#.*', 'flags': 0}),
    'html_comment': ('regex', {'pattern': r'<!--[\s\S]*?-->', 'flags': 0}),
    'rest_of_line': ('regex', {'pattern': r'.*', 'flags': 0}),
    'line_end': ('lineend', {}), 'line_start': ('linestart', {}), 'string_end': ('stringend', {}), 'string_start': ('stringstart', {}),
    'empty': ('empty', {}),
}
PP_ELEMENT_ALIASES = {'cStyleComment': 'c_style_comment', 'dblSlashComment': 'dbl_slash_comment', 'cppStyleComment': 'cpp_style_comment',
                      'javaStyleComment': 'java_style_comment', 'pythonStyleComment': 'python_style_comment', 'htmlComment': 'html_comment',
                      'restOfLine': 'rest_of_line', 'lineEnd': 'line_end', 'lineStart': 'line_start', 'stringEnd': 'string_end',
                      'stringStart': 'string_start'}

SEQ_KINDS = ('and', 'first', 'or', 'each')          # ParseExpression: copy() copies children
TOKEN_KINDS = ('lit', 'word', 'quoted', 'charsnotin', 'lineend', 'stringend', 'linestart', 'stringstart',
               'white', 'wordstart', 'wordend', 'empty', 'regex', 'oneof', 'errorstop', 'nomatch', 'keyword')

_uid = itertools.count(1)


@dataclass
class Action:
    kind: str                    # 'func' | 'lambda' | 'method' | 'internal'
    module: str
    name: str
    node: Optional[ast.AST] = None

    @property
    def key(self) -> str:
        return f'{self.module}:{self.name}'

    def returns_value(self) -> bool:
        """May the action return something other than None (then pyparsing replaces the tokens
        and drops the inner results names)?"""
        if self.kind == 'internal':
            return True
        n = self.node
        if n is None:
            return False
        if isinstance(n, ast.Lambda):
            return not (isinstance(n.body, ast.Constant) and n.body.value is None)
        for x in ast.walk(n):
            if isinstance(x, ast.Return) and x.value is not None and not (
                    isinstance(x.value, ast.Constant) and x.value.value is None):
                return True
        return False

    def tok_param(self) -> Optional[str]:
        n = self.node
        if n is None:
            return None
        args = [a.arg for a in n.args.args]
        if self.kind == 'method' and args:
            args = args[1:]
        return args[-1] if args else None


class G:
    """One grammar IR node."""
    __slots__ = ('kind', 'kids', 'a', 'name', 'list_all', 'actions', 'module', 'line', 'var', 'ws', 'skip_ws', 'uid', 'shares_actions_with')

    def __init__(self, kind: str, kids: Optional[List['G']] = None, a: Optional[Dict[str, Any]] = None,
                 module: str = '', line: int = 0, ws: str = ' \t\r\n'):
        self.kind = kind
        self.kids: List[G] = kids or []
        self.a: Dict[str, Any] = a or {}
        self.name: Optional[str] = None
        self.list_all = False
        self.actions: List[Action] = []
        self.module = module
        self.line = line
        self.var: Optional[str] = None
        self.ws = ws
        self.skip_ws = True
        self.uid = next(_uid)
        self.shares_actions_with: Optional['G'] = None

    # pyparsing copy semantics
    def copy(self) -> 'G':
        g = G(self.kind, None, dict(self.a), self.module, self.line, self.ws)
        g.name, g.list_all = self.name, self.list_all
        g.actions = list(self.actions)
        g.var = self.var
        g.skip_ws = self.skip_ws
        if self.kind in SEQ_KINDS:
            g.kids = [k.copy() for k in self.kids]
        else:
            g.kids = list(self.kids)       # wrappers share their child (Forward with an expr too)
        return g

    @property
    def file(self) -> str:
        return self.module.replace('.', '/') + '.py'

    def label(self) -> str:
        if self.kind == 'lit':
            return ('CaselessLiteral' if self.a.get('caseless') else 'Literal') + f'({self.a["text"]!r})'
        if self.kind == 'keyword':
            return ('CaselessKeyword' if self.a.get('caseless') else 'Keyword') + f'({self.a["text"]!r})'
        if self.kind == 'quoted':
            return f'QuotedString({self.a["quote"]!r})'
        if self.kind == 'word':
            return 'Word(...)'
        s = self.kind
        if self.var:
            s += f'<{self.var}>'
        return s

    def __repr__(self):  # pragma: no cover
        return f'G#{self.uid}:{self.label()}' + (f"('{self.name}')" if self.name else '')


# ----------------------------------------------------------------------------------------------
# abstract values other than G
# ----------------------------------------------------------------------------------------------

@dataclass
class PPRef:            # pyparsing module or an attribute chain below it
    path: Tuple[str, ...] = ()


@dataclass
class FuncRef:
    action: Action


@dataclass
class GMethod:
    recv: G
    name: str


@dataclass
class Opaque:
    what: str


@dataclass
class SelfRef:
    pass


@dataclass
class ConfigFlag:
    attr: str
    negated: bool = False


class _ReturnValue(Exception):
    def __init__(self, value):
        super().__init__('return')
        self.value = value


class GrammarEval:
    """Abstract interpreter for the definition modules."""

    def __init__(self, idx: PyIndex):
        self.idx = idx
        self.envs: Dict[str, Dict[str, Any]] = {}
        self.default_ws = ' \t\r\n'
        self.ws_sets: List[Tuple[str, int, str]] = []     # (module, line, chars) of every set_default_whitespace_chars
        self.order: List[str] = []
        self.created: List[G] = []
        self._in_progress: Set[str] = set()
        self._pp_elements: Dict[str, G] = {}

    # ------------------------------------------------------------------ nodes
    def mk(self, kind: str, kids=None, a=None, node: Optional[ast.AST] = None, module: str = '') -> G:
        g = G(kind, kids, a, module, getattr(node, 'lineno', 0), self.default_ws)
        self.created.append(g)
        return g

    def lit(self, text: str, node, module, caseless=False) -> G:
        return self.mk('lit', None, {'text': text, 'caseless': caseless}, node, module)

    def as_g(self, v: Any, node, module) -> G:
        if isinstance(v, G):
            return v
        if isinstance(v, str):
            return self.lit(v, node, module)
        raise Unrecognised(f'expected a parser element, got {type(v).__name__} in `{norm(node)}`', node)

    # ------------------------------------------------------------------ modules
    def module_env(self, modname: str) -> Dict[str, Any]:
        if modname in self.envs:
            return self.envs[modname]
        if modname in self._in_progress:
            raise Unrecognised(f'circular import of {modname} among the definition modules')
        mod = self.idx.modules.get(modname)
        if mod is None:
            raise AnchorMissing(f'definition module {modname}')
        self._in_progress.add(modname)
        env: Dict[str, Any] = {}
        self.envs[modname] = env
        for st in mod.tree.body:
            self.exec_stmt(st, env, mod)
        self._in_progress.discard(modname)
        self.order.append(modname)
        return env

    def is_def_module(self, modname: str) -> bool:
        return modname.startswith(DEFS + '.') and modname in self.idx.modules

    def exec_stmt(self, st: ast.stmt, env: Dict[str, Any], mod: Module, self_cfg: Optional[Dict[str, bool]] = None):
        m = mod.name
        if isinstance(st, ast.Import):
            for a in st.names:
                bound = a.asname or a.name.split('.')[0]
                env[bound] = PPRef(()) if a.name == 'pyparsing' else Opaque(f'module {a.name}')
            return
        if isinstance(st, ast.ImportFrom):
            tm = self.idx._abs_module(mod, st.level, st.module)
            for a in st.names:
                bound = a.asname or a.name
                if tm == 'pyparsing':
                    env[bound] = PPRef((a.name,))
                elif self.is_def_module(tm):
                    tenv = self.module_env(tm)
                    if a.name not in tenv:
                        raise AnchorMissing(f'{tm}.{a.name} imported by {m}')
                    env[bound] = tenv[a.name]
                elif tm == DEFS and self.is_def_module(f'{DEFS}.{a.name}'):
                    self.module_env(f'{DEFS}.{a.name}')
                    env[bound] = Opaque(f'module {DEFS}.{a.name}')
                else:
                    env[bound] = Opaque(f'{tm}.{a.name}')
            return
        if isinstance(st, ast.FunctionDef):
            node = st
            fi0 = self.idx.funcs.get(f'{m}:{st.name}')
            if fi0 is not None and fi0.node is st:
                # a parse action is read with the small value helpers it calls (functions that reduce to one expression) in place
                from .inline import inline_fragments, inlined_info
                try:
                    params_ = [a_.arg for a_ in st.args.args]
                    if len(params_) == 3 or (params_ and params_[-1] in ('tok', 'toks', 'tokens', 't')):
                        # a parse action: helper procedures it calls (`attach_comment(init_dict, tok)`) are read in place as well
                        full = inlined_info(self.idx, fi0, depth=2)
                        node = full.node if getattr(full.node, '_inlined_any', False) else inline_fragments(self.idx, fi0).node
                    else:
                        node = inline_fragments(self.idx, fi0).node
                except RecursionError:      # pragma: no cover
                    node = st
            env[st.name] = FuncRef(Action('func', m, st.name, node))
            return
        if isinstance(st, ast.ClassDef):
            env[st.name] = Opaque(f'class {st.name}')
            return
        if isinstance(st, ast.Assign):
            v = self.ev(st.value, env, mod, self_cfg)
            for t in st.targets:
                self.bind(t, v, env, mod, st)
            return
        if isinstance(st, ast.AnnAssign):
            if st.value is not None:
                self.bind(st.target, self.ev(st.value, env, mod, self_cfg), env, mod, st)
            return
        if isinstance(st, ast.AugAssign):
            if isinstance(st.target, ast.Name) and isinstance(st.op, (ast.Add, ast.BitOr, ast.BitXor, ast.BitAnd, ast.Sub, ast.LShift)):
                cur = env.get(st.target.id)
                rhs = self.ev(st.value, env, mod, self_cfg)
                if isinstance(st.op, ast.LShift):
                    self.forward_assign(cur, rhs, st, m)
                    return
                fake = ast.BinOp(left=st.target, op=st.op, right=st.value)
                ast.copy_location(fake, st)
                # pyparsing: And.__iadd__, MatchFirst.__ior__, Or.__ixor__, Each.__iand__ append to the receiver IN PLACE
                inplace = {ast.Add: 'and', ast.BitOr: 'first', ast.BitXor: 'or', ast.BitAnd: 'each'}.get(type(st.op))
                if isinstance(cur, G) and inplace is not None and cur.kind == inplace:
                    cur.kids.append(self.as_g(rhs, st, m))
                    return
                v = self.binop(cur, st.op, rhs, fake, m)
                env[st.target.id] = v
                return
            raise Unrecognised(f'augmented assignment `{norm(st)}`', st)
        if isinstance(st, ast.Expr):
            if isinstance(st.value, ast.Constant):
                return
            self.ev(st.value, env, mod, self_cfg)
            return
        if isinstance(st, ast.If):
            t = st.test
            if norm(t) in ('TYPE_CHECKING', 'typing.TYPE_CHECKING'):
                return
            flag = self.ev(t, env, mod, self_cfg) if (self_cfg is not None or env.get('$in_function')) else None
            if env.get('$in_function') and not isinstance(flag, bool) and (flag is None or isinstance(flag, (str, int, tuple, list))) and not isinstance(flag, Opaque):
                flag = bool(flag)         # truth value of a concrete argument (a name given or not, an empty tuple)
            if isinstance(flag, bool):
                for s in (st.body if flag else st.orelse):
                    self.exec_stmt(s, env, mod, self_cfg)
                return
            raise Unrecognised(f'conditional grammar construction `if {norm(t)}`', st)
        if isinstance(st, ast.Pass):
            return
        if isinstance(st, ast.Return) and env.get('$in_function'):
            raise _ReturnValue(self.ev(st.value, env, mod, self_cfg) if st.value is not None else None)
        if isinstance(st, ast.For) and not st.orelse:
            seq = self.ev(st.iter, env, mod, self_cfg)
            if isinstance(seq, dict):
                seq = list(seq)
            if not isinstance(seq, (tuple, list)):
                raise Unrecognised(f'loop over `{norm(st.iter)[:50]}` (not a literal sequence) in a grammar definition', st)
            if any(isinstance(x, (ast.Break, ast.Continue)) for b in st.body for x in ast.walk(b)) or \
                    (not env.get('$in_function') and any(isinstance(x, ast.Return) for b in st.body for x in ast.walk(b))):
                raise Unrecognised('loop with break/continue/return in a grammar definition', st)
            for item in list(seq):
                self.bind(st.target, item, env, mod, st)
                for b in st.body:
                    self.exec_stmt(b, env, mod, self_cfg)
            return
        raise Unrecognised(f'statement `{norm(st)[:60]}` in a grammar definition', st)

    def bind(self, tgt: ast.AST, v: Any, env, mod: Module, st):
        if isinstance(tgt, ast.Name):
            env[tgt.id] = v
            if isinstance(v, G) and v.var is None:
                v.var = tgt.id
            return
        if isinstance(tgt, ast.Attribute) and isinstance(tgt.value, ast.Name) and isinstance(env.get(tgt.value.id), SelfRef):
            env.setdefault('$self', {})[tgt.attr] = v
            if isinstance(v, G) and v.var is None:
                v.var = 'self.' + tgt.attr
            return
        if isinstance(tgt, (ast.Tuple, ast.List)) and isinstance(v, (tuple, list)) and len(v) == len(tgt.elts):
            for t, x in zip(tgt.elts, v):
                self.bind(t, x, env, mod, st)
            return
        if isinstance(tgt, ast.Subscript):
            # store into a concrete list / dict the evaluator holds (a table of elements patched in place)
            box = self.ev(tgt.value, env, mod, None)
            key = self.ev(tgt.slice, env, mod, None)
            if isinstance(box, (list, dict)) and isinstance(key, (int, str)) and not isinstance(key, bool):
                try:
                    box[key] = v
                    return
                except (IndexError, KeyError):
                    pass
        raise Unrecognised(f'assignment target `{norm(tgt)}`', st)

    # ------------------------------------------------------------------ expressions
    def ev(self, e: ast.AST, env, mod: Module, cfg=None) -> Any:
        m = mod.name
        if isinstance(e, ast.Constant):
            return e.value
        if isinstance(e, ast.Name):
            if e.id in env:
                return env[e.id]
            if e.id in ('True', 'False', 'None'):
                return {'True': True, 'False': False, 'None': None}[e.id]
            return Opaque(f'builtin {e.id}')
        if isinstance(e, ast.Attribute):
            base = self.ev(e.value, env, mod, cfg)
            if isinstance(base, PPRef):
                if not base.path and e.attr in PP_CONSTS and PP_CONSTS[e.attr] is not None:
                    return PP_CONSTS[e.attr]
                ename = PP_ELEMENT_ALIASES.get(e.attr, e.attr)
                if not base.path and ename in PP_ELEMENTS:
                    if ename not in self._pp_elements:
                        kind, attrs = PP_ELEMENTS[ename]
                        g = G(kind, None, dict(attrs), 'pyparsing', 0, ' \t\r\n')
                        g.var = 'pp.' + ename
                        if ename == 'rest_of_line':
                            g.skip_ws = False
                        self._pp_elements[ename] = g
                    return self._pp_elements[ename]
                if base.path in (('common',), ('pyparsing_common',)) and e.attr == 'identifier':
                    # pyparsing_common.identifier = Word(identchars, identbodychars): Latin-1 identifier characters, no digit in first position
                    if 'common.identifier' not in self._pp_elements:
                        init = frozenset(chr(i) for i in range(256) if chr(i).isidentifier())
                        body = frozenset(chr(i) for i in range(256) if ('a' + chr(i)).isidentifier())
                        g = G('word', None, {'init': init, 'body': body, 'min': 1, 'max': None, 'as_keyword': False}, 'pyparsing', 0, ' \t\r\n')
                        g.var = 'pp.common.identifier'
                        self._pp_elements['common.identifier'] = g
                    return self._pp_elements['common.identifier']
                return PPRef(base.path + (e.attr,))
            if isinstance(base, G) and e.attr == 'exprs' and base.kind in SEQ_KINDS:
                return list(base.kids)           # ParseExpression.exprs: the very child elements (mutating one mutates the expression)
            if isinstance(base, G) and e.attr == 'expr' and base.kids and base.kind not in SEQ_KINDS:
                return base.kids[0]              # ParseElementEnhance.expr
            if isinstance(base, G):
                return GMethod(base, e.attr)
            if isinstance(base, SelfRef):
                if cfg is not None and e.attr in cfg:
                    return cfg[e.attr]
                selfattrs = env.get('$self', {})
                if e.attr in selfattrs:
                    return selfattrs[e.attr]
                return Opaque(f'self.{e.attr}')
            if isinstance(base, dict) and e.attr in ('items', 'keys', 'values'):
                return ('dictmethod', base, e.attr)
            if isinstance(base, str):
                return ('strmethod', base, e.attr)
            if isinstance(base, list) and e.attr in ('append', 'extend', 'insert'):
                return ('listmethod', base, e.attr)
            return Opaque(f'{norm(e)}')
        if isinstance(e, ast.BinOp):
            l = self.ev(e.left, env, mod, cfg)
            r = self.ev(e.right, env, mod, cfg)
            if isinstance(e.op, ast.LShift):
                return self.forward_assign(l, r, e, m)
            return self.binop(l, e.op, r, e, m)
        if isinstance(e, ast.UnaryOp) and isinstance(e.op, ast.Not):
            v = self.ev(e.operand, env, mod, cfg)
            if isinstance(v, bool):
                return not v
            raise Unrecognised(f'`{norm(e)}`', e)
        if isinstance(e, ast.UnaryOp) and isinstance(e.op, ast.Invert):
            v = self.ev(e.operand, env, mod, cfg)
            if isinstance(v, G):
                return self.mk('notany', [v], None, e, m)
            raise Unrecognised(f'`{norm(e)}`', e)
        if isinstance(e, ast.Subscript):
            base = self.ev(e.value, env, mod, cfg)
            if isinstance(base, G):
                return self.repeat(base, e.slice, env, mod, cfg, e)
            if isinstance(base, (list, tuple)):
                # indexing / slicing a list of grammar elements with constant bounds
                def const(x):
                    if x is None:
                        return None
                    if isinstance(x, ast.Constant) and isinstance(x.value, int):
                        return x.value
                    if isinstance(x, ast.UnaryOp) and isinstance(x.op, ast.USub) and isinstance(x.operand, ast.Constant) and isinstance(x.operand.value, int):
                        return -x.operand.value
                    raise Unrecognised(f'subscript `{norm(e)}`', e)
                sl = e.slice
                try:
                    if isinstance(sl, ast.Slice):
                        return base[const(sl.lower):const(sl.upper):const(sl.step)]
                    return base[const(sl)]
                except IndexError:
                    raise Unrecognised(f'subscript `{norm(e)}` out of range', e)
            raise Unrecognised(f'subscript `{norm(e)}`', e)
        if isinstance(e, ast.Call):
            return self.call(e, env, mod, cfg)
        if isinstance(e, ast.Lambda):
            return FuncRef(Action('lambda', m, f'<lambda>@{norm(e)[:80]}', e))
        if isinstance(e, ast.IfExp):
            t = self.ev(e.test, env, mod, cfg)
            if isinstance(t, bool):
                return self.ev(e.body if t else e.orelse, env, mod, cfg)
            raise Unrecognised(f'conditional expression on `{norm(e.test)}`', e)
        if isinstance(e, (ast.Tuple, ast.List)):
            items: List[Any] = []
            for x in e.elts:
                if isinstance(x, ast.Starred):
                    v = self.ev(x.value, env, mod, cfg)
                    if isinstance(v, dict):
                        v = list(v)
                    if not isinstance(v, (tuple, list)):
                        raise Unrecognised(f'`*{norm(x.value)[:40]}` is not a literal sequence', e)
                    items.extend(v)
                else:
                    items.append(self.ev(x, env, mod, cfg))
            return tuple(items) if isinstance(e, ast.Tuple) else items
        if isinstance(e, (ast.ListComp, ast.GeneratorExp)) and len(e.generators) == 1 and not e.generators[0].is_async:
            g = e.generators[0]
            seq = self.ev(g.iter, env, mod, cfg)
            if isinstance(seq, dict):
                seq = list(seq)
            if not isinstance(seq, (tuple, list)):
                raise Unrecognised(f'comprehension over `{norm(g.iter)[:50]}` (not a literal sequence)', e)
            out = []
            for item in list(seq):
                env2 = dict(env)
                self.bind(g.target, item, env2, mod, e)
                keep = True
                for cond in g.ifs:
                    v = self.ev(cond, env2, mod, cfg)
                    if not isinstance(v, bool):
                        raise Unrecognised(f'comprehension filter `{norm(cond)[:50]}`', e)
                    keep = keep and v
                if keep:
                    out.append(self.ev(e.elt, env2, mod, cfg))
            return out if isinstance(e, ast.ListComp) else tuple(out)
        if isinstance(e, ast.Dict):
            if e.keys and all(isinstance(k_, ast.Constant) for k_ in e.keys):
                try:
                    return {k_.value: self.ev(v_, env, mod, cfg) for k_, v_ in zip(e.keys, e.values)}
                except Unrecognised:
                    return Opaque('dict')
            return Opaque('dict')
        if isinstance(e, ast.JoinedStr):
            return Opaque('fstring')
        if isinstance(e, ast.Compare) and len(e.ops) == 1:
            # comparisons between concrete values (a parameter that is None or a string, a number): decided; anything else stays unknown
            a = self.ev(e.left, env, mod, cfg)
            b = self.ev(e.comparators[0], env, mod, cfg)
            concrete = (type(None), str, int, bool, float, tuple)
            if isinstance(a, concrete) and isinstance(b, concrete) and not isinstance(a, Opaque) and not isinstance(b, Opaque):
                op = e.ops[0]
                try:
                    if isinstance(op, ast.Is):
                        return a is b if (a is None or b is None or isinstance(a, bool) or isinstance(b, bool)) else Opaque('is')
                    if isinstance(op, ast.IsNot):
                        return a is not b if (a is None or b is None or isinstance(a, bool) or isinstance(b, bool)) else Opaque('is not')
                    if isinstance(op, ast.Eq):
                        return a == b
                    if isinstance(op, ast.NotEq):
                        return a != b
                    if isinstance(op, ast.In) and isinstance(b, (tuple, str)):
                        return a in b
                    if isinstance(op, ast.NotIn) and isinstance(b, (tuple, str)):
                        return a not in b
                except TypeError:
                    pass
            if (a is None and isinstance(b, G)) or (b is None and isinstance(a, G)):
                if isinstance(e.ops[0], ast.Is):
                    return False
                if isinstance(e.ops[0], ast.IsNot):
                    return True
            return Opaque(f'comparison {norm(e)[:40]}')
        if isinstance(e, ast.UnaryOp) and isinstance(e.op, ast.Not):
            v = self.ev(e.operand, env, mod, cfg)
            if isinstance(v, (bool, type(None), str, int, tuple, list)) and not isinstance(v, Opaque):
                return not v
            return Opaque('not')
        raise Unrecognised(f'expression `{norm(e)[:80]}`', e)

    def binop(self, l: Any, op: ast.operator, r: Any, node: ast.AST, m: str) -> Any:
        if isinstance(l, str) and isinstance(r, str) and isinstance(op, ast.Add):
            return l + r
        if isinstance(op, ast.Mult):
            if isinstance(l, G) and isinstance(r, int) and not isinstance(r, bool):
                return self.times(l, r, r, node, m)
            if isinstance(r, G) and isinstance(l, int) and not isinstance(l, bool):
                return self.times(r, l, l, node, m)
            if isinstance(l, G) and isinstance(r, tuple) and len(r) == 2:
                return self.times(l, r[0] or 0, r[1], node, m)
            if isinstance(l, str) and isinstance(r, int):
                return l * r
            raise Unrecognised(f'`{norm(node)}`', node)
        if not (isinstance(l, G) or isinstance(r, G) or l is Ellipsis or r is Ellipsis):
            raise Unrecognised(f'operator between non-grammar values in `{norm(node)}`', node)
        if isinstance(op, (ast.Add, ast.Sub)):
            # `...` handling
            if r is Ellipsis:
                lg = self.as_g(l, node, m)
                return self.mk('pendingskip', [lg], None, node, m)
            if isinstance(l, G) and l.kind == 'pendingskip':
                rg = self.as_g(r, node, m)
                skip = self.mk('skipto', [rg], {'include': False}, node, m)
                skip = skip.copy()
                skip.name, skip.list_all = '_skipped', True
                return self.mk('and', [l.kids[0], skip, rg], None, node, m)
            if l is Ellipsis:
                rg = self.as_g(r, node, m)
                skip = self.mk('skipto', [rg], {'include': False}, node, m)
                skip.name, skip.list_all = '_skipped', True
                return self.mk('and', [skip, rg], None, node, m)
            lg, rg = self.as_g(l, node, m), self.as_g(r, node, m)
            if isinstance(op, ast.Add):
                return self.mk('and', [lg, rg], None, node, m)
            es = self.mk('errorstop', None, None, node, m)
            return self.mk('and', [lg, es, rg], None, node, m)
        if isinstance(op, ast.BitOr):
            return self.mk('first', [self.as_g(l, node, m), self.as_g(r, node, m)], None, node, m)
        if isinstance(op, ast.BitXor):
            return self.mk('or', [self.as_g(l, node, m), self.as_g(r, node, m)], None, node, m)
        if isinstance(op, ast.BitAnd):
            return self.mk('each', [self.as_g(l, node, m), self.as_g(r, node, m)], None, node, m)
        raise Unrecognised(f'operator in `{norm(node)}`', node)

    def forward_assign(self, l: Any, r: Any, node, m: str) -> Any:
        if isinstance(l, G) and l.kind == 'forward':
            l.kids = [self.as_g(r, node, m)]
            return l
        raise Unrecognised(f'`<<` on something that is not a Forward: `{norm(node)}`', node)

    def times(self, g: G, lo: int, hi: Optional[int], node, m: str) -> G:
        if hi is Ellipsis:
            hi = None
        return self.mk('repeat', [g], {'min': lo, 'max': hi, 'form': 'times'}, node, m)

    def repeat(self, base: G, sl: ast.AST, env, mod, cfg, node) -> G:
        m = mod.name
        v = self.ev(sl, env, mod, cfg)
        if v is Ellipsis:
            lo, hi = 0, None
        elif isinstance(v, int):
            lo, hi = v, v
        elif isinstance(v, tuple) and len(v) == 2:
            lo, hi = v
            lo = 0 if lo is Ellipsis or lo is None else lo
            hi = None if hi is Ellipsis or hi is None else hi
        elif isinstance(v, tuple) and len(v) == 1:
            lo, hi = v[0], None
        else:
            raise Unrecognised(f'repetition bounds `{norm(sl)}`', node)
        if not isinstance(lo, int) or not (hi is None or isinstance(hi, int)):
            raise Unrecognised(f'repetition bounds `{norm(sl)}`', node)
        form = 'multi' if hi is None else ('opt' if (lo, hi) == (0, 1) else 'times')
        return self.mk('repeat', [base], {'min': lo, 'max': hi, 'form': form}, node, m)

    # ------------------------------------------------------------------ calls
    def kw(self, call: ast.Call, env, mod, cfg, names: List[str], aliases: Optional[Dict[str, str]] = None) -> Dict[str, Any]:
        """Bind positional and keyword arguments to parameter names (aliases map camelCase names)."""
        out: Dict[str, Any] = {}
        for i, a in enumerate(call.args):
            if isinstance(a, ast.Starred) or i >= len(names):
                raise Unrecognised(f'arguments of `{norm(call)[:80]}`', call)
            out[names[i]] = self.ev(a, env, mod, cfg)
        for k in call.keywords:
            if k.arg is None:
                raise Unrecognised(f'**kwargs in `{norm(call)[:80]}`', call)
            key = (aliases or {}).get(k.arg, k.arg)
            out[key] = self.ev(k.value, env, mod, cfg)
        return out

    def call(self, e: ast.Call, env, mod: Module, cfg) -> Any:
        m = mod.name
        f = self.ev(e.func, env, mod, cfg)
        if isinstance(f, G):                       # e('name')
            kw = self.kw(e, env, mod, cfg, ['name', 'list_all_matches'], {'listAllMatches': 'list_all_matches'})
            if 'name' not in kw:
                return f.copy()
            return self.set_name(f, kw['name'], bool(kw.get('list_all_matches', False)), e)
        if isinstance(f, tuple) and len(f) == 3 and f[0] == 'listmethod':
            _, lst, meth = f
            args = [self.ev(a, env, mod, cfg) for a in e.args]
            if meth == 'append' and len(args) == 1:
                lst.append(args[0])
            elif meth == 'extend' and len(args) == 1 and isinstance(args[0], (list, tuple)):
                lst.extend(args[0])
            elif meth == 'insert' and len(args) == 2 and isinstance(args[0], int):
                lst.insert(args[0], args[1])
            else:
                raise Unrecognised(f'list operation `{norm(e)[:60]}`', e)
            return None
        if isinstance(f, tuple) and len(f) == 3 and f[0] == 'dictmethod':
            _, dv, meth = f
            return {'items': lambda: [(k_, v_) for k_, v_ in dv.items()], 'keys': lambda: list(dv), 'values': lambda: list(dv.values())}[meth]()
        if isinstance(f, GMethod):
            return self.method(f.recv, f.name, e, env, mod, cfg)
        if isinstance(f, PPRef):
            return self.pp_call(f.path, e, env, mod, cfg)
        fname_ = norm(e.func).split('.')[-1]
        if isinstance(f, Opaque) and fname_ in ('map', 'list', 'tuple', 'reduce', 'iter') and not e.keywords and e.args and not any(isinstance(a, ast.Starred) for a in e.args):
            # a few builtins over concrete sequences of grammar values: map(f, seq), list/tuple(seq), functools.reduce(operator.or_/add/xor, seq)
            if fname_ in ('list', 'tuple', 'iter') and len(e.args) == 1:
                v = self.ev(e.args[0], env, mod, cfg)
                if isinstance(v, dict):
                    v = list(v)
                if isinstance(v, (tuple, list)):
                    return list(v) if fname_ != 'tuple' else tuple(v)
            if fname_ == 'map' and len(e.args) == 2:
                seq = self.ev(e.args[1], env, mod, cfg)
                if isinstance(seq, dict):
                    seq = list(seq)
                if isinstance(seq, (tuple, list)):
                    out_ = []
                    for item in seq:
                        env2 = dict(env)
                        env2['$maparg'] = item
                        call_ = ast.Call(func=e.args[0], args=[ast.Name(id='$maparg', ctx=ast.Load())], keywords=[])
                        ast.copy_location(call_, e)
                        ast.fix_missing_locations(call_)
                        out_.append(self.ev(call_, env2, mod, cfg))
                    return out_
            if fname_ == 'reduce' and len(e.args) in (2, 3):
                opn = norm(e.args[0]).split('.')[-1]
                op_ = {'or_': ast.BitOr(), 'add': ast.Add(), 'xor': ast.BitXor(), 'and_': ast.BitAnd(), 'concat': ast.Add()}.get(opn)
                seq = self.ev(e.args[1], env, mod, cfg)
                if op_ is not None and isinstance(seq, (tuple, list)) and (seq or len(e.args) == 3):
                    seq = list(seq)
                    acc = self.ev(e.args[2], env, mod, cfg) if len(e.args) == 3 else seq.pop(0)
                    for item in seq:
                        fake = ast.BinOp(left=e.args[1], op=op_, right=e.args[1])
                        ast.copy_location(fake, e)
                        acc = self.binop(acc, op_, item, fake, m)
                    return acc
        if isinstance(f, Opaque) and f.what in ('copy.copy', 'copy.deepcopy') and len(e.args) >= 1:
            # the standard library's copy() of a parser element is SHALLOW: the copy keeps the very list of parse actions of the original, so
            # add_parse_action on the copy (an in-place extension of that list) also lands on the original.  pyparsing's own .copy() gives the copy
            # a list of its own; deepcopy copies everything.
            src = self.ev(e.args[0], env, mod, cfg)
            if isinstance(src, G):
                c = src.copy()
                self.created.append(c)
                if f.what == 'copy.copy':
                    c.shares_actions_with = src
                return c
            return Opaque(f'call {f.what}')
        if isinstance(f, Opaque):
            for a in e.args:
                self.ev(a, env, mod, cfg) if not isinstance(a, ast.Starred) else None
            return Opaque(f'call {f.what}')
        if isinstance(f, tuple) and len(f) == 3 and f[0] == 'strmethod':
            _, sval, meth = f
            args = [self.ev(a, env, mod, cfg) for a in e.args]
            if meth in ('split', 'rsplit', 'lower', 'upper', 'strip', 'lstrip', 'rstrip', 'title', 'capitalize', 'replace', 'join', 'format', 'startswith', 'endswith') \
                    and not e.keywords and all(isinstance(a, (str, int)) or (isinstance(a, (list, tuple)) and all(isinstance(x, str) for x in a)) for a in args):
                try:
                    return getattr(sval, meth)(*args)
                except Exception:
                    raise Unrecognised(f'string operation `{norm(e)[:60]}`', e)
            return Opaque(f'str.{meth}(...)')
        if isinstance(f, FuncRef):
            return self.call_function(f, e, env, mod, cfg)
        raise Unrecognised(f'call `{norm(e)[:80]}`', e)

    def call_function(self, f: 'FuncRef', e: ast.Call, env, mod: Module, cfg) -> Any:
        """A grammar-building helper defined in a definition module: its body is evaluated with the arguments bound (straight-line code, loops over
        literal sequences, comprehensions, one return value)."""
        fn = f.action.node
        if not isinstance(fn, ast.FunctionDef) or fn.args.kwarg:
            raise Unrecognised(f'grammar built by calling `{norm(e.func)}`, which this evaluator cannot follow', e)
        self._call_depth = getattr(self, '_call_depth', 0) + 1
        try:
            if self._call_depth > 6:
                raise Unrecognised(f'recursive grammar helper `{norm(e.func)}`', e)
            fmod = self.idx.modules.get(f.action.module, mod)
            fenv: Dict[str, Any] = dict(self.envs.get(f.action.module, {}))
            fenv['$in_function'] = True
            params = [a.arg for a in fn.args.args]
            defaults = dict(zip(params[len(params) - len(fn.args.defaults):], fn.args.defaults))
            # f(*TUPLE): the starred argument is evaluated and spliced in when it is a concrete sequence
            pos_vals: List[Any] = []
            star_ok = True
            for a in e.args:
                if isinstance(a, ast.Starred):
                    sv = self.ev(a.value, env, mod, cfg)
                    if isinstance(sv, (tuple, list)):
                        pos_vals.extend(sv)
                    else:
                        star_ok = False
                else:
                    pos_vals.append(('$lazy', a))
            if not star_ok or any(k.arg is None for k in e.keywords) or (len(pos_vals) > len(params) and not fn.args.vararg):
                raise Unrecognised(f'call `{norm(e)[:60]}` with star-arguments', e)
            bound = {}
            if f.action.kind == 'method' and isinstance(e.func, ast.Attribute) and params:
                # a method of the parser called on `self`: the receiver is the first parameter, its attributes stay visible
                decs = [norm(d) for d in fn.decorator_list]
                if 'staticmethod' not in decs:
                    bound[params[0]] = self.ev(e.func.value, env, mod, cfg)
                    params = params[1:]
                fenv['$self'] = env.get('$self', {})
            def val_of(pv):
                return self.ev(pv[1], env, mod, cfg) if isinstance(pv, tuple) and len(pv) == 2 and pv[0] == '$lazy' else pv
            for p_, pv in zip(params, pos_vals):
                bound[p_] = val_of(pv)
            if fn.args.vararg:
                # def helper(*elements): the surplus positional arguments, as a tuple
                bound[fn.args.vararg.arg] = tuple(val_of(pv) for pv in pos_vals[len(params):])
            for k in e.keywords:
                bound[k.arg] = self.ev(k.value, env, mod, cfg)
            # keyword-only parameters (after *args): given by keyword or defaulted
            for a_, d_ in zip(fn.args.kwonlyargs, fn.args.kw_defaults):
                if a_.arg not in bound:
                    if d_ is None:
                        raise Unrecognised(f'call `{norm(e)[:60]}` leaves keyword-only parameter {a_.arg} unbound', e)
                    bound[a_.arg] = self.ev(d_, fenv, fmod, cfg)
            for p_ in params:
                if p_ not in bound:
                    if p_ not in defaults:
                        raise Unrecognised(f'call `{norm(e)[:60]}` leaves parameter {p_} unbound', e)
                    bound[p_] = self.ev(defaults[p_], fenv, fmod, cfg)
            fenv.update(bound)
            try:
                for st in fn.body:
                    self.exec_stmt(st, fenv, fmod, cfg)
            except _ReturnValue as r:
                return r.value
            return None
        finally:
            self._call_depth -= 1

    def set_name(self, g: G, name: Any, list_all: bool, node) -> G:
        if not isinstance(name, str):
            raise Unrecognised('results name is not a string literal', node)
        c = g.copy()
        self.created.append(c)
        if name.endswith('*'):
            name, list_all = name[:-1], True
        c.name, c.list_all = name, list_all
        c.line = getattr(node, 'lineno', c.line)
        return c

    def to_action(self, v: Any, node, m) -> Action:
        if isinstance(v, FuncRef):
            return v.action
        if isinstance(v, Action):
            return v
        raise Unrecognised(f'parse action is not a function/lambda/method: `{norm(node)[:60]}`', node)

    def method(self, g: G, name: str, e: ast.Call, env, mod, cfg) -> Any:
        m = mod.name
        if name in ('set_parse_action', 'setParseAction', 'add_parse_action', 'addParseAction'):
            acts = [self.to_action(self.ev(a, env, mod, cfg), a, m) for a in e.args]
            if name in ('set_parse_action', 'setParseAction'):
                g.actions = acts
                g.shares_actions_with = None
            else:
                g.actions = g.actions + acts
                orig = getattr(g, 'shares_actions_with', None)
                if orig is not None:
                    orig.actions = orig.actions + acts
            return g
        if name in ('set_results_name', 'setResultsName'):
            kw = self.kw(e, env, mod, cfg, ['name', 'list_all_matches'], {'listAllMatches': 'list_all_matches'})
            return self.set_name(g, kw.get('name'), bool(kw.get('list_all_matches', False)), e)
        if name == 'copy':
            c = g.copy()
            self.created.append(c)
            return c
        if name == 'suppress':
            return self.mk('suppress', [g], None, e, m)
        if name in ('leaveWhitespace', 'leave_whitespace'):
            self.leave_ws(g)
            return g
        if name in ('set_name', 'setName', 'set_debug', 'setDebug', 'streamline', 'ignore_whitespace', 'ignoreWhitespace'):
            if name in ('ignore_whitespace', 'ignoreWhitespace'):
                raise Unrecognised(f'`{name}` is not modelled', e)
            return g
        if name in ('set_whitespace_chars', 'setWhitespaceChars'):
            kw = self.kw(e, env, mod, cfg, ['chars', 'copy_defaults'])
            if isinstance(kw.get('chars'), str):
                g.ws = kw['chars']
                return g
        if name == 'ignore':
            other = self.as_g(self.ev(e.args[0], env, mod, cfg), e, m)
            g.a.setdefault('ignore', []).append(other)
            return g
        raise Unrecognised(f'ParserElement method `{name}` is not modelled', e)

    def leave_ws(self, g: G, seen=None):
        seen = seen or set()
        if g.uid in seen:
            return
        seen.add(g.uid)
        g.skip_ws = False
        if g.kind in SEQ_KINDS:
            g.kids = [k.copy() for k in g.kids]
        for k in g.kids:
            self.leave_ws(k, seen)

    def pp_call(self, path: Tuple[str, ...], e: ast.Call, env, mod: Module, cfg) -> Any:
        m = mod.name
        name = path[-1] if path else ''
        if path[:1] == ('ParserElement',):
            if name in ('set_default_whitespace_chars', 'setDefaultWhitespaceChars'):
                kw = self.kw(e, env, mod, cfg, ['chars'])
                if not isinstance(kw.get('chars'), str):
                    raise Unrecognised('default whitespace characters are not a string literal', e)
                self.default_ws = kw['chars']
                self.ws_sets.append((m, e.lineno, kw['chars']))
                return None
            if name in ('enable_packrat', 'enablePackrat', 'enable_left_recursion', 'enableLeftRecursion'):
                self.ws_sets.append((m, e.lineno, f'!{name}'))
                return None
            raise Unrecognised(f'pyparsing.ParserElement.{name} is not modelled', e)
        if len(path) != 1:
            raise Unrecognised(f'pyparsing.{".".join(path)} is not modelled', e)
        k = lambda names, aliases=None: self.kw(e, env, mod, cfg, names, aliases)  # noqa: E731
        if name in ('Literal', 'CaselessLiteral'):
            kw = k(['match_string'], {'matchString': 'match_string'})
            return self.req_str_lit(kw.get('match_string'), e, m, caseless=(name == 'CaselessLiteral'))
        if name in ('Keyword', 'CaselessKeyword'):
            kw = k(['match_string', 'ident_chars', 'caseless'], {'matchString': 'match_string', 'identChars': 'ident_chars'})
            if not isinstance(kw.get('match_string'), str):
                raise Unrecognised('keyword text is not a string literal', e)
            return self.mk('keyword', None, {'text': kw['match_string'],
                                             'caseless': name == 'CaselessKeyword' or bool(kw.get('caseless', False)),
                                             'ident_chars': kw.get('ident_chars')}, e, m)
        if name == 'Word':
            kw = k(['init_chars', 'body_chars', 'min', 'max', 'exact', 'as_keyword', 'exclude_chars'],
                   {'initChars': 'init_chars', 'bodyChars': 'body_chars', 'asKeyword': 'as_keyword', 'excludeChars': 'exclude_chars'})
            init = kw.get('init_chars')
            if not isinstance(init, str):
                raise Unrecognised('Word() character set is not computable', e)
            body = kw.get('body_chars')
            if body is not None and not isinstance(body, str):
                raise Unrecognised('Word() body character set is not computable', e)
            excl = kw.get('exclude_chars') or ''
            lo, hi, ex = kw.get('min', 1), kw.get('max', 0), kw.get('exact', 0)
            if ex:
                lo, hi = ex, ex
            return self.mk('word', None, {'init': frozenset(c for c in init if c not in excl),
                                          'body': frozenset(c for c in (body if body is not None else init) if c not in excl),
                                          'min': lo, 'max': hi or None, 'as_keyword': bool(kw.get('as_keyword', False))}, e, m)
        if name == 'CharsNotIn':
            kw = k(['not_chars', 'min', 'max', 'exact'], {'notChars': 'not_chars'})
            if not isinstance(kw.get('not_chars'), str):
                raise Unrecognised('CharsNotIn() set is not a string literal', e)
            lo, hi, ex = kw.get('min', 1), kw.get('max', 0), kw.get('exact', 0)
            if ex:
                lo, hi = ex, ex
            return self.mk('charsnotin', None, {'not': frozenset(kw['not_chars']), 'min': lo, 'max': hi or None}, e, m)
        if name == 'QuotedString':
            kw = k(['quote_char', 'esc_char', 'esc_quote', 'multiline', 'unquote_results', 'end_quote_char',
                    'convert_whitespace_escapes'],
                   {'quoteChar': 'quote_char', 'escChar': 'esc_char', 'escQuote': 'esc_quote', 'unquoteResults': 'unquote_results',
                    'endQuoteChar': 'end_quote_char', 'convertWhitespaceEscapes': 'convert_whitespace_escapes'})
            q = kw.get('quote_char')
            if not isinstance(q, str) or not q.strip():
                raise Unrecognised('QuotedString() quote is not a string literal', e)
            return self.mk('quoted', None, {'quote': q.strip(), 'end': (kw.get('end_quote_char') or q).strip(),
                                            'esc': kw.get('esc_char'), 'esc_quote': kw.get('esc_quote'),
                                            'multiline': bool(kw.get('multiline', False)),
                                            'unquote': bool(kw.get('unquote_results', True)),
                                            'convert_ws': bool(kw.get('convert_whitespace_escapes', True))}, e, m)
        if name in ('Suppress', 'Group', 'Combine', 'Optional', 'Opt', 'ZeroOrMore', 'OneOrMore', 'FollowedBy', 'NotAny',
                    'original_text_for', 'originalTextFor', 'Dict', 'Located', 'ungroup'):
            if not e.args:
                raise Unrecognised(f'pyparsing.{name}() without an expression', e)
            inner = self.as_g(self.ev(e.args[0], env, mod, cfg), e, m)
            extra = {kk.arg: self.ev(kk.value, env, mod, cfg) for kk in e.keywords if kk.arg}
            if len(e.args) > 1:
                if name == 'Combine':
                    extra['join_string'] = self.ev(e.args[1], env, mod, cfg)
                else:
                    raise Unrecognised(f'extra positional arguments of pyparsing.{name}', e)
            if name == 'Suppress':
                return self.mk('suppress', [inner], None, e, m)
            if name == 'Group':
                return self.mk('group', [inner], None, e, m)
            if name == 'Combine':
                return self.mk('combine', [inner], {'adjacent': bool(extra.get('adjacent', True)),
                                                     'join': extra.get('join_string', extra.get('joinString', ''))}, e, m)
            if name in ('Optional', 'Opt'):
                if 'default' in extra:
                    raise Unrecognised('Opt(default=...) is not modelled', e)
                return self.mk('repeat', [inner], {'min': 0, 'max': 1, 'form': 'opt'}, e, m)
            if name in ('ZeroOrMore', 'OneOrMore'):
                if extra.get('stop_on') is not None or extra.get('stopOn') is not None:
                    raise Unrecognised('stop_on is not modelled', e)
                return self.mk('repeat', [inner], {'min': 0 if name == 'ZeroOrMore' else 1, 'max': None, 'form': 'multi'}, e, m)
            if name in ('original_text_for', 'originalTextFor'):
                g = self.mk('origtext', [inner], None, e, m)
                g.actions = [Action('internal', 'pyparsing', 'extractText')]
                return g
            if name == 'FollowedBy':
                return self.mk('lookahead', [inner], None, e, m)
            if name == 'NotAny':
                return self.mk('notany', [inner], None, e, m)
            raise Unrecognised(f'pyparsing.{name} is not modelled', e)
        if name in ('And', 'MatchFirst', 'Or', 'Each'):
            if len(e.args) != 1:
                raise Unrecognised(f'pyparsing.{name}() arguments', e)
            items = self.ev(e.args[0], env, mod, cfg)
            if not isinstance(items, (tuple, list)):
                raise Unrecognised(f'pyparsing.{name}() needs a literal list', e)
            kids = [self.as_g(x, e, m) for x in items]
            return self.mk({'And': 'and', 'MatchFirst': 'first', 'Or': 'or', 'Each': 'each'}[name], kids, None, e, m)
        if name == 'Forward':
            g = self.mk('forward', None, None, e, m)
            if e.args:
                g.kids = [self.as_g(self.ev(e.args[0], env, mod, cfg), e, m)]
            return g
        if name in ('LineEnd', 'StringEnd', 'LineStart', 'StringStart', 'Empty', 'WordStart', 'WordEnd', 'NoMatch'):
            kind = name.lower()
            a = {}
            if name in ('WordStart', 'WordEnd'):
                kw = k(['word_chars'], {'wordChars': 'word_chars'})
                a['chars'] = kw.get('word_chars', PP_CONSTS['printables'])
            return self.mk(kind, None, a, e, m)
        if name == 'White':
            kw = k(['ws', 'min', 'max', 'exact'])
            return self.mk('white', None, {'chars': kw.get('ws', ' \t\r\n'), 'min': kw.get('min', 1), 'max': kw.get('max', 0) or None}, e, m)
        if name == 'SkipTo':
            kw = k(['other', 'include', 'ignore', 'fail_on'], {'failOn': 'fail_on'})
            if kw.get('ignore') is not None or kw.get('fail_on') is not None:
                raise Unrecognised('SkipTo(ignore=/fail_on=) is not modelled', e)
            tgt = self.as_g(kw.get('other'), e, m)
            return self.mk('skipto', [tgt], {'include': bool(kw.get('include', False))}, e, m)
        if name in ('oneOf', 'one_of'):
            kw = k(['strs', 'caseless', 'use_regex', 'as_keyword'], {'useRegex': 'use_regex', 'asKeyword': 'as_keyword'})
            s = kw.get('strs')
            if isinstance(s, str):
                alts = s.split()
            elif isinstance(s, (tuple, list)) and all(isinstance(x, str) for x in s):
                alts = list(s)
            else:
                raise Unrecognised('one_of() alternatives are not literal', e)
            return self.mk('oneof', None, {'alts': tuple(alts), 'caseless': bool(kw.get('caseless', False)),
                                           'as_keyword': bool(kw.get('as_keyword', False))}, e, m)
        if name == 'Regex':
            kw = k(['pattern', 'flags', 'as_group_list', 'as_match'], {'asGroupList': 'as_group_list', 'asMatch': 'as_match'})
            if not isinstance(kw.get('pattern'), str):
                raise Unrecognised('Regex() pattern is not a string literal', e)
            fl = kw.get('flags', 0)
            if isinstance(fl, Opaque):
                import re as _re
                nm_ = fl.what.split('.')[-1]
                fl = int(getattr(_re, nm_)) if fl.what.startswith('re.') and nm_.isupper() and hasattr(_re, nm_) else fl
            if not isinstance(fl, int):
                raise Unrecognised('Regex() flags are not a constant', e)
            return self.mk('regex', None, {'pattern': kw['pattern'], 'flags': fl}, e, m)
        if name in ('delimited_list', 'delimitedList', 'DelimitedList'):
            kw = k(['expr', 'delim', 'combine', 'min', 'max', 'allow_trailing_delim'])
            inner = self.as_g(kw.get('expr'), e, m)
            if kw.get('combine') or kw.get('min') or kw.get('max') or kw.get('allow_trailing_delim'):
                raise Unrecognised('DelimitedList options are not modelled', e)
            d = kw.get('delim', ',')
            delim = self.mk('suppress', [self.as_g(d, e, m)], None, e, m)
            rep = self.mk('repeat', [self.mk('and', [delim, inner], None, e, m)], {'min': 0, 'max': None, 'form': 'multi'}, e, m)
            return self.mk('and', [inner, rep], None, e, m)
        if name == 'srange':
            kw = k(['s'])
            if not isinstance(kw.get('s'), str):
                raise Unrecognised('srange() argument is not a string literal', e)
            return srange(kw['s'], e)
        raise Unrecognised(f'pyparsing.{name} is not modelled', e)

    def req_str_lit(self, v: Any, node, m, caseless: bool) -> G:
        if not isinstance(v, str):
            raise Unrecognised('literal text is not a string literal', node)
        return self.lit(v, node, m, caseless)


def srange(s: str, node=None) -> str:
    """pyparsing.srange for the simple `[a-zA-Z0-9_]` forms."""
    if not (s.startswith('[') and s.endswith(']')):
        raise Unrecognised(f'srange({s!r})', node)
    body = s[1:-1]
    out = []
    i = 0
    neg = body.startswith('^')
    if neg:
        raise Unrecognised(f'negated srange({s!r})', node)
    while i < len(body):
        c = body[i]
        if c == '\\' and i + 1 < len(body):
            c = body[i + 1]
            i += 1
        if i + 2 < len(body) and body[i + 1] == '-':
            hi = body[i + 2]
            out.extend(chr(x) for x in range(ord(c), ord(hi) + 1))
            i += 3
        else:
            out.append(c)
            i += 1
    return ''.join(out)


# ----------------------------------------------------------------------------------------------
# the model used by the rules
# ----------------------------------------------------------------------------------------------

TOP_KINDS = ('table', 'ref', 'enum', 'table_group', 'project', 'sticky_note')


def action_value(action: 'Action', module_tree: Optional[ast.AST] = None) -> Optional[ast.AST]:
    """The value a parse action returns, as ONE expression over its parameters: the body of a lambda, or - for a function written as
    single-assignment locals, guard clauses and returns - the equivalent conditional expression.  Module-level names bound to a literal
    dict/tuple are replaced by that literal.  None when the function is not of that form."""
    import copy
    n = action.node
    if n is None:
        return None
    consts: Dict[str, ast.AST] = {}
    if module_tree is not None:
        for st in getattr(module_tree, 'body', []):
            if isinstance(st, ast.Assign) and len(st.targets) == 1 and isinstance(st.targets[0], ast.Name) and isinstance(st.value, (ast.Dict, ast.Tuple, ast.List, ast.Set)):
                consts[st.targets[0].id] = st.value
            elif isinstance(st, ast.AnnAssign) and isinstance(st.target, ast.Name) and isinstance(st.value, (ast.Dict, ast.Tuple, ast.List, ast.Set)):
                consts[st.target.id] = st.value

    class Sub(ast.NodeTransformer):
        def __init__(self, env):
            self.env = env

        def visit_Name(self, node):
            if isinstance(node.ctx, ast.Load) and node.id in self.env:
                return copy.deepcopy(self.env[node.id])
            return node

    if isinstance(n, ast.Lambda):
        return Sub(dict(consts)).visit(copy.deepcopy(n.body))
    if not isinstance(n, ast.FunctionDef):
        return None
    params = {a.arg for a in n.args.args}
    body = list(n.body)
    if body and isinstance(body[0], ast.Expr) and isinstance(body[0].value, ast.Constant) and isinstance(body[0].value.value, str):
        body = body[1:]

    def conv(stmts, env, depth=0):
        if depth > 8:
            return None
        env = dict(env)
        for i, st in enumerate(stmts):
            if isinstance(st, ast.Assign) and len(st.targets) == 1 and isinstance(st.targets[0], ast.Name) and st.targets[0].id not in params:
                env[st.targets[0].id] = Sub(env).visit(copy.deepcopy(st.value))
                continue
            if isinstance(st, ast.Return):
                return Sub(env).visit(copy.deepcopy(st.value)) if st.value is not None else ast.Constant(value=None)
            if isinstance(st, ast.If):
                rest = list(stmts[i + 1:])
                a = conv(list(st.body) + rest, env, depth + 1)
                b = conv(list(st.orelse) + rest, env, depth + 1)
                if a is None or b is None:
                    return None
                return ast.IfExp(test=Sub(env).visit(copy.deepcopy(st.test)), body=a, orelse=b)
            return None
        return ast.Constant(value=None)
    e = conv(body, dict(consts))
    if e is not None:
        ast.fix_missing_locations(ast.Expression(body=e))
    return e


def walk(g: G, seen: Optional[Set[int]] = None) -> Iterator[G]:
    """All nodes reachable from g (children, skip targets), each once."""
    seen = set() if seen is None else seen
    stack = [g]
    while stack:
        n = stack.pop()
        if n.uid in seen:
            continue
        seen.add(n.uid)
        yield n
        stack.extend(reversed(n.kids))
        for ig in n.a.get('ignore', []) or []:
            stack.append(ig)


def value_action(g: G) -> Optional[Action]:
    for a in g.actions:
        if a.returns_value():
            return a
    return None


def names_inner(g: G, _stack: Optional[Set[int]] = None) -> Set[str]:
    """Results names visible in the tokens an element hands to ITS OWN parse actions, excluding
    its own results name."""
    _stack = _stack or set()
    if g.uid in _stack:
        return set()
    _stack = _stack | {g.uid}
    if g.kind in ('suppress', 'group', 'origtext', 'lookahead', 'notany', 'skipto'):
        return set()
    out: Set[str] = set()
    for k in g.kids:
        out |= names_out(k, _stack)
    return out


def names_out(g: G, _stack: Optional[Set[int]] = None) -> Set[str]:
    """Results names visible in the tokens the element returns to its parent."""
    own = {g.name} if g.name else set()
    if g.kind in ('suppress', 'lookahead', 'notany'):
        return set()
    if g.kind == 'group':
        return own
    if value_action(g) is not None:
        return own
    return own | names_inner(g, _stack)


def save_as_list(g: G, _stack: Optional[Set[int]] = None) -> bool:
    _stack = _stack or set()
    if g.uid in _stack:
        return False
    _stack = _stack | {g.uid}
    if g.kind in ('and', 'group', 'each'):
        return True
    if g.kind == 'repeat':
        if g.a.get('form') == 'multi':
            return True
        if g.a.get('form') == 'opt':
            return save_as_list(g.kids[0], _stack)
        return True          # e * n builds a sequence
    if g.kind in ('first', 'or'):
        return any(save_as_list(k, _stack) for k in g.kids)
    if g.kind == 'forward':
        return bool(g.kids) and save_as_list(g.kids[0], _stack)
    return False             # tokens, Suppress, Combine, SkipTo, original text


def named_nodes(g: G, name: str) -> List[G]:
    """Nodes below g (through the same visibility rules as names_inner) that carry `name`."""
    out: List[G] = []

    def rec(n: G, top: bool, stack: Set[int]):
        if n.uid in stack:
            return
        stack = stack | {n.uid}
        if not top:
            if n.kind in ('suppress', 'lookahead', 'notany'):
                return
            if n.name == name:
                out.append(n)
            if n.kind == 'group' or value_action(n) is not None:
                return
        if n.kind in ('suppress', 'group', 'origtext', 'lookahead', 'notany', 'skipto'):
            return
        for k in n.kids:
            rec(k, False, stack)
    rec(g, True, set())
    return out


class GrammarModel:
    """Evaluated grammar: module environments, the two parser configurations and derived tables."""

    PARSER_MOD = 'pydbml.parser.parser'

    def __init__(self, idx: PyIndex):
        self.idx = idx
        self.ev = GrammarEval(idx)
        self.configs: Dict[bool, G] = {}
        self.config_env: Dict[bool, Dict[str, Any]] = {}
        self.parser_env: Dict[str, Any] = {}
        self._build()

    def _build(self):
        idx = self.idx
        pmod = idx.module(self.PARSER_MOD)
        env: Dict[str, Any] = {}
        for st in pmod.tree.body:
            if isinstance(st, (ast.Import, ast.ImportFrom, ast.FunctionDef, ast.ClassDef)):
                self.ev.exec_stmt(st, env, pmod)
            elif isinstance(st, ast.Expr):
                self.ev.exec_stmt(st, env, pmod)
            elif isinstance(st, (ast.Assign, ast.AnnAssign)):
                try:
                    self.ev.exec_stmt(st, env, pmod)
                except Unrecognised:
                    pass
        self.parser_env = env
        self.ev.envs.setdefault(self.PARSER_MOD, env)       # helper functions of the parser module see its module-level names
        # every definition module, also those the parser does not import
        for name in sorted(idx.modules):
            if name.startswith(DEFS + '.'):
                self.ev.module_env(name)
        cls = idx.cls(self.PARSER_MOD, 'PyDBMLParser')
        ss = cls.methods.get('_set_syntax')
        if ss is None:
            raise AnchorMissing('PyDBMLParser._set_syntax')
        self.set_syntax = ss
        for flag in (False, True):
            e2 = dict(env)
            args = [a.arg for a in ss.node.args.args]
            e2[args[0]] = SelfRef()
            for mname, mfi in cls.methods.items():
                pass
            # the attribute(s) of the parser that hold the option: whatever __init__ binds to its `allow_properties` parameter
            flag_attrs = {'_allow_properties'}
            init_ = cls.methods.get('__init__')
            if init_ is not None:
                for n_ in ast.walk(init_.node):
                    if isinstance(n_, ast.Assign) and isinstance(n_.value, ast.Name) and n_.value.id == 'allow_properties':
                        for t_ in n_.targets:
                            if isinstance(t_, ast.Attribute) and isinstance(t_.value, ast.Name) and t_.value.id == args[0]:
                                flag_attrs.add(t_.attr)
            cfg = {a_: flag for a_ in flag_attrs}
            e2['$self'] = {m: FuncRef(Action('method', self.PARSER_MOD, f'PyDBMLParser.{m}', fi.node))
                           for m, fi in cls.methods.items()}
            saved_ws = self.ev.default_ws
            for st in ss.node.body:
                self.ev.exec_stmt(st, e2, pmod, cfg)
            self.ev.default_ws = saved_ws
            syn = e2['$self'].get('_syntax')
            if not isinstance(syn, G):
                raise Unrecognised('PyDBMLParser._set_syntax does not assign a parser element to self._syntax', ss.node)
            self.configs[flag] = syn
            self.config_env[flag] = e2

    # ------------------------------------------------------------------ helpers
    def env(self, short: str) -> Dict[str, Any]:
        return self.ev.module_env(f'{DEFS}.{short}')

    def var(self, short: str, name: str) -> G:
        v = self.env(short).get(name)
        if not isinstance(v, G):
            raise AnchorMissing(f'grammar element {short}.{name}')
        return v

    def all_roots(self) -> List[G]:
        return [self.configs[False], self.configs[True]]

    def reachable(self, flag: Optional[bool] = None) -> List[G]:
        seen: Set[int] = set()
        out: List[G] = []
        for f in ((False, True) if flag is None else (flag,)):
            out.extend(walk(self.configs[f], seen))
        return out

    def action_nodes(self, flag: Optional[bool] = None) -> List[G]:
        return [g for g in self.reachable(flag) if g.actions]

    def nodes_with_action(self, fname: str, flag: Optional[bool] = None) -> List[G]:
        return [g for g in self.reachable(flag) if any(a.name == fname or a.name.endswith('.' + fname) for a in g.actions)]

    def top_alternatives(self, flag: bool) -> Tuple[List[G], G]:
        """(alternatives of the repeated top-level expression, the whole syntax)."""
        syn = self.configs[flag]
        return top_shape(syn)['alts'], syn


def flatten_and(g: G) -> List[G]:
    """Children of nested anonymous, action-free sequences in order (pyparsing's streamline)."""
    if g.kind != 'and':
        return [g]
    out: List[G] = []
    for k in g.kids:
        if k.kind == 'and' and not k.name and not k.actions:
            out.extend(flatten_and(k))
        else:
            out.append(k)
    return out


def flatten_alt(g: G, kinds=('first',)) -> List[G]:
    if g.kind not in kinds:
        return [g]
    out: List[G] = []
    for k in g.kids:
        if k.kind == g.kind and not k.name and not k.actions:
            out.extend(flatten_alt(k, kinds))
        else:
            out.append(k)
    return out


def top_shape(syn: G) -> Dict[str, Any]:
    """Decompose the top-level syntax: leading repetition of alternatives, trailer, end anchor."""
    seq = flatten_and(syn)
    out: Dict[str, Any] = {'seq': seq, 'alts': [], 'rep': None, 'end_anchor': False, 'trailer': []}
    if seq and seq[0].kind == 'repeat' and seq[0].a.get('max') is None:
        out['rep'] = seq[0]
        out['alts'] = flatten_alt(seq[0].kids[0], ('first', 'or'))
    if seq and seq[-1].kind == 'stringend':
        out['end_anchor'] = True
    out['trailer'] = seq[1:-1] if out['end_anchor'] else seq[1:]
    return out


def action_reads(act: Action) -> Dict[str, List[Tuple[str, ast.AST]]]:
    """Results names the action reads from its token parameter: name -> [(how, node)];
    how in 'sub' (tok['x']), 'in' ('x' in tok), 'get' (tok.get('x')), 'attr' (tok.x)."""
    out: Dict[str, List[Tuple[str, ast.AST]]] = {}
    p = act.tok_param()
    if p is None or act.node is None:
        return out
    body = act.node
    for n in ast.walk(body):
        if isinstance(n, ast.Subscript) and isinstance(n.value, ast.Name) and n.value.id == p \
                and isinstance(n.slice, ast.Constant) and isinstance(n.slice.value, str):
            out.setdefault(n.slice.value, []).append(('sub', n))
        elif isinstance(n, ast.Compare) and len(n.ops) == 1 and isinstance(n.ops[0], (ast.In, ast.NotIn)) \
                and isinstance(n.left, ast.Constant) and isinstance(n.left.value, str) \
                and isinstance(n.comparators[0], ast.Name) and n.comparators[0].id == p:
            out.setdefault(n.left.value, []).append(('in', n))
        elif isinstance(n, ast.Call) and isinstance(n.func, ast.Attribute) and n.func.attr in ('get', 'pop') \
                and isinstance(n.func.value, ast.Name) and n.func.value.id == p and n.args \
                and isinstance(n.args[0], ast.Constant) and isinstance(n.args[0].value, str):
            out.setdefault(n.args[0].value, []).append(('get', n))
    return out


def positional_reads(act: Action) -> List[ast.AST]:
    """Integer subscripts / iteration on the token parameter itself (tok[0], for x in tok)."""
    p = act.tok_param()
    out: List[ast.AST] = []
    if p is None or act.node is None:
        return out
    for n in ast.walk(act.node):
        if isinstance(n, ast.Subscript) and isinstance(n.value, ast.Name) and n.value.id == p \
                and not (isinstance(n.slice, ast.Constant) and isinstance(n.slice.value, str)):
            out.append(n)
    return out
