"""Helper inlining: a copy of a function in which calls of small helpers defined in the package (plain
functions, or methods called on `self`/`cls`) are replaced by the helper's body, with parameters bound to
the arguments and the helper's locals renamed.  Used as a second look when a rule does not find the shape
it expects in the function itself (the usual reason being "extract method").

Inlined call forms:  `h(...)` as a statement, `x = h(...)` / `x, y = h(...)`, `return h(...)`.
Inlinable helpers: no nested definitions / generators / globals / star-arguments, at most 40 statements, and
either no `return` at all or a single `return <expr>` as the last top-level statement (for statement calls a
trailing bare `return` is fine)."""
from __future__ import annotations

import ast
import copy
import itertools
from typing import Dict, List, Optional

from .pyindex import PyIndex, FuncInfo

_n = itertools.count(1)


def _helper_for(idx: PyIndex, fi: FuncInfo, call: ast.Call) -> Optional[FuncInfo]:
    f = call.func
    if isinstance(f, ast.Name):
        local = idx.funcs.get(f'{fi.module}:{fi.qualname}.<locals>.{f.id}')
        if local is not None:
            return None
        sym = idx.resolve(fi.module, f.id)
        if sym is not None and sym.kind == 'func':
            return idx.funcs.get(f'{sym.module}:{sym.name}')
        return None
    if isinstance(f, ast.Attribute) and isinstance(f.value, ast.Name) and f.value.id in ('self', 'cls') and fi.cls:
        m = idx.lookup_method(fi.cls, f.attr)
        return m
    return None


def _inlinable(h: FuncInfo, as_statement: bool) -> bool:
    n = h.node
    if not isinstance(n, ast.FunctionDef) or n.args.vararg or n.args.kwarg or len(n.body) > 40:
        return False
    if any(d for d in n.decorator_list if not (isinstance(d, ast.Name) and d.id in ('staticmethod', 'classmethod'))):
        return False
    for x in ast.walk(n):
        if x is not n and isinstance(x, (ast.FunctionDef, ast.AsyncFunctionDef, ast.ClassDef, ast.Yield, ast.YieldFrom, ast.Global, ast.Nonlocal)):
            return False
    rets = [x for x in ast.walk(n) if isinstance(x, ast.Return)]
    if not rets:
        return as_statement or True
    if len(rets) == 1 and n.body and n.body[-1] is rets[0]:
        return True
    return False


def _is_path(e: ast.AST) -> bool:
    while isinstance(e, ast.Attribute):
        e = e.value
    return isinstance(e, ast.Name)


class _SubstExpr(ast.NodeTransformer):
    def __init__(self, m: Dict[str, ast.AST]):
        self.m = m

    def visit_Name(self, node):
        if isinstance(node.ctx, ast.Load) and node.id in self.m:
            return ast.copy_location(copy.deepcopy(self.m[node.id]), node)
        return node


class _Rename(ast.NodeTransformer):
    def __init__(self, m: Dict[str, str]):
        self.m = m

    def visit_Name(self, node):
        if node.id in self.m:
            node.id = self.m[node.id]
        return node


def _expand(idx: PyIndex, fi: FuncInfo, call: ast.Call, h: FuncInfo, at: ast.AST):
    """(statements, return expression or None) of helper h applied to the arguments of `call`."""
    hn = copy.deepcopy(h.node)
    k = next(_n)
    params = [a.arg for a in hn.args.args]
    skip_self = h.kind in ('method', 'classmethod') and isinstance(call.func, ast.Attribute)
    locals_: set = set(params) | {a.arg for a in hn.args.kwonlyargs}
    for x in ast.walk(hn):
        if isinstance(x, ast.Name) and isinstance(x.ctx, (ast.Store, ast.Del)):
            locals_.add(x.id)
    ren = {nm: f'_h{k}_{nm}' for nm in locals_}
    binds: List[ast.stmt] = []
    defaults = dict(zip(params[len(params) - len(hn.args.defaults):], hn.args.defaults))
    bound: Dict[str, ast.AST] = {}
    pos = params[1:] if skip_self else params
    if skip_self:
        bound[params[0]] = call.func.value
    for p, a in zip(pos, call.args):
        if isinstance(a, ast.Starred):
            return None
        bound[p] = a
    for kw in call.keywords:
        if kw.arg is None:
            return None
        bound[kw.arg] = kw.value
    stored = {x.id for x in ast.walk(hn) if isinstance(x, ast.Name) and isinstance(x.ctx, (ast.Store, ast.Del))}
    direct: Dict[str, ast.AST] = {}
    for p in params + [a.arg for a in hn.args.kwonlyargs]:
        v = bound.get(p, defaults.get(p))
        if v is None:
            kd = dict(zip([a.arg for a in hn.args.kwonlyargs], hn.args.kw_defaults))
            v = kd.get(p)
        if v is None:
            return None
        # an argument that is a plain name / attribute path / constant is substituted directly (no alias), unless the helper rebinds the parameter
        if p not in stored and (isinstance(v, (ast.Name, ast.Constant)) or (isinstance(v, ast.Attribute) and _is_path(v))):
            direct[p] = v
            ren.pop(p, None)
            continue
        st = ast.Assign(targets=[ast.Name(id=ren[p], ctx=ast.Store())], value=copy.deepcopy(v))
        binds.append(st)
    body = [_Rename(ren).visit(s) for s in hn.body]
    if direct:
        body = [_SubstExpr(direct).visit(s) for s in body]
    # drop the docstring
    if body and isinstance(body[0], ast.Expr) and isinstance(body[0].value, ast.Constant) and isinstance(body[0].value.value, str):
        body = body[1:]
    ret = None
    if body and isinstance(body[-1], ast.Return):
        ret = body[-1].value
        body = body[:-1]
    out = binds + body
    for s in out:
        for x in ast.walk(s):
            ast.copy_location(x, at)
    return out, ret


def inline_function(idx: PyIndex, fi: FuncInfo, depth: int = 2) -> ast.FunctionDef:
    """Deep copy of fi.node with helper calls inlined (`depth` rounds)."""
    fn = copy.deepcopy(fi.node)
    if not isinstance(fn, ast.FunctionDef):
        return fn
    for _ in range(depth):
        changed = False

        def do_body(body: List[ast.stmt]) -> List[ast.stmt]:
            nonlocal changed
            out: List[ast.stmt] = []
            for st in body:
                for fld in ('body', 'orelse', 'finalbody'):
                    b = getattr(st, fld, None)
                    if isinstance(b, list) and b and isinstance(b[0], ast.stmt):
                        setattr(st, fld, do_body(b))
                for hd in getattr(st, 'handlers', []) or []:
                    hd.body = do_body(hd.body)
                call = None
                kind = None
                if isinstance(st, ast.Expr) and isinstance(st.value, ast.Call):
                    call, kind = st.value, 'stmt'
                elif isinstance(st, ast.Assign) and isinstance(st.value, ast.Call):
                    call, kind = st.value, 'assign'
                elif isinstance(st, ast.Return) and isinstance(st.value, ast.Call):
                    call, kind = st.value, 'return'
                if call is not None:
                    h = _helper_for(idx, fi, call)
                    if h is not None and h.id != fi.id and _inlinable(h, kind == 'stmt'):
                        ex = _expand(idx, fi, call, h, st)
                        if ex is not None:
                            stmts, ret = ex
                            if kind == 'stmt':
                                out.extend(stmts)
                                changed = True
                                continue
                            if ret is not None:
                                out.extend(stmts)
                                if kind == 'assign':
                                    out.append(ast.copy_location(ast.Assign(targets=st.targets, value=ret), st))
                                else:
                                    out.append(ast.copy_location(ast.Return(value=ret), st))
                                changed = True
                                continue
                out.append(st)
            return out
        fn.body = do_body(fn.body)
        if not changed:
            break
    ast.fix_missing_locations(fn)
    # apply the canonical forms again (helper bodies were already canonical, but idioms may now span the seam)
    from .normalise import Canon
    fn = Canon().visit(fn)
    ast.fix_missing_locations(fn)
    return fn


def inlined_info(idx: PyIndex, fi: FuncInfo, depth: int = 2) -> FuncInfo:
    """A FuncInfo whose node is the inlined copy (same identity otherwise)."""
    return FuncInfo(fi.module, fi.qualname, inline_function(idx, fi, depth), fi.cls, fi.kind)
