"""Helper inlining: a copy of a function in which calls of small helpers defined in the package (plain
functions, or methods called on `self`/`cls`) are replaced by the helper's body, with parameters bound to
the arguments and the helper's locals renamed.  Used as a second look when a rule does not find the shape
it expects in the function itself (the usual reason being "extract method").

Inlined call forms:  `h(...)` as a statement, `x = h(...)` / `x, y = h(...)`, `return h(...)`.
Inlinable helpers: no nested definitions / generators / globals / star-arguments, at most 40 statements, and
either no `return` at all or a single `return <expr>` as the last top-level statement (for statement calls a
trailing bare `return` is fine)."""
from __future__ import annotations

import ast
import copy
import itertools
from typing import Dict, List, Optional

from .pyindex import PyIndex, FuncInfo

_n = itertools.count(1)


def field_types(idx: PyIndex, cid: str, attr: str) -> set:
    """Classes an attribute of class `cid` is declared to hold (class-level annotation - dataclass field -, annotated __init__ parameter of that name, or the
    return annotation of a property), through Optional/List/...; empty when undeclared."""
    for c in idx.mro(cid):
        for st in c.node.body:
            if isinstance(st, ast.AnnAssign) and isinstance(st.target, ast.Name) and st.target.id == attr:
                return idx.ann_classes(c.module, st.annotation)
        init = c.methods.get('__init__')
        if init is not None:
            for a in list(init.node.args.args) + list(init.node.args.kwonlyargs):
                if a.arg == attr and a.annotation is not None:
                    ts = idx.ann_classes(c.module, a.annotation)
                    if ts:
                        return ts
            # self.attr: List['T'] = ...   annotated where it is first bound
            for st in ast.walk(init.node):
                if isinstance(st, ast.AnnAssign) and isinstance(st.target, ast.Attribute) and isinstance(st.target.value, ast.Name) and st.target.value.id == 'self' \
                        and st.target.attr == attr:
                    ts = idx.ann_classes(c.module, st.annotation)
                    if ts:
                        return ts
        p = c.props.get(attr)
        if p is not None and p.node.returns is not None:
            return idx.ann_classes(c.module, p.node.returns)
    return set()


def _strip_default(e: ast.AST) -> ast.AST:
    """`X or []` / `list(X)` / `tuple(X)` -> X"""
    while True:
        if isinstance(e, ast.BoolOp) and isinstance(e.op, ast.Or) and len(e.values) == 2 and isinstance(e.values[1], (ast.List, ast.Tuple)) and not e.values[1].elts:
            e = e.values[0]
        elif isinstance(e, ast.Call) and isinstance(e.func, ast.Name) and e.func.id in ('list', 'tuple') and len(e.args) == 1 and not e.keywords:
            e = e.args[0]
        else:
            return e


_depth = [0]


def _returned_elem_type(idx: PyIndex, m: FuncInfo) -> Optional[str]:
    """Element class of the list an unannotated method builds and returns (`r = []`, `r.append(x)` with x of a declared class, `return r`)."""
    _depth[0] += 1
    try:
        env = type_env(idx, m, m.node, {})
    finally:
        _depth[0] -= 1
    rets = [x.value for x in ast.walk(m.node) if isinstance(x, ast.Return) and x.value is not None]
    if len(rets) != 1 or not isinstance(rets[0], ast.Name):
        return None
    r = rets[0].id
    inits = [x for x in ast.walk(m.node) if isinstance(x, ast.Assign) and len(x.targets) == 1 and isinstance(x.targets[0], ast.Name) and x.targets[0].id == r]
    if len(inits) != 1 or not (isinstance(inits[0].value, ast.List) and not inits[0].value.elts):
        return None
    ts = set()
    for c in ast.walk(m.node):
        if isinstance(c, ast.Call) and isinstance(c.func, ast.Attribute) and isinstance(c.func.value, ast.Name) and c.func.value.id == r:
            if c.func.attr == 'append' and len(c.args) == 1 and isinstance(c.args[0], ast.Name) and c.args[0].id in env:
                ts.add(env[c.args[0].id])
            else:
                return None
    return next(iter(ts)) if len(ts) == 1 else None


def type_env(idx: PyIndex, fi: FuncInfo, fn: ast.AST, exact: Dict[str, str]) -> Dict[str, str]:
    """variable -> class id: the given (exact) types, `self`, and what follows from declarations: a loop variable over a declared collection attribute or
    over the annotated result of a method, an alias, a constructor call.  Only names stored at most once."""
    env: Dict[str, str] = dict(exact)
    if fi.cls and isinstance(fn, ast.FunctionDef) and fn.args.args and fi.kind in ('method', 'property', 'setter', 'classmethod'):
        env.setdefault(fn.args.args[0].arg, fi.cls)
    stores: Dict[str, int] = {}
    for x in ast.walk(fn):
        if isinstance(x, ast.Name) and isinstance(x.ctx, ast.Store):
            stores[x.id] = stores.get(x.id, 0) + 1

    def of_expr(e: ast.AST) -> Optional[str]:
        e = _strip_default(e)
        if isinstance(e, ast.Name):
            return env.get(e.id)
        if isinstance(e, ast.Attribute) and isinstance(e.value, ast.Name) and e.value.id in env:
            ts = field_types(idx, env[e.value.id], e.attr)
            return next(iter(ts)) if len(ts) == 1 else None
        if isinstance(e, ast.Call) and isinstance(e.func, ast.Attribute) and isinstance(e.func.value, ast.Name) and e.func.value.id in env:
            m = idx.lookup_method(env[e.func.value.id], e.func.attr)
            if m is not None and m.node.returns is not None:
                ts = idx.ann_classes(m.module, m.node.returns)
                return next(iter(ts)) if len(ts) == 1 else None
            if m is not None and _depth[0] < 2:
                return _returned_elem_type(idx, m)
        if isinstance(e, ast.Call) and isinstance(e.func, ast.Name):
            ci = idx.class_of(fi.module, e.func)
            if ci is not None:
                return ci.id
        return None
    for _ in range(4):
        before = len(env)
        for x in ast.walk(fn):
            if isinstance(x, (ast.For, ast.comprehension)) and isinstance(x.target, ast.Name) and stores.get(x.target.id, 0) <= 1 and x.target.id not in env:
                t = of_expr(x.iter)     # element type of a declared collection = the class named in its annotation
                if t is not None:
                    env[x.target.id] = t
            elif isinstance(x, ast.Assign) and len(x.targets) == 1 and isinstance(x.targets[0], ast.Name) and stores.get(x.targets[0].id, 0) <= 1 \
                    and x.targets[0].id not in env:
                v = _strip_default(x.value)
                if isinstance(v, (ast.Name, ast.Call)) or (isinstance(v, ast.Attribute) and not isinstance(x.value, ast.BoolOp)):
                    # an attribute holding a collection gives the ELEMENT class: only scalar-looking uses are typed here (names, constructor calls)
                    if isinstance(v, ast.Attribute):
                        continue
                    t = of_expr(v)
                    if t is not None:
                        env[x.targets[0].id] = t
        if len(env) == before:
            break
    return env


def _plain_init_fields(idx: PyIndex, ci) -> Optional[List[str]]:
    """Field names of a class whose __init__ only stores its parameters (`self.a = a` for each), in parameter order; None for any other class."""
    init = ci.methods.get('__init__')
    if init is None or not isinstance(init.node, ast.FunctionDef) or init.node.args.vararg or init.node.args.kwarg:
        return None
    params = [a.arg for a in init.node.args.args][1:]
    body = [b for b in init.node.body if not (isinstance(b, ast.Expr) and isinstance(b.value, ast.Constant))]
    got = []
    for b in body:
        if isinstance(b, ast.Assign) and len(b.targets) == 1 and isinstance(b.targets[0], ast.Attribute) and isinstance(b.targets[0].value, ast.Name) \
                and b.targets[0].value.id == 'self' and isinstance(b.value, ast.Name) and b.value.id == b.targets[0].attr and b.value.id in params:
            got.append(b.value.id)
        elif isinstance(b, ast.AnnAssign) and isinstance(b.target, ast.Attribute) and isinstance(b.target.value, ast.Name) and b.target.value.id == 'self' \
                and isinstance(b.value, ast.Name) and b.value.id == b.target.attr and b.value.id in params:
            got.append(b.value.id)
        else:
            return None
    if sorted(got) != sorted(params) or any(p in ci.methods or p in getattr(ci, 'props', {}) for p in params):
        return None
    if any(n_ in ci.methods for n_ in ('__setattr__', '__getattr__', '__getattribute__')):
        return None
    return params


_LIST_VIEWS: Dict[int, Optional[FuncInfo]] = {}


def _list_view(h: Optional[FuncInfo]) -> Optional[FuncInfo]:
    """A generator function read as the function that returns the list of what it yields (`yield E` -> append, `yield from X` -> extend, `return` -> return the
    list): the same values in the same order for every caller that consumes the generator completely, which is how the package uses its generators
    (list(), join, extend, for).  None when a yield stands inside an expression."""
    if h is None or not isinstance(h.node, ast.FunctionDef) or not any(isinstance(x, (ast.Yield, ast.YieldFrom)) for x in ast.walk(h.node)):
        return h
    key = id(h.node)
    if key in _LIST_VIEWS:
        return _LIST_VIEWS[key]
    fn = copy.deepcopy(h.node)
    acc = '_acc'
    ok = [True]

    class _Y(ast.NodeTransformer):
        def visit_FunctionDef(self, node):
            if node is not fn:
                return node
            self.generic_visit(node)
            return node

        def visit_Lambda(self, node):
            return node

        def visit_Expr(self, node):
            v = node.value
            if isinstance(v, ast.Yield) and v.value is not None and not any(isinstance(x, (ast.Yield, ast.YieldFrom)) for x in ast.walk(v.value)):
                call = ast.Call(func=ast.Attribute(value=ast.Name(id=acc, ctx=ast.Load()), attr='append', ctx=ast.Load()), args=[v.value], keywords=[])
                return ast.copy_location(ast.Expr(value=call), node)
            if isinstance(v, ast.YieldFrom) and not any(isinstance(x, (ast.Yield, ast.YieldFrom)) for x in ast.walk(v.value)):
                call = ast.Call(func=ast.Attribute(value=ast.Name(id=acc, ctx=ast.Load()), attr='extend', ctx=ast.Load()), args=[v.value], keywords=[])
                return ast.copy_location(ast.Expr(value=call), node)
            return node

        def visit_Return(self, node):
            if node.value is None:
                return ast.copy_location(ast.Return(value=ast.Name(id=acc, ctx=ast.Load())), node)
            ok[0] = False
            return node
    fn = _Y().visit(fn)
    if not ok[0] or any(isinstance(x, (ast.Yield, ast.YieldFrom)) for x in ast.walk(fn)) or any(isinstance(x, ast.Name) and x.id == acc for x in ast.walk(h.node)):
        _LIST_VIEWS[key] = None
        return None
    doc = [fn.body[0]] if fn.body and isinstance(fn.body[0], ast.Expr) and isinstance(fn.body[0].value, ast.Constant) else []
    rest = fn.body[len(doc):]
    init = ast.Assign(targets=[ast.Name(id=acc, ctx=ast.Store())], value=ast.List(elts=[], ctx=ast.Load()))
    fn.body = doc + [init] + rest + [ast.Return(value=ast.Name(id=acc, ctx=ast.Load()))]
    fn.returns = None
    ast.copy_location(init, h.node)
    ast.fix_missing_locations(fn)
    lv = FuncInfo(h.module, h.qualname, fn, h.cls, h.kind)
    _LIST_VIEWS[key] = lv
    return lv


def _helper_for(idx: PyIndex, fi: FuncInfo, call: ast.Call, tenv: Optional[Dict[str, str]] = None) -> Optional[FuncInfo]:
    h = _helper_for0(idx, fi, call, tenv)
    if h is not None and isinstance(h.node, ast.FunctionDef) and any(isinstance(x, (ast.Yield, ast.YieldFrom)) for x in ast.walk(h.node)):
        return _GenRef(h)
    return h


class _GenRef(FuncInfo):
    """a generator function: `.node` is the generator as written (for the expression reading), `.list_view` the list-returning reading"""
    def __init__(self, h: FuncInfo):
        super().__init__(h.module, h.qualname, h.node, h.cls, h.kind)
        self.list_view = _list_view(h)


def _helper_for0(idx: PyIndex, fi: FuncInfo, call: ast.Call, tenv: Optional[Dict[str, str]] = None) -> Optional[FuncInfo]:
    f = call.func
    if tenv and isinstance(f, ast.Attribute) and isinstance(f.value, ast.Name) and f.value.id in tenv and f.value.id not in ('self', 'cls'):
        return idx.lookup_method(tenv[f.value.id], f.attr)
    # Helper(args).method(..): a method of a small class of the package, called on an instance made on the spot
    if isinstance(f, ast.Attribute) and isinstance(f.value, ast.Call) and isinstance(f.value.func, (ast.Name, ast.Attribute)):
        ci = idx.class_of(fi.module, f.value.func)
        if ci is not None and _plain_init_fields(idx, ci) is not None:
            m = idx.lookup_method(ci.id, f.attr)
            if m is not None and m.kind == 'method':
                return m
    if isinstance(f, ast.Name):
        local = idx.funcs.get(f'{fi.module}:{fi.qualname}.<locals>.{f.id}')
        if local is not None:
            return None
        sym = idx.resolve(fi.module, f.id)
        if sym is not None and sym.kind == 'func':
            return idx.funcs.get(f'{sym.module}:{sym.name}')
        return None
    if isinstance(f, ast.Attribute) and isinstance(f.value, ast.Name) and f.value.id in ('self', 'cls') and fi.cls:
        m = idx.lookup_method(fi.cls, f.attr)
        return m
    # `other._helper()` inside a method: a private method of the enclosing class that no other class of the package defines is that method, whatever the receiver
    # is called (the usual case is `other` in a comparison, already tested to be an instance of the same class)
    if isinstance(f, ast.Attribute) and isinstance(f.value, ast.Name) and fi.cls and f.attr.startswith('_') and not f.attr.startswith('__'):
        m = idx.lookup_method(fi.cls, f.attr)
        if m is not None:
            definers = [c for c in idx.classes.values() if f.attr in c.methods]
            if len(definers) == 1:
                return m
    return None


def _terminates(stmts: List[ast.stmt]) -> bool:
    if not stmts:
        return False
    last = stmts[-1]
    if isinstance(last, (ast.Return, ast.Raise)):
        return True
    if isinstance(last, ast.If):
        return _terminates(last.body) and _terminates(last.orelse)
    if isinstance(last, ast.With):
        return _terminates(last.body)
    return False


def _has_return(stmts: List[ast.stmt]) -> bool:
    return any(isinstance(x, ast.Return) for s_ in stmts for x in ast.walk(s_))


def _single_exit(stmts: List[ast.stmt], ret: str, depth: int = 0) -> Optional[List[ast.stmt]]:
    """The statement list with every `return E` (all in tail position of if-chains: guard clauses, early returns) rewritten as
    `ret = E`, the statements after an `if` that returns moved into its other branch.  None when a return sits in a loop / try / with."""
    if depth > 12:
        return None
    out: List[ast.stmt] = []
    for i, st in enumerate(stmts):
        if isinstance(st, ast.Return):
            out.append(ast.Assign(targets=[ast.Name(id=ret, ctx=ast.Store())], value=st.value or ast.Constant(value=None)))
            return out
        if isinstance(st, ast.If) and (_has_return(st.body) or _has_return(st.orelse)):
            rest = list(stmts[i + 1:])
            b = _single_exit(list(st.body) + ([] if _terminates(st.body) else copy.deepcopy(rest)), ret, depth + 1)
            o = _single_exit(list(st.orelse) + ([] if _terminates(st.orelse) else copy.deepcopy(rest)), ret, depth + 1)
            if b is None or o is None:
                return None
            out.append(ast.If(test=st.test, body=b or [ast.Pass()], orelse=o))
            return out
        if isinstance(st, ast.With) and _has_return(st.body) and _terminates(st.body):
            b = _single_exit(list(st.body), ret, depth + 1)
            if b is None:
                return None
            out.append(ast.With(items=st.items, body=b))
            return out
        if isinstance(st, ast.For) and not st.orelse and _has_return(st.body) and not any(isinstance(x, ast.Break) for b in st.body for x in ast.walk(b)):
            # search loop: `for ..: if P: return E` + rest   ->   `for ..: if P: ret = E; break` + `else: rest`
            lb = _loop_returns(list(st.body), ret)
            rest = _single_exit(list(stmts[i + 1:]), ret, depth + 1)
            if lb is None or rest is None:
                return None
            out.append(ast.For(target=st.target, iter=st.iter, body=lb, orelse=rest))
            return out
        if _has_return([st]):
            return None
        out.append(st)
    return out


def _loop_returns(stmts: List[ast.stmt], ret: str) -> Optional[List[ast.stmt]]:
    out: List[ast.stmt] = []
    for st in stmts:
        if isinstance(st, ast.Return):
            out.append(ast.Assign(targets=[ast.Name(id=ret, ctx=ast.Store())], value=st.value or ast.Constant(value=None)))
            out.append(ast.Break())
            return out
        if isinstance(st, ast.If) and _has_return([st]):
            b = _loop_returns(list(st.body), ret)
            o = _loop_returns(list(st.orelse), ret)
            if b is None or o is None:
                return None
            out.append(ast.If(test=st.test, body=b or [ast.Pass()], orelse=o))
            continue
        if _has_return([st]):
            return None
        out.append(st)
    return out


def _inlinable(h: FuncInfo, as_statement: bool) -> bool:
    n = h.node
    if not isinstance(n, ast.FunctionDef) or n.args.vararg or len(n.body) > 40:
        return False
    if n.args.kwarg is not None:
        # **options is fine when it is only passed on as **options to calls
        kw = n.args.kwarg.arg
        uses = [x for x in ast.walk(n) if isinstance(x, ast.Name) and x.id == kw]
        # ... or only read (`options.items()`): the call site's keywords stand for it as a dict display
        if any(not isinstance(x.ctx, ast.Load) for x in uses):
            return False
    if any(d for d in n.decorator_list if not (isinstance(d, ast.Name) and d.id in ('staticmethod', 'classmethod'))):
        return False
    for x in ast.walk(n):
        if x is not n and isinstance(x, (ast.FunctionDef, ast.AsyncFunctionDef, ast.ClassDef, ast.Yield, ast.YieldFrom, ast.Global, ast.Nonlocal)):
            return False
    rets = [x for x in ast.walk(n) if isinstance(x, ast.Return)]
    if not rets:
        return True
    if len(rets) == 1 and n.body and n.body[-1] is rets[0]:
        return True
    return _single_exit(copy.deepcopy(n.body), '_r') is not None


def _expr_form(idx: PyIndex, fi: FuncInfo, call: ast.Call, h: FuncInfo) -> Optional[ast.AST]:
    """The value of `call` as ONE expression, for helpers that are a chain of single-assignment locals followed by `return E`
    (usable where no statement can be hoisted: comprehension elements, lambdas, conditional operands)."""
    n = h.node
    if not isinstance(n, ast.FunctionDef) or n.args.vararg or n.args.kwarg:
        return None
    body = list(n.body)
    if body and isinstance(body[0], ast.Expr) and isinstance(body[0].value, ast.Constant) and isinstance(body[0].value.value, str):
        body = body[1:]
    params = [a.arg for a in n.args.args]
    skip_self = h.kind in ('method', 'classmethod') and isinstance(call.func, ast.Attribute)
    bound: Dict[str, ast.AST] = {}
    pos = params[1:] if skip_self else params
    if skip_self:
        bound[params[0]] = call.func.value
    if len(call.args) > len(pos) or any(isinstance(a, ast.Starred) for a in call.args) or any(k.arg is None for k in call.keywords):
        return None
    for p_, a in zip(pos, call.args):
        bound[p_] = a
    for kw in call.keywords:
        bound[kw.arg] = kw.value
    defaults = dict(zip(params[len(params) - len(n.args.defaults):], n.args.defaults))
    for p_ in params:
        if p_ not in bound:
            if p_ in defaults:
                bound[p_] = defaults[p_]
            else:
                return None
    # arguments are substituted textually: only side-effect-free, cheap argument expressions
    def cheap(v):
        if isinstance(v, ast.Subscript) and isinstance(v.slice, ast.Constant):
            return cheap(v.value)            # tok['name'], row[0]
        return isinstance(v, (ast.Name, ast.Constant)) or (isinstance(v, ast.Attribute) and _is_path(v))
    if not all(cheap(v) for v in bound.values()):
        # any other argument expression is fine for a parameter the helper reads exactly once, outside nested scopes (it is then evaluated once, as before)
        uses: Dict[str, int] = {}
        for x in ast.walk(n):
            if isinstance(x, ast.Name) and isinstance(x.ctx, ast.Load):
                uses[x.id] = uses.get(x.id, 0) + 1
        nested = {x.id for d in ast.walk(n) if isinstance(d, (ast.Lambda, ast.GeneratorExp, ast.ListComp, ast.SetComp, ast.DictComp)) or (d is not n and isinstance(d, ast.FunctionDef))
                  for x in ast.walk(d) if isinstance(x, ast.Name)}
        for p_, v in bound.items():
            if not cheap(v) and (uses.get(p_, 0) != 1 or p_ in nested or any(isinstance(x, (ast.NamedExpr, ast.Yield, ast.Await)) for x in ast.walk(v))):
                return None
    def conv(stmts, env, depth=0):
        if depth > 8:
            return None
        env = dict(env)
        for i, st in enumerate(stmts):
            if isinstance(st, ast.Assign) and len(st.targets) == 1 and isinstance(st.targets[0], ast.Name) and st.targets[0].id not in env:
                env[st.targets[0].id] = _SubstExpr(env).visit(copy.deepcopy(st.value))
                continue
            if isinstance(st, ast.Return) and st.value is not None:
                return _SubstExpr(env).visit(copy.deepcopy(st.value))
            if isinstance(st, ast.If):
                rest = list(stmts[i + 1:])
                a = conv(list(st.body) + rest, env, depth + 1)
                b = conv(list(st.orelse) + rest, env, depth + 1)
                if a is None or b is None:
                    return None
                return ast.IfExp(test=_SubstExpr(env).visit(copy.deepcopy(st.test)), body=a, orelse=b)
            return None
        return None
    def gen_display(stmts, env):
        """a generator function that only yields / yields from, statement after statement: what it produces, as the display `(*A, b, *C)`"""
        elts = []
        for st in stmts:
            if isinstance(st, ast.Expr) and isinstance(st.value, ast.YieldFrom):
                elts.append(ast.Starred(value=_SubstExpr(env).visit(copy.deepcopy(st.value.value)), ctx=ast.Load()))
            elif isinstance(st, ast.Expr) and isinstance(st.value, ast.Yield) and st.value.value is not None:
                elts.append(_SubstExpr(env).visit(copy.deepcopy(st.value.value)))
            elif isinstance(st, ast.For) and not st.orelse and isinstance(st.target, ast.Name) and st.target.id not in env and len(st.body) == 1 \
                    and isinstance(st.body[0], ast.Expr) and isinstance(st.body[0].value, ast.Yield) and st.body[0].value.value is not None:
                g = ast.GeneratorExp(elt=_SubstExpr(env).visit(copy.deepcopy(st.body[0].value.value)),
                                     generators=[ast.comprehension(target=copy.deepcopy(st.target), iter=_SubstExpr(env).visit(copy.deepcopy(st.iter)), ifs=[], is_async=0)])
                elts.append(ast.Starred(value=g, ctx=ast.Load()))
            elif isinstance(st, ast.For) and not st.orelse and isinstance(st.target, ast.Name) and st.target.id not in env and len(st.body) == 1 \
                    and isinstance(st.body[0], ast.If) and not st.body[0].orelse and len(st.body[0].body) == 1 and isinstance(st.body[0].body[0], ast.Expr) \
                    and isinstance(st.body[0].body[0].value, ast.Yield) and st.body[0].body[0].value.value is not None:
                # for x in E: if P(x): yield F(x)
                g = ast.GeneratorExp(elt=_SubstExpr(env).visit(copy.deepcopy(st.body[0].body[0].value.value)),
                                     generators=[ast.comprehension(target=copy.deepcopy(st.target), iter=_SubstExpr(env).visit(copy.deepcopy(st.iter)),
                                                                   ifs=[_SubstExpr(env).visit(copy.deepcopy(st.body[0].test))], is_async=0)])
                elts.append(ast.Starred(value=g, ctx=ast.Load()))
            else:
                return None
        if len(elts) == 1 and isinstance(elts[0], ast.Starred) and isinstance(elts[0].value, ast.GeneratorExp):
            return elts[0].value         # one loop: the generator function IS that generator expression
        return ast.Tuple(elts=elts, ctx=ast.Load()) if elts else None
    if any(isinstance(x, (ast.Yield, ast.YieldFrom)) for x in ast.walk(n)):
        e = gen_display(body, dict(bound))
    else:
        e = conv(body, dict(bound))
    if e is None:
        return None
    ast.fix_missing_locations(ast.Expression(body=e))
    if h.module != fi.module and h.module in idx.modules and fi.module in idx.modules:
        hs, cs = idx.modules[h.module].symbols, idx.modules[fi.module].symbols
        for x in ast.walk(e):
            if isinstance(x, ast.Name) and x.id in hs and x.id not in cs:
                cs[x.id] = hs[x.id]
    return e


def _is_path(e: ast.AST) -> bool:
    while isinstance(e, ast.Attribute):
        e = e.value
    return isinstance(e, ast.Name)


class _SubstExpr(ast.NodeTransformer):
    def __init__(self, m: Dict[str, ast.AST]):
        self.m = m

    def visit_Name(self, node):
        if isinstance(node.ctx, ast.Load) and node.id in self.m:
            return ast.copy_location(copy.deepcopy(self.m[node.id]), node)
        return node


class _Rename(ast.NodeTransformer):
    def __init__(self, m: Dict[str, str]):
        self.m = m

    def visit_Name(self, node):
        if node.id in self.m:
            node.id = self.m[node.id]
        return node


_touched_modules: set = set()


def _expand(idx: PyIndex, fi: FuncInfo, call: ast.Call, h: FuncInfo, at: ast.AST):
    """(statements, return expression or None) of helper h applied to the arguments of `call`."""
    _touched_modules.add(h.module)
    hn = copy.deepcopy(h.node)
    k = next(_n)
    params = [a.arg for a in hn.args.args]
    skip_self = h.kind in ('method', 'classmethod') and isinstance(call.func, ast.Attribute)
    locals_: set = set(params) | {a.arg for a in hn.args.kwonlyargs}
    for x in ast.walk(hn):
        if isinstance(x, ast.Name) and isinstance(x.ctx, (ast.Store, ast.Del)):
            locals_.add(x.id)
    ren = {nm: f'_h{k}_{nm}' for nm in locals_}
    binds: List[ast.stmt] = []
    defaults = dict(zip(params[len(params) - len(hn.args.defaults):], hn.args.defaults))
    bound: Dict[str, ast.AST] = {}
    pos = params[1:] if skip_self else params
    if skip_self:
        bound[params[0]] = call.func.value
    for p, a in zip(pos, call.args):
        if isinstance(a, ast.Starred):
            return None
        bound[p] = a
    extra_kw: List[ast.keyword] = []
    for kw in call.keywords:
        if kw.arg is None:
            return None
        if kw.arg in params or kw.arg in [a.arg for a in hn.args.kwonlyargs]:
            bound[kw.arg] = kw.value
        elif hn.args.kwarg is not None:
            extra_kw.append(kw)
        else:
            return None
    if hn.args.kwarg is not None:
        # `**options` in the helper's own calls becomes the keywords given at this call site
        kwname = hn.args.kwarg.arg
        for c in ast.walk(hn):
            if isinstance(c, ast.Call):
                newk = []
                for k in c.keywords:
                    if k.arg is None and isinstance(k.value, ast.Name) and k.value.id == kwname:
                        newk.extend(copy.deepcopy(extra_kw))
                    else:
                        newk.append(k)
                c.keywords = newk
        # any other read of `options` (options.items(), options.get('x')): the dict of the keywords given here, in place
        if any(isinstance(x, ast.Name) and x.id == kwname and isinstance(x.ctx, ast.Load) for x in ast.walk(hn)):
            kwdict = ast.Dict(keys=[ast.Constant(value=k_.arg) for k_ in extra_kw], values=[copy.deepcopy(k_.value) for k_ in extra_kw])

            class _KwDict(ast.NodeTransformer):
                def visit_Name(self, n):
                    if n.id == kwname and isinstance(n.ctx, ast.Load):
                        return ast.copy_location(copy.deepcopy(kwdict), n)
                    return n
            hn = _KwDict().visit(hn)
            ast.fix_missing_locations(hn)
    stored = {x.id for x in ast.walk(hn) if isinstance(x, ast.Name) and isinstance(x.ctx, (ast.Store, ast.Del))}
    direct: Dict[str, ast.AST] = {}
    for p in params + [a.arg for a in hn.args.kwonlyargs]:
        v = bound.get(p, defaults.get(p))
        if v is None:
            kd = dict(zip([a.arg for a in hn.args.kwonlyargs], hn.args.kw_defaults))
            v = kd.get(p)
        if v is None:
            return None
        # an argument that is a plain name / attribute path / constant is substituted directly (no alias), unless the helper rebinds the parameter
        simple = isinstance(v, (ast.Name, ast.Constant)) or (isinstance(v, ast.Attribute) and _is_path(v))
        if not simple and isinstance(v, (ast.Tuple, ast.List)) and all(isinstance(c.value if isinstance(c, ast.Starred) else c, (ast.Name, ast.Constant))
                                                                      or (isinstance(c.value if isinstance(c, ast.Starred) else c, ast.Attribute)
                                                                          and _is_path(c.value if isinstance(c, ast.Starred) else c)) for c in v.elts):
            # a display of plain values is read in place when the helper uses the parameter once
            simple = sum(1 for x in ast.walk(hn) if isinstance(x, ast.Name) and x.id == p and isinstance(x.ctx, ast.Load)) == 1
        if p not in stored and simple:
            direct[p] = v
            ren.pop(p, None)
            continue
        st = ast.Assign(targets=[ast.Name(id=ren[p], ctx=ast.Store())], value=copy.deepcopy(v))
        binds.append(st)
    # module-level names the helper body uses must mean the same thing at the call site: make them visible in the caller's module
    if h.module != fi.module and h.module in idx.modules and fi.module in idx.modules:
        hs, cs = idx.modules[h.module].symbols, idx.modules[fi.module].symbols
        for x in ast.walk(hn):
            if isinstance(x, ast.Name) and isinstance(x.ctx, ast.Load) and x.id not in locals_ and x.id in hs:
                rh = idx.resolve(h.module, x.id)
                if x.id not in cs:
                    cs[x.id] = hs[x.id]
                else:
                    rc = idx.resolve(fi.module, x.id)
                    same = rh is not None and rc is not None and (rh.kind, rh.module, rh.name, rh.target_mod, rh.target_name) == \
                        (rc.kind, rc.module, rc.name, rc.target_mod, rc.target_name)
                    if not same and rh is not None and rc is not None and rh.kind == rc.kind and rh.target_mod and (rh.target_mod, rh.target_name) == (rc.target_mod, rc.target_name):
                        same = True         # both modules import the same thing (`from pathlib import Path` twice)
                    if not same:
                        import zlib
                        alias = f'_m{zlib.crc32(h.module.encode()) % 9973}_{x.id}'
                        cs.setdefault(alias, hs[x.id])
                        x.id = alias
    body = [_Rename(ren).visit(s) for s in hn.body]
    if direct:
        body = [_SubstExpr(direct).visit(s) for s in body]
    # drop the docstring
    if body and isinstance(body[0], ast.Expr) and isinstance(body[0].value, ast.Constant) and isinstance(body[0].value.value, str):
        body = body[1:]
    ret = None
    n_rets = sum(isinstance(x, ast.Return) for s_ in body for x in ast.walk(s_))
    if n_rets == 1 and body and isinstance(body[-1], ast.Return):
        ret = body[-1].value
        body = body[:-1]
    elif n_rets:
        rv = f'_h{k}_ret'
        body2 = _single_exit(body, rv)
        if body2 is None:
            return None
        body = body2
        ret = ast.Name(id=rv, ctx=ast.Load())
    out = binds + body
    for s in out:
        for x in ast.walk(s):
            ast.copy_location(x, at)
    return out, ret


class _Fold(ast.NodeTransformer):
    """After substituting constant arguments/defaults: tests between constants are decided and the dead arm is dropped."""
    @staticmethod
    def _const(e):
        if isinstance(e, ast.Constant):
            return True, e.value
        if isinstance(e, ast.Tuple) and all(isinstance(x, ast.Constant) for x in e.elts):
            return True, tuple(x.value for x in e.elts)
        return False, None

    def __init__(self, idx=None, exact: Optional[Dict[str, str]] = None):
        self.idx = idx
        self.exact = exact or {}

    def _truth(self, t):
        if isinstance(t, ast.Constant):
            return bool(t.value)
        if isinstance(t, ast.Call) and isinstance(t.func, ast.Name) and t.func.id == 'isinstance' and len(t.args) == 2 and isinstance(t.args[0], ast.Name) \
                and t.args[0].id in self.exact and self.idx is not None:
            names = {c.name for c in self.idx.mro(self.exact[t.args[0].id])}
            cs = t.args[1].elts if isinstance(t.args[1], (ast.Tuple, ast.List)) else [t.args[1]]
            if all(isinstance(c, (ast.Name, ast.Attribute)) for c in cs):
                wanted = {c.id if isinstance(c, ast.Name) else c.attr for c in cs}
                known = {c.name for c in self.idx.classes.values()}
                if wanted <= known:
                    return bool(wanted & names)
        if isinstance(t, ast.UnaryOp) and isinstance(t.op, ast.Not):
            v = self._truth(t.operand)
            return None if v is None else (not v)
        if isinstance(t, ast.BoolOp):
            vs = [self._truth(x) for x in t.values]
            if isinstance(t.op, ast.And):
                # operands are evaluated left to right: a false operand decides once everything before it is known (no side effect is skipped that was not skipped before)
                for k_, v_ in enumerate(vs):
                    if v_ is False and all(x is not None for x in vs[:k_]):
                        return False
                    if v_ is None:
                        break
                if all(v_ is True for v_ in vs):
                    return True
            else:
                for k_, v_ in enumerate(vs):
                    if v_ is True and all(x is not None for x in vs[:k_]):
                        return True
                    if v_ is None:
                        break
                if all(v_ is False for v_ in vs):
                    return False
            return None
        if isinstance(t, ast.Compare) and len(t.ops) == 1:
            ok1, a = self._const(t.left)
            ok2, b = self._const(t.comparators[0])
            if ok1 and ok2:
                op = t.ops[0]
                try:
                    if isinstance(op, ast.Eq):
                        return a == b
                    if isinstance(op, ast.NotEq):
                        return a != b
                    if isinstance(op, ast.In):
                        return a in b
                    if isinstance(op, ast.NotIn):
                        return a not in b
                    if isinstance(op, ast.Is):
                        return a is b if (a is None or b is None or isinstance(a, bool)) else None
                    if isinstance(op, ast.IsNot):
                        return a is not b if (a is None or b is None or isinstance(a, bool)) else None
                except TypeError:
                    return None
        return None

    def visit_IfExp(self, node):
        self.generic_visit(node)
        v = self._truth(node.test)
        if v is None:
            return node
        return node.body if v else node.orelse

    def _drop_known(self, t):
        """`True and X` -> X, `X or False` -> X: operands whose value is known and neutral leave the test"""
        if isinstance(t, ast.BoolOp):
            neutral = isinstance(t.op, ast.And)
            vals = [self._drop_known(x) for x in t.values]
            vals = [x for x in vals if self._truth(x) is not neutral]
            if not vals:
                return ast.copy_location(ast.Constant(value=neutral), t)
            return vals[0] if len(vals) == 1 else ast.copy_location(ast.BoolOp(op=t.op, values=vals), t)
        return t

    def visit_If(self, node):
        self.generic_visit(node)
        v = self._truth(node.test)
        if v is None:
            node.test = self._drop_known(node.test)
            return node
        keep_ = node.body if v else node.orelse
        return keep_ or ast.copy_location(ast.Pass(), node)


def inline_function(idx: PyIndex, fi: FuncInfo, depth: int = 2, keep=None, types: Optional[Dict[str, str]] = None) -> ast.FunctionDef:
    """Deep copy of fi.node with helper calls inlined (`depth` rounds); helpers whose name is in `keep` stay calls.
    With `types` (variable -> class id, taken as exact) the function is SPECIALISED: methods called on typed variables (and on loop variables over their declared
    collections) are resolved through the class and inlined, and isinstance tests on the typed variables are decided."""
    keep = set(keep or ())
    fn = copy.deepcopy(fi.node)
    if not isinstance(fn, ast.FunctionDef):
        return fn
    _touched_modules.clear()
    exact = dict(types or {})
    if exact:
        folded0 = _Fold(idx, exact).visit(fn)
        if isinstance(folded0, ast.FunctionDef) and folded0.body:
            fn = folded0
    changed_any = False
    for _ in range(depth):
        changed = False
        tenv = type_env(idx, fi, fn, exact) if types is not None else None
        if tenv is None:
            # without given types only the plainest fact is used: a local bound once to the constructor of a small helper class (`__init__` stores its parameters)
            n_st: Dict[str, int] = {}
            for x_ in ast.walk(fn):
                if isinstance(x_, ast.Name) and isinstance(x_.ctx, ast.Store):
                    n_st[x_.id] = n_st.get(x_.id, 0) + 1
            helper_locals = {}
            for x_ in ast.walk(fn):
                if isinstance(x_, ast.Assign) and len(x_.targets) == 1 and isinstance(x_.targets[0], ast.Name) and n_st.get(x_.targets[0].id) == 1 \
                        and isinstance(x_.value, ast.Call) and isinstance(x_.value.func, (ast.Name, ast.Attribute)):
                    ci_ = None
                    for mn_ in [fi.module] + sorted(_touched_modules):
                        if mn_ in idx.modules:
                            ci_ = idx.class_of(mn_, x_.value.func)
                            if ci_ is not None:
                                break
                    if ci_ is not None and _plain_init_fields(idx, ci_) is not None:
                        helper_locals[x_.targets[0].id] = ci_.id
            tenv = helper_locals or None

        def hoist_test_call(st: ast.If) -> Optional[List[ast.stmt]]:
            """`if h(..) is not None: X` with a helper that needs statements (a search loop): the call is evaluated first and unconditionally, so it can be
            bound to a local just before the `if` (and expanded there).  `if A and h(..): X` without an else is first nested as `if A: if h(..): X`."""
            t = st.test
            if isinstance(t, ast.BoolOp) and isinstance(t.op, ast.And) and not st.orelse and len(t.values) >= 2:
                for k_, v_ in enumerate(t.values[1:], start=1):
                    if slot_of(v_) is not None:
                        head = t.values[0] if k_ == 1 else ast.BoolOp(op=ast.And(), values=t.values[:k_])
                        rest = t.values[k_] if k_ == len(t.values) - 1 else ast.BoolOp(op=ast.And(), values=t.values[k_:])
                        inner = ast.copy_location(ast.If(test=rest, body=st.body, orelse=[]), st)
                        outer = ast.copy_location(ast.If(test=head, body=[inner], orelse=[]), st)
                        ast.fix_missing_locations(outer)
                        return [outer]
                return None
            slot = slot_of(t)
            if slot is None:
                return None
            holder, fld, call = slot
            tmp = f'_t{next(_n)}'
            pre = ast.copy_location(ast.Assign(targets=[ast.Name(id=tmp, ctx=ast.Store())], value=call), st)
            repl = ast.copy_location(ast.Name(id=tmp, ctx=ast.Load()), call)
            if holder is None:
                st.test = repl
            else:
                setattr(holder, fld, repl)
            ast.fix_missing_locations(pre)
            return [pre, st]

        def expand_context_manager(st: ast.With) -> Optional[List[ast.stmt]]:
            """`with cm(args): BODY` for a @contextmanager generator of the package with exactly one statement-level `yield`: the generator's body with BODY in the
            place of the yield (the usual shape: `try: yield` + `except E: raise Other(...)`)."""
            call5 = st.items[0].context_expr
            h6 = _helper_for0(idx, fi, call5, tenv)
            if h6 is None or not isinstance(h6.node, ast.FunctionDef) or h6.qualname.split('.')[-1] in keep:
                return None
            decs = [d.id if isinstance(d, ast.Name) else (d.attr if isinstance(d, ast.Attribute) else '') for d in h6.node.decorator_list]
            if 'contextmanager' not in decs:
                return None
            yields = [x for x in ast.walk(h6.node) if isinstance(x, (ast.Yield, ast.YieldFrom))]
            if len(yields) != 1 or not isinstance(yields[0], ast.Yield) or yields[0].value is not None:
                return None
            params6 = [a.arg for a in h6.node.args.args]
            if len(call5.args) != len(params6) or call5.keywords or h6.node.args.vararg or h6.node.args.kwarg or any(isinstance(a, ast.Starred) for a in call5.args):
                return None
            if not all(isinstance(a, (ast.Name, ast.Constant)) or (isinstance(a, ast.Attribute) and _is_path(a)) for a in call5.args):
                return None
            gen = copy.deepcopy(h6.node)
            sub6 = _SubstExpr(dict(zip(params6, call5.args)))
            placed = [False]

            class _Place(ast.NodeTransformer):
                def visit_Expr(self_, n):
                    if isinstance(n.value, ast.Yield):
                        placed[0] = True
                        return list(st.body)
                    return n
            body6 = [b_ for b_ in gen.body if not (isinstance(b_, ast.Expr) and isinstance(b_.value, ast.Constant))]
            body6 = [sub6.visit(b_) for b_ in body6]
            out6: List[ast.stmt] = []
            for b_ in body6:
                r_ = _Place().visit(b_)
                out6.extend(r_ if isinstance(r_, list) else [r_])
            if not placed[0]:
                return None
            _touched_modules.add(h6.module)
            for b_ in out6:
                ast.fix_missing_locations(b_)
            return out6

        def slot_of(t):
            """(holder, field, call) of the helper call a test evaluates first - when that helper needs statements"""
            holder = fld = None
            c = t
            if isinstance(c, ast.UnaryOp) and isinstance(c.op, ast.Not):
                holder, fld, c = c, 'operand', c.operand
            if isinstance(c, ast.Compare):
                holder, fld, c = c, 'left', c.left
            if not isinstance(c, ast.Call):
                return None
            h5 = _helper_for(idx, fi, c, tenv)
            if isinstance(h5, _GenRef) or h5 is None or h5.id == fi.id or h5.qualname.split('.')[-1] in keep:
                return None
            if _expr_form(idx, fi, c, h5) is not None or not _inlinable(h5, False):
                return None
            return holder, fld, c

        def do_body(body: List[ast.stmt]) -> List[ast.stmt]:
            nonlocal changed
            out: List[ast.stmt] = []
            work = list(body)
            while work:
                st = work.pop(0)
                if isinstance(st, ast.If):
                    hoisted = hoist_test_call(st)
                    if hoisted is not None:
                        changed = True
                        work[0:0] = hoisted
                        continue
                if isinstance(st, ast.With) and len(st.items) == 1 and st.items[0].optional_vars is None and isinstance(st.items[0].context_expr, ast.Call):
                    opened = expand_context_manager(st)
                    if opened is not None:
                        changed = True
                        work[0:0] = opened
                        continue
                for fld in ('body', 'orelse', 'finalbody'):
                    b = getattr(st, fld, None)
                    if isinstance(b, list) and b and isinstance(b[0], ast.stmt):
                        setattr(st, fld, do_body(b))
                for hd in getattr(st, 'handlers', []) or []:
                    hd.body = do_body(hd.body)
                # L = [h(x) for x in IT] with a helper that needs statements (a raise, a search loop)  ->  L = [] ; for x in IT: L.append(h(x))
                if isinstance(st, (ast.Assign, ast.AnnAssign)) and isinstance(getattr(st, 'value', None), ast.ListComp) and len(st.value.generators) == 1 \
                        and not st.value.generators[0].is_async and isinstance(st.targets[0] if isinstance(st, ast.Assign) else st.target, ast.Name):
                    lc = st.value
                    g0 = lc.generators[0]
                    needs_stmts = False
                    for c0 in ast.walk(lc.elt):
                        if isinstance(c0, ast.Call):
                            h0 = _helper_for(idx, fi, c0, tenv)
                            if h0 is not None and h0.id != fi.id and h0.qualname.split('.')[-1] not in keep and _inlinable(h0, False) and _expr_form(idx, fi, c0, h0) is None:
                                needs_stmts = True
                    if needs_stmts:
                        tgt = st.targets[0] if isinstance(st, ast.Assign) else st.target
                        init = ast.Assign(targets=[ast.Name(id=tgt.id, ctx=ast.Store())], value=ast.List(elts=[], ctx=ast.Load()))
                        app = ast.Expr(value=ast.Call(func=ast.Attribute(value=ast.Name(id=tgt.id, ctx=ast.Load()), attr='append', ctx=ast.Load()), args=[lc.elt], keywords=[]))
                        inner: List[ast.stmt] = [app]
                        for cnd in reversed(g0.ifs):
                            inner = [ast.If(test=cnd, body=inner, orelse=[])]
                        loop = ast.For(target=g0.target, iter=g0.iter, body=inner, orelse=[])
                        for nd in (init, loop):
                            for x in ast.walk(nd):
                                ast.copy_location(x, st)
                        ast.fix_missing_locations(loop)
                        out.append(init)
                        loop.body = do_body(loop.body)
                        out.append(loop)
                        changed = True
                        continue
                if isinstance(st, (ast.If, ast.While)):
                    class _TestOnly(ast.NodeTransformer):
                        def visit_Lambda(self, node):
                            return node

                        def visit_Call(self, node):
                            self.generic_visit(node)
                            h4 = _helper_for(idx, fi, node, tenv)
                            if h4 is not None and h4.id != fi.id and h4.qualname.split('.')[-1] not in keep:
                                e4 = _expr_form(idx, fi, node, h4)
                                if e4 is not None:
                                    nonlocal changed
                                    changed = True
                                    for x in ast.walk(e4):
                                        ast.copy_location(x, node)
                                    return e4
                            return node
                    st.test = _TestOnly().visit(st.test)
                call = None
                kind = None
                if isinstance(st, ast.Expr) and isinstance(st.value, ast.Call):
                    call, kind = st.value, 'stmt'
                elif isinstance(st, ast.Assign) and isinstance(st.value, ast.Call):
                    call, kind = st.value, 'assign'
                elif isinstance(st, ast.Return) and isinstance(st.value, ast.Call):
                    call, kind = st.value, 'return'
                if call is not None:
                    h = _helper_for(idx, fi, call, tenv)
                    if isinstance(h, _GenRef):
                        h = h.list_view if _expr_form(idx, fi, call, h) is None else None       # (the expression reading is applied by the nested pass below)
                    if h is not None and h.id != fi.id and h.qualname.split('.')[-1] not in keep and _inlinable(h, kind == 'stmt'):
                        ex = _expand(idx, fi, call, h, st)
                        if ex is not None:
                            stmts, ret = ex
                            if kind == 'stmt':
                                out.extend(stmts)
                                changed = True
                                continue
                            if ret is not None:
                                if kind == 'assign' and isinstance(ret, ast.Name) and ret.id.endswith('_ret') and ret.id.startswith('_h'):
                                    # the helper's exits assign the caller's target directly (`a, b = E` on each exit instead of `r = E` ... `a, b = r`)
                                    occ = [x for s_ in stmts for x in ast.walk(s_) if isinstance(x, ast.Name) and x.id == ret.id]
                                    asg = [x for s_ in stmts for x in ast.walk(s_) if isinstance(x, ast.Assign) and len(x.targets) == 1 and isinstance(x.targets[0], ast.Name)
                                           and x.targets[0].id == ret.id]
                                    tnames = {x.id for t in st.targets for x in ast.walk(t) if isinstance(x, ast.Name)}
                                    clash = any(isinstance(x, ast.Name) and x.id in tnames for a_ in asg for x in ast.walk(a_.value)) and len(asg) > 1
                                    if asg and len(occ) == len(asg) and not clash:
                                        for a_ in asg:
                                            a_.targets = copy.deepcopy(st.targets)
                                        out.extend(stmts)
                                        changed = True
                                        continue
                                out.extend(stmts)
                                if kind == 'assign':
                                    out.append(ast.copy_location(ast.Assign(targets=st.targets, value=ret), st))
                                else:
                                    out.append(ast.copy_location(ast.Return(value=ret), st))
                                changed = True
                                continue
                # helper calls nested in the statement's own expression (not under a lambda / comprehension / conditional operand)
                if isinstance(st, (ast.Assign, ast.AugAssign, ast.Expr, ast.Return, ast.AnnAssign)) and getattr(st, 'value', None) is not None:
                    pre: List[ast.stmt] = []

                    class _ExprOnly(ast.NodeTransformer):
                        """Inside comprehensions: helper calls that reduce to one expression are replaced by it."""
                        def visit_Lambda(self, node):
                            return node

                        def visit_Call(self, node):
                            self.generic_visit(node)
                            h3 = _helper_for(idx, fi, node, tenv)
                            if h3 is not None and h3.id != fi.id and h3.qualname.split('.')[-1] not in keep:
                                e3 = _expr_form(idx, fi, node, h3)
                                if e3 is not None:
                                    nonlocal changed
                                    changed = True
                                    for x in ast.walk(e3):
                                        ast.copy_location(x, node)
                                    return e3
                            return node

                    class _Nested(ast.NodeTransformer):
                        def visit_Lambda(self, node):
                            return node

                        def visit_IfExp(self, node):
                            node.test = self.visit(node.test)
                            # the arms are evaluated conditionally: only helpers that reduce to one expression are replaced there
                            node.body = _ExprOnly().visit(node.body)
                            node.orelse = _ExprOnly().visit(node.orelse)
                            return node

                        def visit_BoolOp(self, node):
                            node.values[0] = self.visit(node.values[0])
                            node.values[1:] = [_ExprOnly().visit(v) for v in node.values[1:]]
                            return node

                        def _comp(self, node):
                            node.generators[0].iter = self.visit(node.generators[0].iter)
                            return _ExprOnly().visit(node)
                        visit_ListComp = visit_SetComp = visit_GeneratorExp = visit_DictComp = _comp

                        def visit_Call(self, node):
                            self.generic_visit(node)
                            if node is call:
                                return node
                            h2 = _helper_for(idx, fi, node, tenv)
                            nonlocal changed
                            if h2 is not None and h2.id != fi.id and h2.qualname.split('.')[-1] not in keep and _inlinable(h2, False):
                                ex2 = _expand(idx, fi, node, h2, st)
                                if ex2 is not None and ex2[1] is not None:
                                    pre.extend(ex2[0])
                                    changed = True
                                    return ast.copy_location(copy.deepcopy(ex2[1]), node)
                            elif h2 is not None and h2.id != fi.id and h2.qualname.split('.')[-1] not in keep and isinstance(h2.node, ast.FunctionDef) \
                                    and any(isinstance(x, (ast.Yield, ast.YieldFrom)) for x in ast.walk(h2.node)):
                                # a generator function: usable where it reduces to the display / generator expression it produces
                                ex3 = _expr_form(idx, fi, node, h2)
                                if ex3 is not None:
                                    _touched_modules.add(h2.module)
                                    changed = True
                                    return ast.copy_location(ex3, node)
                                lv = getattr(h2, 'list_view', None)
                                if lv is not None and _inlinable(lv, False):
                                    ex4 = _expand(idx, fi, node, lv, st)
                                    if ex4 is not None and ex4[1] is not None:
                                        pre.extend(ex4[0])
                                        changed = True
                                        return ast.copy_location(copy.deepcopy(ex4[1]), node)
                            return node
                    st.value = _Nested().visit(st.value)
                    out.extend(pre)
                out.append(st)
            return out
        fn.body = do_body(fn.body)
        changed_any = changed_any or changed
        if not changed:
            break
    ast.fix_missing_locations(fn)
    # apply the canonical forms again (helper bodies were already canonical, but idioms may now span the seam)
    from .normalise import Canon, _Subst, _pure_cell

    class _CallableCells(ast.NodeTransformer):
        """NAME(args) where NAME is a module-level name bound once to a pure accessor (attrgetter('x'), itemgetter(0), methodcaller('m'), a lambda): the accessor stands
        in the call, and the canonical forms below apply it."""
        def visit_Call(self, node):
            self.generic_visit(node)
            if isinstance(node.func, ast.Name):
                for mn in [fi.module] + sorted(_touched_modules):
                    sym = idx.resolve(mn, node.func.id) if mn in idx.modules else None
                    if sym is not None and sym.kind == 'assign' and isinstance(sym.node, (ast.Call, ast.Lambda)) and _pure_cell(sym.node) \
                            and not any(isinstance(x, ast.Name) and isinstance(x.ctx, ast.Store) and x.id == node.func.id for x in ast.walk(fn)):
                        node.func = copy.deepcopy(sym.node)
                        break
            return node
    fn = _CallableCells().visit(fn)
    # a name that resolves (through imports) to a module-level string literal is read as the literal: `TEMPLATE.format(..)` with TEMPLATE imported from a sibling module
    local_names = {x.id for x in ast.walk(fn) if isinstance(x, ast.Name) and isinstance(x.ctx, (ast.Store, ast.Del))} | {a.arg for a in fn.args.args + fn.args.kwonlyargs}

    class _ImportedStrings(ast.NodeTransformer):
        def visit_Attribute(self, node):
            self.generic_visit(node)
            if node.attr in ('format', 'join', 'format_map') and isinstance(node.value, ast.Name) and node.value.id not in local_names:
                for mn in [fi.module] + sorted(_touched_modules):
                    sym = idx.resolve(mn, node.value.id) if mn in idx.modules else None
                    if sym is not None and sym.kind == 'assign' and isinstance(sym.node, ast.Constant) and isinstance(sym.node.value, str):
                        defs = [st_ for st_ in idx.modules[sym.module].tree.body if isinstance(st_, ast.Assign) and any(isinstance(t_, ast.Name) and t_.id == sym.name
                                                                                                                     for t_ in st_.targets)]
                        if len(defs) == 1:
                            node.value = ast.copy_location(ast.Constant(value=sym.node.value), node.value)
                            break
            return node
    fn = _ImportedStrings().visit(fn)
    ast.fix_missing_locations(fn)
    # v = Record(a, b) (a NamedTuple / plain dataclass of the package, v bound once): `v.field` is the argument that was passed for it
    rec_locals: Dict[str, Dict[str, ast.AST]] = {}
    n_store: Dict[str, int] = {}
    for x in ast.walk(fn):
        if isinstance(x, ast.Name) and isinstance(x.ctx, (ast.Store, ast.Del)):
            n_store[x.id] = n_store.get(x.id, 0) + 1
    for x in ast.walk(fn):
        if isinstance(x, ast.Assign) and len(x.targets) == 1 and isinstance(x.targets[0], ast.Name) and n_store.get(x.targets[0].id) == 1 and isinstance(x.value, ast.Call) \
                and isinstance(x.value.func, (ast.Name, ast.Attribute)) and not any(isinstance(a, ast.Starred) for a in x.value.args) \
                and all(k.arg is not None for k in x.value.keywords):
            ci = None
            for mn in [fi.module] + sorted(_touched_modules):
                if mn in idx.modules:
                    ci = idx.class_of(mn, x.value.func)
                    if ci is not None:
                        break
            if ci is None:
                continue
            is_record = any((isinstance(b, ast.Name) and b.id == 'NamedTuple') or (isinstance(b, ast.Attribute) and b.attr == 'NamedTuple') for b in ci.node.bases) or (
                any((isinstance(d, ast.Name) and d.id == 'dataclass') or (isinstance(d, ast.Call) and getattr(d.func, 'id', '') == 'dataclass') for d in ci.node.decorator_list)
                and not any(m_ in ci.methods for m_ in ('__init__', '__post_init__', '__setattr__', '__getattr__')))
            fields = [st_.target.id for st_ in ci.node.body if isinstance(st_, ast.AnnAssign) and isinstance(st_.target, ast.Name)]
            plain = _plain_init_fields(idx, ci)
            if not is_record and plain is not None:
                is_record, fields = True, plain         # `__init__` only stores its parameters
            if not is_record or not fields or len(x.value.args) > len(fields) or any(f_ in ci.methods or f_ in ci.props for f_ in fields):
                continue
            vals = dict(zip(fields, x.value.args))
            vals.update({k.arg: k.value for k in x.value.keywords if k.arg in fields})

            def cheap_(e):
                if isinstance(e, ast.Subscript):
                    return cheap_(e.value) and all(isinstance(y, (ast.Name, ast.Constant, ast.Slice, ast.Load)) for y in ast.walk(e.slice))
                return isinstance(e, (ast.Name, ast.Constant)) or (isinstance(e, ast.Attribute) and _is_path(e))
            if all(cheap_(v_) for v_ in vals.values()):
                rec_locals[x.targets[0].id] = vals
    if rec_locals:
        class _Fields(ast.NodeTransformer):
            def visit_Attribute(self, node):
                self.generic_visit(node)
                if isinstance(node.ctx, ast.Load) and isinstance(node.value, ast.Name) and node.value.id in rec_locals and node.attr in rec_locals[node.value.id]:
                    return ast.copy_location(copy.deepcopy(rec_locals[node.value.id][node.attr]), node)
                return node
        fn = _Fields().visit(fn)
        left = {x.id for x in ast.walk(fn) if isinstance(x, ast.Name) and isinstance(x.ctx, ast.Load)}

        class _DropRec(ast.NodeTransformer):
            def visit_Assign(self, node):
                if len(node.targets) == 1 and isinstance(node.targets[0], ast.Name) and node.targets[0].id in rec_locals and node.targets[0].id not in left:
                    return None
                return node
        fn = _DropRec().visit(fn)
        ast.fix_missing_locations(fn)
    fn = _Subst({}).visit(fn)           # getattr(x, 'const') -> x.const, applied lambdas
    if fn.body and any(isinstance(x, (ast.If, ast.IfExp)) for x in ast.walk(fn)):
        folded = _Fold(idx, exact).visit(fn)
        if isinstance(folded, ast.FunctionDef) and folded.body:
            fn = folded
    fn = Canon().visit(fn)
    ast.fix_missing_locations(fn)
    fn._inlined_any = changed_any
    if changed_any:
        # idioms that only appear once the helper body stands in place (a loop over the one-element tuple that was an argument, a flag now tested next to its definition)
        from .normalise import desugar, _literal_table, _dict_rows
        try:
            # the literal tables of the modules the code came from (its own module and the helpers' modules) are in scope for the desugaring
            pre: List[ast.stmt] = []
            seen_t = set()
            for mod_ in [idx.modules.get(fi.module)] + [idx.modules.get(mn) for mn in sorted(_touched_modules)]:
                if mod_ is None:
                    continue
                for st0 in mod_.tree.body:
                    tgt0 = st0.targets[0] if isinstance(st0, ast.Assign) and len(st0.targets) == 1 else (st0.target if isinstance(st0, ast.AnnAssign) else None)
                    val0 = getattr(st0, 'value', None)
                    if isinstance(tgt0, ast.Name) and val0 is not None and tgt0.id not in seen_t and (_literal_table(val0) is not None or _dict_rows(val0) is not None):
                        seen_t.add(tgt0.id)
                        pre.append(ast.Assign(targets=[ast.Name(id=tgt0.id, ctx=ast.Store())], value=copy.deepcopy(val0), lineno=1, col_offset=0))
            # the local-name canonical forms as well (a helper's parameter bound to `tok['x']`, a flag now next to its test); repeated while something changes,
            # because one rewrite feeds another (a dispatch dict unrolled into branches, then the call moved into them)
            from .normalise import split_live_ranges, alias_paths, alias_paths_nested, inline_test_locals
            comp = getattr(idx, 'computed_attrs', frozenset())
            m = ast.Module(body=pre + [fn], type_ignores=[])
            prev_dump = None
            for _round in range(4):
                m = desugar(m)
                ast.fix_missing_locations(m)
                m = inline_test_locals(alias_paths_nested(split_live_ranges(m), comp))      # (not the `a.b = v` aliasing of alias_paths: rules name the local they follow)
                cur_dump = ast.dump(m.body[-1]) if m.body else ''
                if cur_dump == prev_dump:
                    break
                prev_dump = cur_dump
            if m.body and isinstance(m.body[-1], ast.FunctionDef):
                fn = Canon().visit(m.body[-1])
                if exact and any(isinstance(x, (ast.If, ast.IfExp)) for x in ast.walk(fn)):
                    folded2 = _Fold(idx, exact).visit(fn)          # dispatch tables unrolled by the desugaring: their tests are decided by the given types
                    if isinstance(folded2, ast.FunctionDef) and folded2.body:
                        fn = folded2
                    fn = _const_locals(fn)
                ast.fix_missing_locations(fn)
                fn._inlined_any = True
        except RecursionError:      # pragma: no cover
            pass
    return fn


def inline_fragments(idx: PyIndex, fi: FuncInfo, keep=None, depth: int = 2) -> FuncInfo:
    """A copy of fi in which calls of helpers that reduce to ONE expression (a chain of single assignments and a return, if/else returns as a conditional
    expression) are replaced by that expression wherever they stand (also inside comprehensions and conditional operands); everything else is left alone.
    Returns fi itself when nothing was replaced."""
    keep = set(keep or ())
    if not isinstance(fi.node, ast.FunctionDef):
        return fi
    fn = copy.deepcopy(fi.node)
    any_change = [False]

    class _X(ast.NodeTransformer):
        def visit_Lambda(self, node):
            return node

        def visit_Call(self, node):
            self.generic_visit(node)
            h = _helper_for(idx, fi, node, None)
            if h is not None and h.id != fi.id and h.qualname.split('.')[-1] not in keep:
                e = _expr_form(idx, fi, node, h)
                if e is not None:
                    any_change[0] = True
                    for x in ast.walk(e):
                        ast.copy_location(x, node)
                    return e
            return node
    for _ in range(depth):
        before = any_change[0]
        any_change[0] = False
        fn = _X().visit(fn)
        now = any_change[0]
        any_change[0] = before or now
        if not now:
            break
    if not any_change[0]:
        return fi
    ast.fix_missing_locations(fn)
    from .normalise import Canon
    folded = _Fold(idx, {}).visit(fn)           # constant arguments decide the helper's own tests
    if isinstance(folded, ast.FunctionDef) and folded.body:
        fn = folded
    fn = Canon().visit(fn)
    fn = _SimplifyIfExp().visit(fn)
    fn = _HoistIfExp().visit(fn)                # P + (A if T else B)  ->  (P + A) if T else (P + B): each alternative is one text again
    fn = _SimplifyIfExp().visit(fn)
    fn = Canon().visit(fn)
    ast.fix_missing_locations(fn)
    return FuncInfo(fi.module, fi.qualname, fn, fi.cls, fi.kind)


def _const_locals(fn: ast.FunctionDef) -> ast.FunctionDef:
    """A local bound exactly once, at the top level of the function body, to a string constant is read as that constant afterwards (`name = 'add_table'` ...
    `getattr(self, name)` -> `self.add_table`)."""
    stores: Dict[str, int] = {}
    for x in ast.walk(fn):
        if isinstance(x, ast.Name) and isinstance(x.ctx, (ast.Store, ast.Del)):
            stores[x.id] = stores.get(x.id, 0) + 1
    consts: Dict[str, ast.AST] = {}
    for st in fn.body:
        if isinstance(st, ast.Assign) and len(st.targets) == 1 and isinstance(st.targets[0], ast.Name) and isinstance(st.value, ast.Constant) \
                and isinstance(st.value.value, str) and stores.get(st.targets[0].id) == 1:
            consts[st.targets[0].id] = st.value
    if not consts:
        return fn
    from .normalise import _Subst
    out = _Subst(consts).visit(fn)
    ast.fix_missing_locations(out)
    return out


class _Assume(ast.NodeTransformer):
    """Rewrite an expression under the assumption that the (side-effect free) test `src` comes out as `outcome`: conditional expressions on the same test
    take their arm, conjunctions / disjunctions in TESTS that contain it are simplified.  `src=None`: only fold literal operands."""
    def __init__(self, src: Optional[str], outcome: bool = True):
        self.src, self.outcome = src, outcome

    def _known(self, t) -> Optional[bool]:
        if self.src is not None and ast.unparse(t) == self.src:
            return self.outcome
        if isinstance(t, ast.UnaryOp) and isinstance(t.op, ast.Not):
            r = self._known(t.operand)
            return None if r is None else not r
        if isinstance(t, ast.Constant):
            return bool(t.value)
        return None

    def simplify_test(self, t):
        """t is used for its truth value only"""
        if isinstance(t, ast.BoolOp):
            is_and = isinstance(t.op, ast.And)
            vals = []
            for v in t.values:
                v = self.simplify_test(v)
                k = self._known(v)
                if k is None:
                    vals.append(v)
                elif k != is_and:           # a false operand of `and` / a true operand of `or` decides the whole
                    return ast.copy_location(ast.Constant(value=k), t)
            if not vals:
                return ast.copy_location(ast.Constant(value=is_and), t)
            return vals[0] if len(vals) == 1 else ast.copy_location(ast.BoolOp(op=t.op, values=vals), t)
        if isinstance(t, ast.UnaryOp) and isinstance(t.op, ast.Not):
            inner = self.simplify_test(t.operand)
            k = self._known(inner)
            if k is not None:
                return ast.copy_location(ast.Constant(value=not k), t)
            return ast.copy_location(ast.UnaryOp(op=ast.Not(), operand=inner), t)
        k = self._known(t)
        if k is not None and not isinstance(t, ast.Constant):
            return ast.copy_location(ast.Constant(value=k), t)
        return t

    def visit_IfExp(self, node):
        node.test = self.simplify_test(node.test)
        k = self._known(node.test)
        if k is True:
            return self.visit(node.body)
        if k is False:
            return self.visit(node.orelse)
        self.generic_visit(node)
        return node


def _facts_of(test: ast.AST, outcome: bool):
    """the call-free sub-tests whose outcome follows from `test` coming out as `outcome`"""
    out = [(test, outcome)]
    if isinstance(test, ast.UnaryOp) and isinstance(test.op, ast.Not):
        out += _facts_of(test.operand, not outcome)
    elif isinstance(test, ast.BoolOp) and ((isinstance(test.op, ast.And) and outcome) or (isinstance(test.op, ast.Or) and not outcome)):
        for v in test.values:
            out += _facts_of(v, outcome)
    return out


def _assume_all(node: ast.AST, test: ast.AST, outcome: bool) -> ast.AST:
    for t, o in _facts_of(test, outcome):
        if not isinstance(t, ast.Constant):
            node = _Assume(ast.unparse(t), o).visit(node)
    return node


class _SimplifyIfExp(ast.NodeTransformer):
    """`(P if c else Q) if c else R` -> `P if c else R`; literal operands in the tests of conditional expressions are folded (`c and True` -> `c`)."""
    def visit_IfExp(self, node):
        node.test = _Assume(None).simplify_test(node.test)
        if isinstance(node.test, ast.Constant):
            return self.visit(node.body if node.test.value else node.orelse)
        if _HoistIfExp._pure(node.test):
            node.body = _assume_all(node.body, node.test, True)
            node.orelse = _assume_all(node.orelse, node.test, False)
        self.generic_visit(node)
        return node


class _HoistIfExp(ast.NodeTransformer):
    """A conditional piece inside a concatenation or an f-string makes the whole text conditional (tests are side-effect free in the code this is used on;
    at most three conditional pieces per text)."""
    def visit_BinOp(self, node):
        self.generic_visit(node)
        if not isinstance(node.op, ast.Add):
            return node
        for side in ('left', 'right'):
            v = getattr(node, side)
            if isinstance(v, ast.IfExp) and self._depth(node) <= 3:
                a, b = copy.deepcopy(node), copy.deepcopy(node)
                setattr(a, side, v.body)
                setattr(b, side, v.orelse)
                if self._pure(v.test):
                    a, b = _assume_all(a, v.test, True), _assume_all(b, v.test, False)
                out = ast.IfExp(test=v.test, body=self.visit_BinOp(a) if isinstance(a, ast.BinOp) else a, orelse=self.visit_BinOp(b) if isinstance(b, ast.BinOp) else b)
                return ast.copy_location(out, node)
        return node

    def visit_JoinedStr(self, node):
        self.generic_visit(node)
        for i, v in enumerate(node.values):
            if isinstance(v, ast.FormattedValue) and isinstance(v.value, ast.IfExp) and v.conversion == -1 and v.format_spec is None and self._depth(node) <= 3:
                a, b = copy.deepcopy(node), copy.deepcopy(node)
                a.values[i] = ast.FormattedValue(value=v.value.body, conversion=-1, format_spec=None)
                b.values[i] = ast.FormattedValue(value=v.value.orelse, conversion=-1, format_spec=None)
                if self._pure(v.value.test):
                    a, b = _assume_all(a, v.value.test, True), _assume_all(b, v.value.test, False)
                out = ast.IfExp(test=v.value.test, body=self.visit_JoinedStr(a), orelse=self.visit_JoinedStr(b))
                for x in ast.walk(out):
                    if not hasattr(x, 'lineno'):
                        ast.copy_location(x, node)
                return ast.copy_location(out, node)
        return node

    @staticmethod
    def _depth(node) -> int:
        return len({ast.unparse(x.test) for x in ast.walk(node) if isinstance(x, ast.IfExp)})

    @staticmethod
    def _pure(t) -> bool:
        return not any(isinstance(x, (ast.Call, ast.NamedExpr, ast.Await, ast.Yield)) for x in ast.walk(t))


def inlined_info(idx: PyIndex, fi: FuncInfo, depth: int = 2, keep=None, types: Optional[Dict[str, str]] = None) -> FuncInfo:
    """A FuncInfo whose node is the inlined copy (same identity otherwise)."""
    return FuncInfo(fi.module, fi.qualname, inline_function(idx, fi, depth, keep, types), fi.cls, fi.kind)
