"""Call resolution and argument binding on top of PyIndex; call graph with name-based fallback."""
from __future__ import annotations

import ast
from typing import Dict, Iterable, List, Optional, Set, Tuple, Union

from .pyindex import PyIndex, FuncInfo, ClassInfo, walk_no_nested

Callee = Union[FuncInfo, ClassInfo]


def params_of(fn: ast.AST, skip_first: bool = False) -> List[str]:
    a = fn.args
    names = [x.arg for x in list(a.posonlyargs) + list(a.args)]
    if skip_first and names:
        names = names[1:]
    return names


def bind_args(call: ast.Call, fn: ast.AST, skip_first: bool = False) -> Dict[str, ast.AST]:
    """Map callee parameter names to argument expressions (positional and keyword).
    Star-args are ignored (left unbound)."""
    names = params_of(fn, skip_first)
    out: Dict[str, ast.AST] = {}
    for i, arg in enumerate(call.args):
        if isinstance(arg, ast.Starred):
            break
        if i < len(names):
            out[names[i]] = arg
    kwonly = [x.arg for x in fn.args.kwonlyargs]
    for kw in call.keywords:
        if kw.arg is not None and (kw.arg in names or kw.arg in kwonly or fn.args.kwarg):
            out[kw.arg] = kw.value
    return out


def skip_first_for(callee: FuncInfo, via_class: bool = False) -> bool:
    return callee.kind in ('method', 'classmethod', 'property', 'setter') or (
        callee.kind == 'function' and callee.cls is not None and False)


class Resolver:
    def __init__(self, idx: PyIndex):
        self.idx = idx
        self._by_name: Dict[str, List[FuncInfo]] = {}
        for fi in idx.funcs.values():
            if fi.cls:
                self._by_name.setdefault(fi.node.name, []).append(fi)

    def local_types(self, fi: FuncInfo) -> Dict[str, Set[str]]:
        """Very light flow-insensitive local typing: params by annotation, locals bound to
        constructor calls, loop variables over annotated list attributes."""
        idx = self.idx
        env = idx.param_types(fi)
        for n in walk_no_nested(fi.node):
            if isinstance(n, ast.Assign) and len(n.targets) == 1 and isinstance(n.targets[0], ast.Name):
                v = n.value
                if isinstance(v, ast.Call):
                    ci = idx.class_of(fi.module, v.func)
                    if ci is not None:
                        env.setdefault(n.targets[0].id, set()).add(ci.id)
        return env

    def resolve_call(self, fi: FuncInfo, call: ast.Call, env: Optional[Dict[str, Set[str]]] = None,
                     name_fallback: bool = True) -> List[Callee]:
        idx = self.idx
        f = call.func
        if isinstance(f, ast.Name):
            # nested local function?
            local = idx.funcs.get(f'{fi.module}:{fi.qualname}.<locals>.{f.id}')
            if local is not None:
                return [local]
            sym = idx.resolve(fi.module, f.id)
            if sym is None:
                return []
            if sym.kind == 'func':
                r = idx.funcs.get(f'{sym.module}:{sym.name}')
                return [r] if r else []
            if sym.kind == 'class':
                c = idx.classes.get(f'{sym.module}:{sym.name}')
                return [c] if c else []
            return []
        if isinstance(f, ast.Attribute):
            return self.resolve_attr(fi, f.value, f.attr, env, name_fallback, want='method')
        return []

    def resolve_attr(self, fi: FuncInfo, recv: ast.AST, attr: str, env=None, name_fallback=True,
                     want: str = 'method') -> List[Callee]:
        idx = self.idx
        look = {'method': idx.lookup_method, 'prop': idx.lookup_prop, 'setter': idx.lookup_setter}[want]
        cands: Set[str] = set()
        # super().m
        if isinstance(recv, ast.Call) and isinstance(recv.func, ast.Name) and recv.func.id == 'super' and fi.cls:
            mro = idx.mro(fi.cls)[1:]
            for c in mro:
                table = {'method': c.methods, 'prop': c.props, 'setter': c.setters}[want]
                if attr in table:
                    return [table[attr]]
            return []
        if isinstance(recv, ast.Name):
            if recv.id in ('self', 'cls') and fi.cls:
                cands.add(fi.cls)
            elif env and env.get(recv.id):
                cands |= env[recv.id]
            else:
                ci = idx.class_of(fi.module, recv)
                if ci is not None:
                    cands.add(ci.id)
        elif isinstance(recv, ast.Attribute):
            ci = idx.class_of(fi.module, recv)
            if ci is not None:
                cands.add(ci.id)
        out: List[Callee] = []
        if cands:
            for cid in sorted(cands):
                m = look(cid, attr)
                if m is not None and m not in out:
                    out.append(m)
                for sub in idx.subclasses(cid):
                    m2 = look(sub.id, attr)
                    if m2 is not None and m2 not in out:
                        out.append(m2)
            if out or not name_fallback:
                return out
        if name_fallback:
            for cand in self._by_name.get(attr, []):
                if want == 'method' and cand.kind in ('method', 'classmethod', 'staticmethod'):
                    out.append(cand)
                elif want == 'prop' and cand.kind == 'property':
                    out.append(cand)
                elif want == 'setter' and cand.kind == 'setter':
                    out.append(cand)
        return out


DUNDER_EDGES = {
    'eq': ['__eq__', '__ne__'], 'bool': ['__bool__', '__len__'], 'str': ['__str__', '__repr__', '__format__'],
    'getitem': ['__getitem__'], 'iter': ['__iter__', '__next__'], 'contains': ['__contains__', '__eq__'],
    'setattr': ['__setattr__'], 'len': ['__len__'], 'hash': ['__hash__'],
}


class CallGraph:
    """Whole-package call graph.  Attribute calls are resolved by receiver type where it is
    known and by method name otherwise (class-hierarchy style over-approximation).  Property
    reads/writes, registry dispatch (`X.render(obj)`) and implicit dunder calls are edges."""

    def __init__(self, idx: PyIndex):
        self.idx = idx
        self.res = Resolver(idx)
        self.edges: Dict[str, Set[str]] = {}
        self.total_calls = 0
        self.resolved_calls = 0
        self.unresolved: List[Tuple[str, str]] = []
        self._prop_names: Dict[str, List[FuncInfo]] = {}
        self._setter_names: Dict[str, List[FuncInfo]] = {}
        self._dunder: Dict[str, List[FuncInfo]] = {}
        for fi in idx.funcs.values():
            if fi.kind == 'property':
                self._prop_names.setdefault(fi.node.name, []).append(fi)
            elif fi.kind == 'setter':
                self._setter_names.setdefault(fi.node.name, []).append(fi)
            if fi.cls and fi.node.name.startswith('__') and fi.node.name.endswith('__'):
                self._dunder.setdefault(fi.node.name, []).append(fi)
        for fi in idx.funcs.values():
            self.edges[fi.id] = self._edges_of(fi)

    def _add_callee(self, out: Set[str], c):
        if isinstance(c, FuncInfo):
            out.add(c.id)
        elif isinstance(c, ClassInfo):
            for name in ('__init__', '__new__'):
                m = self.idx.lookup_method(c.id, name)
                if m is not None:
                    out.add(m.id)
            # property setters triggered by stores in __init__ are found when __init__ is visited

    def _edges_of(self, fi: FuncInfo) -> Set[str]:
        idx = self.idx
        out: Set[str] = set()
        env = self.res.local_types(fi)
        body_root = fi.node
        call_funcs = set()
        for n in walk_no_nested(body_root):
            if isinstance(n, ast.Call):
                call_funcs.add(id(n.func))
                self.total_calls += 1
                cs = self.res.resolve_call(fi, n, env)
                if cs:
                    self.resolved_calls += 1
                else:
                    ext = self._is_external(fi, n)
                    if ext:
                        self.resolved_calls += 1
                    else:
                        self.unresolved.append((fi.id, ast.unparse(n.func)))
                for c in cs:
                    self._add_callee(out, c)
                # registry dispatch
                if isinstance(n.func, ast.Attribute) and n.func.attr == 'render':
                    for rcid, table in idx.registry.items():
                        for funcs in table.values():
                            for f in funcs:
                                out.add(f.id)
                if isinstance(n.func, ast.Name):
                    if n.func.id in ('str', 'repr', 'format', 'print'):
                        self._dunder_edges(out, 'str')
                    elif n.func.id == 'bool':
                        self._dunder_edges(out, 'bool')
                    elif n.func.id == 'len':
                        self._dunder_edges(out, 'len')
                    elif n.func.id in ('list', 'tuple', 'sorted', 'iter', 'sum', 'any', 'all', 'chain', 'set', 'dict'):
                        self._dunder_edges(out, 'iter')
                    elif n.func.id in ('getattr', 'hasattr'):
                        for plist in self._prop_names.values():
                            pass
            elif isinstance(n, (ast.FunctionDef, ast.AsyncFunctionDef)) and n is not body_root:
                # nested function defined here: assume it may be called
                nested = idx.funcs.get(f'{fi.module}:{fi.qualname}.<locals>.{n.name}')
                if nested is not None:
                    out.add(nested.id)
            elif isinstance(n, ast.Lambda):
                pass
            elif isinstance(n, ast.Compare):
                for op in n.ops:
                    if isinstance(op, (ast.Eq, ast.NotEq)):
                        self._dunder_edges(out, 'eq')
                    elif isinstance(op, (ast.In, ast.NotIn)):
                        self._dunder_edges(out, 'contains')
            elif isinstance(n, (ast.If, ast.While, ast.IfExp)):
                self._dunder_edges(out, 'bool')
            elif isinstance(n, (ast.BoolOp,)) or (isinstance(n, ast.UnaryOp) and isinstance(n.op, ast.Not)):
                self._dunder_edges(out, 'bool')
            elif isinstance(n, (ast.FormattedValue,)):
                self._dunder_edges(out, 'str')
            elif isinstance(n, (ast.For, ast.comprehension)):
                self._dunder_edges(out, 'iter')
            elif isinstance(n, ast.Starred):
                self._dunder_edges(out, 'iter')
            elif isinstance(n, ast.Subscript) and isinstance(n.ctx, ast.Load):
                self._dunder_edges(out, 'getitem')
        # attribute reads/writes -> properties / setters
        for n in walk_no_nested(body_root):
            if isinstance(n, ast.Attribute):
                if isinstance(n.ctx, ast.Load) and id(n) not in call_funcs or isinstance(n.ctx, ast.Load):
                    if n.attr in self._prop_names:
                        for c in self.res.resolve_attr(fi, n.value, n.attr, env, True, want='prop'):
                            out.add(c.id)
                if isinstance(n.ctx, ast.Store):
                    if n.attr in self._setter_names:
                        for c in self.res.resolve_attr(fi, n.value, n.attr, env, True, want='setter'):
                            out.add(c.id)
                    self._dunder_edges(out, 'setattr')
        # lambdas inside the function are treated as part of it
        for n in ast.walk(body_root):
            if isinstance(n, ast.Lambda):
                for m in ast.walk(n.body):
                    if isinstance(m, ast.Call):
                        for c in self.res.resolve_call(fi, m, env):
                            self._add_callee(out, c)
        return out

    def _dunder_edges(self, out: Set[str], kind: str):
        for name in DUNDER_EDGES[kind]:
            for f in self._dunder.get(name, []):
                out.add(f.id)

    def _is_external(self, fi: FuncInfo, call: ast.Call) -> bool:
        f = call.func
        if isinstance(f, ast.Name):
            sym = self.idx.resolve(fi.module, f.id)
            return sym is None or sym.kind == 'import' or sym.kind == 'assign'
        return True  # attribute call on unknown receiver with no package method of that name

    def closure(self, roots: Iterable[str]) -> Set[str]:
        seen: Set[str] = set()
        stack = [r for r in roots]
        while stack:
            r = stack.pop()
            if r in seen or r not in self.edges:
                continue
            seen.add(r)
            stack.extend(self.edges[r] - seen)
        return seen

    def find_path(self, root: str, target: str) -> List[str]:
        prev = {root: None}
        queue = [root]
        while queue:
            cur = queue.pop(0)
            if cur == target:
                path = []
                while cur is not None:
                    path.append(cur)
                    cur = prev[cur]
                return list(reversed(path))
            for nx in sorted(self.edges.get(cur, ())):
                if nx not in prev:
                    prev[nx] = cur
                    queue.append(nx)
        return []
