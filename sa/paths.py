"""E3 - per-function path enumeration (a syntax-directed CFG unrolled into acyclic paths).

The functions of this code base are small, so instead of a dominator computation on a graph
every query is asked over the explicit set of paths: loops are unrolled `unroll` times
(default 2: zero, one and two iterations), `try` bodies may jump to every handler from every
statement, `for/else` and `break/continue` are modelled.  Statement kinds outside the set the
repository uses raise Unrecognised.

Event kinds
  stmt    a simple statement executed           (node = the statement)
  test    a branch condition evaluated           (node = test expr, outcome = True/False)
  iter    a loop header                          (node = For/While, outcome='enter'|'exit')
  return  / raise                                (terminal)
  exc     control transferred to a handler       (node = ExceptHandler)
"""
from __future__ import annotations

import ast
from dataclasses import dataclass
from typing import Any, Callable, Iterable, List, Optional, Sequence, Tuple

from .core import Unrecognised


@dataclass(frozen=True)
class Ev:
    kind: str
    node: Any
    outcome: Any = None

    def __repr__(self):  # pragma: no cover
        try:
            s = ast.unparse(self.node)
        except Exception:
            s = str(self.node)
        s = ' '.join(s.split())[:70]
        return f'{self.kind}[{self.outcome}]<{s}>' if self.outcome is not None else f'{self.kind}<{s}>'


# a path state: (events tuple, status) ; status in 'normal','break','continue','return','raise'
Path = Tuple[Tuple[Ev, ...], str]

SIMPLE = (ast.Assign, ast.AugAssign, ast.AnnAssign, ast.Expr, ast.Pass, ast.Delete, ast.Import,
          ast.ImportFrom, ast.Assert, ast.Global, ast.Nonlocal, ast.FunctionDef, ast.ClassDef,
          ast.AsyncFunctionDef)


class PathEnum:
    def __init__(self, unroll: int = 2, max_paths: int = 60000):
        self.unroll = unroll
        self.max_paths = max_paths

    def block(self, stmts: Sequence[ast.stmt], prefixes: List[Path]) -> List[Path]:
        cur = prefixes
        for st in stmts:
            nxt: List[Path] = []
            live = [p for p in cur if p[1] == 'normal']
            done = [p for p in cur if p[1] != 'normal']
            nxt.extend(done)
            if live:
                nxt.extend(self.stmt(st, live))
            cur = nxt
            if len(cur) > self.max_paths:
                raise Unrecognised(f'more than {self.max_paths} paths', st)
        return cur

    def stmt(self, st: ast.stmt, live: List[Path]) -> List[Path]:
        if isinstance(st, SIMPLE):
            ev = Ev('stmt', st)
            return [(p[0] + (ev,), 'normal') for p in live]
        if isinstance(st, ast.Return):
            ev = Ev('return', st)
            return [(p[0] + (ev,), 'return') for p in live]
        if isinstance(st, ast.Raise):
            ev = Ev('raise', st)
            return [(p[0] + (ev,), 'raise') for p in live]
        if isinstance(st, ast.Break):
            return [(p[0], 'break') for p in live]
        if isinstance(st, ast.Continue):
            return [(p[0], 'continue') for p in live]
        if isinstance(st, ast.If):
            t = [(p[0] + (Ev('test', st.test, True),), 'normal') for p in live]
            f = [(p[0] + (Ev('test', st.test, False),), 'normal') for p in live]
            return self.block(st.body, t) + self.block(st.orelse, f)
        if isinstance(st, (ast.For, ast.AsyncFor)):
            return self.loop(st, live, is_for=True)
        if isinstance(st, ast.While):
            return self.loop(st, live, is_for=False)
        if isinstance(st, (ast.With, ast.AsyncWith)):
            ev = Ev('stmt', st)
            return self.block(st.body, [(p[0] + (ev,), 'normal') for p in live])
        if isinstance(st, ast.Try):
            return self.try_(st, live)
        raise Unrecognised(f'statement kind {type(st).__name__} not modelled', st)

    def loop(self, st, live: List[Path], is_for: bool) -> List[Path]:
        out: List[Path] = []
        cur = live
        for k in range(self.unroll + 1):
            # exit without (further) iteration
            if is_for:
                exits = [(p[0] + (Ev('iter', st, 'exit'),), 'normal') for p in cur]
            else:
                exits = [(p[0] + (Ev('test', st.test, False),), 'normal') for p in cur]
            out.extend(self.block(st.orelse, exits))
            if k == self.unroll:
                break
            if is_for:
                ent = [(p[0] + (Ev('iter', st, 'enter'),), 'normal') for p in cur]
            else:
                ent = [(p[0] + (Ev('test', st.test, True),), 'normal') for p in cur]
            body = self.block(st.body, ent)
            cur = []
            for ev, status in body:
                if status in ('normal', 'continue'):
                    cur.append((ev, 'normal'))
                elif status == 'break':
                    out.append((ev, 'normal'))       # break skips orelse
                else:
                    out.append((ev, status))
            if not cur:
                break
        return out

    def try_(self, st: ast.Try, live: List[Path]) -> List[Path]:
        out: List[Path] = []
        marker = Ev('stmt', ast.Pass())  # identity marker not used; keep paths per prefix
        for p in live:
            base = p[0]
            body_paths = self.block(st.body, [(base, 'normal')])
            after_body: List[Path] = []
            handler_entries: List[Tuple[Ev, ...]] = []
            seen = set()
            for evs, status in body_paths:
                # every prefix that ends just after an event belonging to the try body may raise
                for i in range(len(base), len(evs)):
                    pre = evs[:i + 1]
                    if evs[i].kind in ('stmt', 'test', 'iter', 'raise', 'return'):
                        key = tuple(id(e) for e in pre[len(base):])
                        if key not in seen:
                            seen.add(key)
                            handler_entries.append(pre)
                if status == 'raise' and st.handlers:
                    # may be caught (over-approximation) or propagate
                    after_body.append((evs, status))
                else:
                    after_body.append((evs, status))
            # normal completion -> else
            res: List[Path] = []
            for evs, status in after_body:
                if status == 'normal':
                    res.extend(self.block(st.orelse, [(evs, 'normal')]))
                else:
                    res.append((evs, status))
            for h in st.handlers:
                for pre in handler_entries:
                    res.extend(self.block(h.body, [(pre + (Ev('exc', h),), 'normal')]))
            if st.finalbody:
                fin: List[Path] = []
                for evs, status in res:
                    for fe, fs in self.block(st.finalbody, [(evs, 'normal')]):
                        fin.append((fe, status if fs == 'normal' else fs))
                res = fin
            out.extend(res)
            if len(out) > self.max_paths:
                raise Unrecognised(f'more than {self.max_paths} paths', st)
        return out


def function_paths(fn: ast.AST, unroll: int = 2, max_paths: int = 60000) -> List[Tuple[Ev, ...]]:
    """All paths through a function body.  The terminal status is folded in: a path that falls
    off the end gets a synthetic ('return', None) event."""
    body = fn.body if not isinstance(fn, ast.Lambda) else [ast.Return(value=fn.body)]
    pe = PathEnum(unroll, max_paths)
    res = pe.block(body, [((), 'normal')])
    out = []
    for evs, status in res:
        if status == 'normal':
            evs = evs + (Ev('return', None),)
        if feasible(evs):
            out.append(evs)
    return out


def feasible(path: Sequence[Ev]) -> bool:
    """False when the path takes a branch that contradicts a constant it has just bound itself: after `v = None` (or another literal) and no later
    assignment to v, the tests `v is None` / `v is not None` / `v` / `not v` / `v == <literal>` have one possible outcome.  Only local names; conservative
    (anything else is feasible)."""
    env: dict = {}

    def val(e):
        """(known, value) of a test expression under env"""
        if isinstance(e, ast.Constant):
            return True, e.value
        if isinstance(e, ast.Name) and e.id in env:
            return True, env[e.id]
        if isinstance(e, ast.UnaryOp) and isinstance(e.op, ast.Not):
            k, v = val(e.operand)
            return (True, not v) if k else (False, None)
        if isinstance(e, ast.Compare) and len(e.ops) == 1:
            k1, a = val(e.left)
            k2, b = val(e.comparators[0])
            if k1 and k2:
                op = e.ops[0]
                if isinstance(op, ast.Is) and (a is None or b is None):
                    return True, a is b
                if isinstance(op, ast.IsNot) and (a is None or b is None):
                    return True, a is not b
                try:
                    if isinstance(op, ast.Eq):
                        return True, a == b
                    if isinstance(op, ast.NotEq):
                        return True, a != b
                except Exception:
                    return False, None
            return False, None
        if isinstance(e, ast.BoolOp):
            vals = [val(x) for x in e.values]
            if isinstance(e.op, ast.And):
                if any(k and not v for k, v in vals):
                    return True, False
                if all(k for k, _ in vals):
                    return True, all(bool(v) for _, v in vals)
            else:
                if any(k and v for k, v in vals):
                    return True, True
                if all(k for k, _ in vals):
                    return True, any(bool(v) for _, v in vals)
        return False, None
    decided: dict = {}        # source of a call-free test -> (outcome, names it reads, attribute paths it reads)

    def forget(names, attrs=()):
        for src in [s_ for s_, (_, ns, ats) in decided.items() if (ns & set(names)) or (ats & set(attrs))]:
            decided.pop(src, None)
    for ev in path:
        n = ev.node
        if ev.kind == 'test':
            k, v = val(n)
            if k and bool(v) != bool(ev.outcome):
                return False
            # the same call-free test cannot come out differently twice unless something it reads was assigned in between
            if not any(isinstance(x, (ast.Call, ast.Await, ast.Yield, ast.NamedExpr)) for x in ast.walk(n)):
                def known(e):
                    """outcome of e as far as the tests already taken on this path decide it (None: open)"""
                    src_ = ast.unparse(e)
                    if src_ in decided:
                        return decided[src_][0]
                    if isinstance(e, ast.UnaryOp) and isinstance(e.op, ast.Not):
                        r = known(e.operand)
                        return None if r is None else not r
                    if isinstance(e, ast.BoolOp):
                        rs = [known(x) for x in e.values]
                        if isinstance(e.op, ast.And):
                            if any(r is False for r in rs):
                                return False
                            if all(r is True for r in rs):
                                return True
                        else:
                            if any(r is True for r in rs):
                                return True
                            if all(r is False for r in rs):
                                return False
                    return None

                def record(e, outcome):
                    decided[ast.unparse(e)] = (outcome, {x.id for x in ast.walk(e) if isinstance(x, ast.Name)},
                                               {ast.unparse(x) for x in ast.walk(e) if isinstance(x, ast.Attribute)})
                    # what the outcome says about the parts: `A and B` true -> both true; `A or B` false -> both false; `not A`
                    if isinstance(e, ast.UnaryOp) and isinstance(e.op, ast.Not):
                        record(e.operand, not outcome)
                    elif isinstance(e, ast.BoolOp) and ((isinstance(e.op, ast.And) and outcome) or (isinstance(e.op, ast.Or) and not outcome)):
                        for x in e.values:
                            record(x, outcome)
                kn = known(n)
                if kn is not None and kn != bool(ev.outcome):
                    return False
                record(n, bool(ev.outcome))
        elif ev.kind in ('stmt',) and n is not None:
            stored = [x.id for x in ast.walk(n) if isinstance(x, ast.Name) and isinstance(x.ctx, (ast.Store, ast.Del))]
            astored = [ast.unparse(x) for x in ast.walk(n) if isinstance(x, ast.Attribute) and isinstance(x.ctx, (ast.Store, ast.Del))]
            if any(isinstance(x, ast.Call) for x in ast.walk(n)):
                decided.clear()          # a call may change any attribute a test read
            else:
                forget(stored, astored)
            if isinstance(n, ast.Assign) and len(n.targets) == 1 and isinstance(n.targets[0], ast.Name) and isinstance(n.value, ast.Constant):
                env[n.targets[0].id] = n.value.value
            else:
                for s_ in stored:
                    env.pop(s_, None)
        elif ev.kind == 'iter' and n is not None and hasattr(n, 'target'):
            decided.clear()
            for x in ast.walk(n.target):
                if isinstance(x, ast.Name):
                    env.pop(x.id, None)
            # a loop body may rebind anything it assigns
            for b in getattr(n, 'body', []):
                for x in ast.walk(b):
                    if isinstance(x, ast.Name) and isinstance(x.ctx, ast.Store):
                        env.pop(x.id, None)
    return True


# ------------------------------------------------------------------------------------------
# queries
# ------------------------------------------------------------------------------------------

def first_index(path: Sequence[Ev], pred: Callable[[Ev], bool], start: int = 0) -> int:
    for i in range(start, len(path)):
        if pred(path[i]):
            return i
    return -1


def ends_in_raise(path: Sequence[Ev]) -> bool:
    return bool(path) and path[-1].kind == 'raise'


def terminal(path: Sequence[Ev]) -> Optional[Ev]:
    return path[-1] if path else None


def node_contains(outer: ast.AST, inner: ast.AST) -> bool:
    for n in ast.walk(outer):
        if n is inner:
            return True
    return False


def event_exprs(ev: Ev) -> Iterable[ast.AST]:
    """Expression roots evaluated by an event (not descending into sub-statements)."""
    n = ev.node
    if n is None:
        return []
    if ev.kind == 'test':
        return [n]
    if ev.kind == 'iter':
        return [n.iter] if isinstance(n, (ast.For, ast.AsyncFor)) and ev.outcome == 'enter' else (
            [n.iter] if isinstance(n, (ast.For, ast.AsyncFor)) else [])
    if ev.kind in ('return',):
        return [n.value] if n.value is not None else []
    if ev.kind == 'raise':
        return [x for x in (n.exc, n.cause) if x is not None]
    if ev.kind == 'exc':
        return []
    if isinstance(n, (ast.With, ast.AsyncWith)):
        return [i.context_expr for i in n.items]
    if isinstance(n, (ast.FunctionDef, ast.AsyncFunctionDef, ast.ClassDef)):
        return []
    return [n]


def walk_event(ev: Ev) -> Iterable[ast.AST]:
    """All AST nodes evaluated by the event, excluding nested function bodies/lambdas."""
    from .pyindex import walk_no_nested
    for root in event_exprs(ev):
        for n in walk_no_nested(root):
            yield n
