"""Core data types: obligations, analysis context, reporting.

Everything here is stdlib only.  The repository under analysis is never imported;
only its source text is parsed.
"""
from __future__ import annotations

import ast
import json
import os
import sys
import time
import traceback
from dataclasses import dataclass, field
from typing import Any, Callable, Dict, List, Optional

DISCHARGED = 'discharged'
REFUTED = 'refuted'
UNRECOGNISED = 'unrecognised'

VERIF_DIR = os.path.dirname(os.path.dirname(os.path.abspath(__file__)))


class AnchorMissing(Exception):
    """An anchor (function, class, module, construct) named by a rule is absent."""


class Unrecognised(Exception):
    """A construct has a shape the analyser cannot interpret."""

    def __init__(self, msg: str, node: Optional[ast.AST] = None):
        super().__init__(msg)
        self.node = node


def safe_unparse(node: Any) -> str:
    """ast.unparse for trees the interpreter's unparser refuses (before 3.12 an expression inside an f-string may not contain a backslash: a string constant with a
    line break, after helpers were expanded in place).  Such constants are shown with visible stand-ins; the text is for display and keys only."""
    import copy
    try:
        n2 = copy.deepcopy(node)
        for fv in [x for x in ast.walk(n2) if isinstance(x, ast.FormattedValue)]:
            for c in ast.walk(fv.value):
                if isinstance(c, ast.Constant) and isinstance(c.value, str):
                    c.value = c.value.replace('\\', '\u29f5').replace('\n', '\u2424').replace('\t', '\u2409').replace('\r', '\u240d').replace("'", '\u2019')
        return ast.unparse(n2)
    except Exception:  # pragma: no cover
        return f'<{type(node).__name__}>'


def norm(node: Any) -> str:
    """Normalised source of an AST node (no line numbers, canonical spacing)."""
    if isinstance(node, str):
        return node
    try:
        s = ast.unparse(node)
    except Exception:
        s = safe_unparse(node)
    s = ' '.join(s.split())
    return s if len(s) <= 160 else s[:157] + '...'


@dataclass
class Ob:
    prop: str
    rule: str
    construct: str
    status: str
    msg: str
    file: str = ''
    line: int = 0
    extra: Dict[str, Any] = field(default_factory=dict)

    @property
    def key(self) -> str:
        # (a function read through its wrapping decorator is indexed as `f` + `f__undecorated`: the same construct for the purposes of a finding's identity)
        return f'{self.rule}|{self.construct}'.replace('__undecorated', '')

    def as_dict(self) -> Dict[str, Any]:
        d = {'rule': self.rule, 'construct': self.construct, 'status': self.status,
             'msg': self.msg, 'where': f'{self.file}:{self.line}' if self.file else ''}
        if self.extra:
            d['extra'] = self.extra
        return d


class Collector:
    """Collects obligations of one property run."""

    def __init__(self, prop: str):
        self.prop = prop
        self.obs: List[Ob] = []
        self.stats: Dict[str, Any] = {}
        self.notes: List[str] = []

    def _add(self, status, rule, construct, msg, node=None, file='', extra=None):
        line = getattr(node, 'lineno', 0) if node is not None else 0
        if isinstance(file, ast.AST):  # pragma: no cover
            file = ''
        self.obs.append(Ob(self.prop, rule, construct, status, msg, file or '', line, extra or {}))

    def ok(self, rule, construct, msg, node=None, file='', extra=None):
        self._add(DISCHARGED, rule, construct, msg, node, file, extra)

    def bad(self, rule, construct, msg, node=None, file='', extra=None):
        self._add(REFUTED, rule, construct, msg, node, file, extra)

    def unk(self, rule, construct, msg, node=None, file='', extra=None):
        self._add(UNRECOGNISED, rule, construct, msg, node, file, extra)

    def check(self, cond, rule, construct, ok_msg, bad_msg, node=None, file='', extra=None):
        if cond:
            self.ok(rule, construct, ok_msg, node, file, extra)
        else:
            self.bad(rule, construct, bad_msg, node, file, extra)
        return bool(cond)

    def stat(self, key, value):
        self.stats[key] = value

    def count(self, key, n=1):
        self.stats[key] = self.stats.get(key, 0) + n

    def floor(self, rule, what, got, minimum):
        """Vacuity floor: a rule that matches fewer instances than were confirmed by hand
        is an analysis failure (never a silent pass)."""
        if got < minimum:
            self.unk(rule, f'floor:{what}',
                     f'vacuity floor: {what}: matched {got} instances, at least {minimum} expected')
        else:
            self.count('floor_checks')


class _NoGrammar:
    """Stands in for the grammar model when it could not be built: every use raises Unrecognised, so
    grammar-based rules answer ANALYSIS-ERROR while the other rules of the property still run."""
    def __init__(self, why: str):
        object.__setattr__(self, '_why', why)

    def __getattr__(self, name):
        raise Unrecognised('grammar model unavailable: ' + object.__getattribute__(self, '_why'))


def acquire_grammar(ctx, col: 'Collector', rule: str):
    try:
        return ctx.grammar
    except (AnchorMissing, Unrecognised) as e:
        col.unk(rule, 'grammar-model', f'the grammar could not be evaluated: {e}', node=getattr(e, 'node', None))
        return _NoGrammar(str(e))
    except Exception as e:  # analyser bug
        col.unk(rule, 'grammar-model', f'grammar evaluation crashed: {type(e).__name__}: {e}')
        return _NoGrammar(str(e))


def guarded(col: Collector, rule: str, construct: str, fn: Callable[[], None]):
    """Run one rule body; map AnchorMissing/Unrecognised/any crash to UNRECOGNISED."""
    try:
        fn()
    except AnchorMissing as e:
        col.unk(rule, construct, f'anchor missing: {e}')
    except Unrecognised as e:
        col.unk(rule, construct, f'unrecognised shape: {e}', node=e.node)
    except Exception as e:  # analyser bug -> analysis error, never a violation
        tb = traceback.format_exc().strip().splitlines()
        col.unk(rule, construct, f'analyser exception {type(e).__name__}: {e} @ {tb[-3:] if len(tb) > 3 else tb}')


# --------------------------------------------------------------------------------------------
# known findings
# --------------------------------------------------------------------------------------------

def load_known_findings() -> Dict[str, Any]:
    path = os.path.join(VERIF_DIR, 'known_findings.json')
    if not os.path.exists(path):
        return {'findings': [], 'fixed': []}
    with open(path) as f:
        return json.load(f)


# --------------------------------------------------------------------------------------------
# report
# --------------------------------------------------------------------------------------------

def finish(col: Collector, tier: str, seed: int, t0: float, explanation: str,
           assumptions: List[str], rule_text: str, evidence_dir: Optional[str] = None,
           extra_cov: Optional[Dict[str, Any]] = None, quiet: bool = False) -> int:
    """Apply known findings, write evidence and replay files, print result lines.
    Returns the exit code (0 ok, 1 violation, 2 analysis error)."""
    prop = col.prop
    evidence_dir = evidence_dir or os.environ.get('VERIF_EVIDENCE_DIR') or os.path.join(VERIF_DIR, 'evidence')
    os.makedirs(evidence_dir, exist_ok=True)
    kf = load_known_findings()
    known = {f"{f['rule']}|{f['construct']}": f for f in kf.get('findings', []) if f.get('property') == prop}

    refuted = [o for o in col.obs if o.status == REFUTED]
    unrec = [o for o in col.obs if o.status == UNRECOGNISED]
    disch = [o for o in col.obs if o.status == DISCHARGED]
    known_hits = [o for o in refuted if o.key in known]
    violations = [o for o in refuted if o.key not in known]

    lines: List[str] = []
    seen = set()
    for o in known_hits:
        if o.key in seen:
            continue
        seen.add(o.key)
        f = known[o.key]
        lines.append(f"KNOWN-FINDING: property={prop} [{f.get('id', '?')}] {o.rule} {o.construct}: {f.get('what', o.msg)}")

    replay_dir = os.path.join(evidence_dir, 'replay', prop)
    replay_paths: List[str] = []
    if violations:
        os.makedirs(replay_dir, exist_ok=True)
        for n, o in enumerate(violations):
            p = os.path.join(replay_dir, f'{n}.json')
            with open(p, 'w') as f:
                json.dump({'property': prop, 'rule': o.rule, 'construct': o.construct, 'msg': o.msg,
                           'where': f'{o.file}:{o.line}', 'extra': o.extra,
                           'replay': f'python3 -m sa.check {prop} --only {o.rule}'}, f, indent=1)
            replay_paths.append(p)
            lines.append(f'REFUTED {o.rule} {o.file}:{o.line} {o.construct}: {o.msg}')
            lines.append(f'VIOLATION property={prop} replay={p}')
    for o in unrec:
        lines.append(f'ANALYSIS-ERROR property={prop} {o.rule} {o.file}:{o.line} {o.construct}: {o.msg}')

    distinct = len({o.key for o in col.obs})
    samples = [o.as_dict() for o in (violations + known_hits + unrec)[:12]]
    # a spread of discharged obligations, one per rule first
    seen_rules = set()
    for o in disch:
        if o.rule not in seen_rules:
            seen_rules.add(o.rule)
            samples.append(o.as_dict())
    samples = samples[:60]
    per_rule: Dict[str, Dict[str, int]] = {}
    for o in col.obs:
        d = per_rule.setdefault(o.rule, {DISCHARGED: 0, REFUTED: 0, UNRECOGNISED: 0})
        d[o.status] += 1
    coverage = {
        'explanation': explanation,
        'rule': rule_text,
        'evaluations': len(col.obs),
        'distinct_nontrivial': distinct,
        'obligations': len(col.obs),
        'discharged': len(disch),
        'refuted_known': len(known_hits),
        'refuted_new': len(violations),
        'unrecognised': len(unrec),
        'per_rule': per_rule,
        'stats': col.stats,
        'samples': samples,
        'notes': col.notes[:40],
        'checker_cmd': f'python3 -m sa.check {prop} --tier {tier}',
        'trusted_base': ['CPython ast module', 'sa/* analysers (this repository)',
                         'model of pyparsing 3.3.2 combinator semantics in sa/grammar.py'],
        'exhaustive': True,
    }
    if extra_cov:
        coverage.update(extra_cov)
    ev = {
        'property_id': prop, 'tier': tier, 'seed': seed, 'level': 'other',
        'coverage': coverage, 'assumptions': assumptions,
        'wall_s': round(time.time() - t0, 3), 'violations': len(violations),
    }
    with open(os.path.join(evidence_dir, f'{prop}.json'), 'w') as f:
        json.dump(ev, f, indent=1, default=str)

    if not quiet:
        for ln in lines:
            print(ln)
        print(f'{prop} tier={tier}: obligations={len(col.obs)} discharged={len(disch)} '
              f'known={len(known_hits)} new_refuted={len(violations)} unrecognised={len(unrec)} '
              f'wall={ev["wall_s"]}s')
    if violations:
        return 1
    if unrec:
        return 2
    return 0
