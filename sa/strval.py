"""Abstract string evaluation of text-building functions.

For every path of a function that returns text, the returned value is evaluated to a *skeleton*: the literal
text the function emits, in order, with a hole for every piece of data (model attribute, helper result,
repeated part).  The evaluation is semantic - `result += x`, `parts.append(x)` + `' '.join(parts)`, f-strings,
`+` concatenation and conditional expressions all give the same skeleton - so a rule that compares skeletons
with the statement form the property describes is insensitive to how the text is assembled.

    skeletons(fi) -> [(path literals, skeleton string)]        HOLE marks a data hole, STAR a repeated hole

Nothing is executed; unknown constructs become holes (never literals), and a function whose return value
cannot be followed at all yields the single skeleton HOLE, which no statement form matches - the caller
then reports UNRECOGNISED, not a violation.
"""
from __future__ import annotations

import ast
import re
from typing import Dict, List, Optional, Tuple

from .cond import conjuncts, term
from .core import norm
from .paths import function_paths

HOLE = '\x00'
STAR = '\x01'        # zero or more repetitions of something (a join over a generator, extend(...))
UNK = '\x02'         # a name the evaluator could not follow (may stand for literal text): a mismatch involving it is not evidence
END = '\x03'         # end of a hole label: a hole is HOLE/STAR/UNK + label + END
MAX_ALTS = 24
_MARK = re.compile('([\x00\x01\x02])([^\x03]*)\x03')


def hole(e=None) -> str:
    return HOLE + _label(e) + END


def star(e=None) -> str:
    return STAR + _label(e) + END


def unk(e=None) -> str:
    return UNK + _label(e) + END


def _label(e) -> str:
    if e is None:
        return ''
    if isinstance(e, str):
        return e
    try:
        return ''.join(norm(e).split())[:120].replace(END, '')
    except Exception:
        return ''


def is_star(it) -> bool:
    return isinstance(it, list) and len(it) == 1 and bool(re.fullmatch('\x01[^\x03]*\x03', it[0]))


def strip_marks(s: str) -> str:
    return _MARK.sub('', s)

# a value is a list of alternatives; an alternative is a string over literal characters, HOLE and STAR
Str = List[str]


class ListVal:
    """A list of text items under construction: each item is a Str (alternatives); STAR items stand for extend(generator);
    `optional` holds the indexes of items that may be absent (`[x] if c else []`)."""
    def __init__(self, items=None, optional=None):
        self.items: List[Str] = list(items or [])
        self.optional = set(optional or ())

    def copy(self):
        return ListVal([list(i) for i in self.items], set(self.optional))

    def plus(self, other: 'ListVal') -> 'ListVal':
        n = len(self.items)
        return ListVal(self.items + other.items, self.optional | {n + i for i in other.optional})


def _cat(a: Str, b: Str) -> Str:
    out = []
    for x in a:
        for y in b:
            out.append(x + y)
            if len(out) >= MAX_ALTS:
                return out
    return out


def _dedup(xs: Str) -> Str:
    seen = []
    for x in xs:
        if x not in seen:
            seen.append(x)
    return seen[:MAX_ALTS]


TRANSPARENT_FUNCS = {'indent', 'str', 'dedent'}
TRANSPARENT_METHODS = {'strip', 'rstrip', 'lstrip', 'upper', 'lower', 'format'}


class Evaluator:
    def __init__(self, fn: ast.FunctionDef, transparent=(), consts=None):
        self.fn = fn
        self.transparent = set(TRANSPARENT_FUNCS) | set(transparent)
        self.consts = dict(consts or {})
        a = fn.args
        self.params = {x.arg for x in a.args + a.kwonlyargs + a.posonlyargs}
        self.loopvars: Dict[str, str] = {}      # loop variable -> text of the collection it ranges over (on the current path)
        self.exprs: Dict[str, ast.AST] = {}     # hole label -> the expression it stands for

    def _member(self, e) -> str:
        if e is None or isinstance(e, str):
            return ''
        out = []
        for x in ast.walk(e):
            if isinstance(x, ast.Name) and x.id in self.loopvars and self.loopvars[x.id] not in out:
                out.append(self.loopvars[x.id])
        return ''.join('∈' + ''.join(o.split()) for o in out)

    def h(self, e=None) -> str:
        lab = _label(e) + self._member(e)
        if isinstance(e, ast.AST):
            self.exprs.setdefault(lab, e)
        return HOLE + lab + END

    def st(self, e=None) -> str:
        lab = _label(e) + self._member(e)
        if isinstance(e, ast.AST):
            self.exprs.setdefault(lab, e)
        return STAR + lab + END

    def ev(self, e: ast.AST, env: Dict[str, object]) -> object:
        """Str or ListVal."""
        if isinstance(e, ast.Constant):
            if isinstance(e.value, str):
                return [e.value]
            return [self.h(e)]
        if isinstance(e, ast.JoinedStr):
            cur: Str = ['']
            for v in e.values:
                if isinstance(v, ast.Constant):
                    cur = _cat(cur, [str(v.value)])
                else:
                    inner = self.ev(v.value, env)
                    cur = _cat(cur, inner if isinstance(inner, list) else [self.h(v.value)])
            return cur
        if isinstance(e, ast.BinOp) and isinstance(e.op, ast.Add):
            l, r = self.ev(e.left, env), self.ev(e.right, env)
            if isinstance(l, ListVal) and isinstance(r, ListVal):
                return l.plus(r)
            if isinstance(l, list) and isinstance(r, list):
                return _cat(l, r)
            return [self.h(e)]
        if isinstance(e, ast.Name):
            v = env.get(e.id)
            if isinstance(v, ListVal):
                return v
            if isinstance(v, list):
                return v
            if e.id in self.consts:
                return [self.consts[e.id]]
            if e.id in self.params or e.id in env:
                return [self.h(e)]
            return [unk(e)]
        if isinstance(e, ast.IfExp):
            # a test on a tracked list / text whose emptiness is known here decides the choice (`' [' + ', '.join(parts) + ']' if parts else ''`)
            t, neg = e.test, False
            while isinstance(t, ast.UnaryOp) and isinstance(t.op, ast.Not):
                t, neg = t.operand, not neg
            if isinstance(t, ast.Name) and t.id in env:
                known = known_truth(env[t.id])
                if known is not None:
                    return self.ev(e.body if known != neg else e.orelse, env)
            a, b = self.ev(e.body, env), self.ev(e.orelse, env)
            if isinstance(a, list) and isinstance(b, list):
                return _dedup(a + b)
            if isinstance(a, ListVal) and isinstance(b, ListVal) and len(a.items) <= 1 and len(b.items) <= 1:
                # `[x] if c else []`
                if not a.items and not b.items:
                    return ListVal()
                if a.items and b.items:
                    return ListVal([_dedup(a.items[0] + b.items[0])])
                return ListVal([a.items[0] if a.items else b.items[0]], {0})
            return [self.h(e)]
        if isinstance(e, (ast.List, ast.Tuple)):
            items = []
            for x in e.elts:
                if isinstance(x, ast.Starred):
                    items.append([self.st(x.value)])
                else:
                    v = self.ev(x, env)
                    items.append(v if isinstance(v, list) else [self.h(x)])
            return ListVal(items)
        if isinstance(e, (ast.ListComp, ast.GeneratorExp)):
            return ListVal([[self.st(e)]])
        if isinstance(e, ast.Call):
            f = e.func
            if isinstance(f, ast.Attribute) and f.attr == 'join' and len(e.args) == 1:
                sep = self.ev(f.value, env)
                arg = self.ev(e.args[0], env)
                if isinstance(sep, list) and len(sep) == 1 and isinstance(arg, ListVal):
                    return self.join(sep[0], arg)
                return [self.h(e)]
            if isinstance(f, ast.Name) and f.id in self.transparent and e.args:
                v = self.ev(e.args[0], env)
                return v if isinstance(v, list) else [self.h(e)]
            if isinstance(f, ast.Attribute) and f.attr in TRANSPARENT_METHODS:
                v = self.ev(f.value, env)
                if isinstance(v, list):
                    return v
            if isinstance(f, ast.Name) and f.id in ('list', 'tuple') and len(e.args) == 1:
                v = self.ev(e.args[0], env)
                if isinstance(v, ListVal):
                    return v.copy()
            return [self.h(e)]
        return [self.h(e)]

    @staticmethod
    def join(sep: str, lv: ListVal) -> Str:
        """Alternatives of sep.join(items): an item whose alternatives include '' coming from `[x] if c else []` is optional."""
        # alternatives are (text, anything emitted yet?) so that an absent optional item takes its separator with it
        cur: List[Tuple[str, bool]] = [('', False)]
        for i, it in enumerate(lv.items):
            nxt: List[Tuple[str, bool]] = []
            for text, started in cur:
                if i in lv.optional:
                    nxt.append((text, started))
                for alt in it:
                    nxt.append((text + (sep if started else '') + alt, True))
            cur = nxt[:MAX_ALTS * 4]
        return _dedup([t for t, _ in cur])


def _assign(ev: Evaluator, env: Dict[str, object], tgt: ast.AST, val: ast.AST):
    if isinstance(tgt, ast.Name):
        v = ev.ev(val, env)
        env[tgt.id] = v.copy() if isinstance(v, ListVal) else v


def known_truth(v) -> Optional[bool]:
    """Truth value of a tracked list / text when its emptiness is known (None: open)."""
    if isinstance(v, ListVal):
        if not v.items:
            return False
        if any(i not in v.optional and not is_star(it) for i, it in enumerate(v.items)):
            return True
        return None
    if isinstance(v, list) and v and all(isinstance(a, str) for a in v):
        if all(a == '' for a in v):
            return False
        if all(strip_marks(a) != '' for a in v):
            return True
    return None


class _LiftIfExp(ast.NodeTransformer):
    """`x = A if T else B`, `x += A if T else B`, `return A if T else B`  ->  if/else statements, so that each arm lies on its own path
    (the path's branch literals then say under which condition the arm's text is emitted)."""
    def _lift(self, st, value, make):
        if isinstance(value, ast.IfExp):
            a = make(value.body)
            b = make(value.orelse)
            node = ast.If(test=value.test, body=[self.visit(a)], orelse=[self.visit(b)])
            return ast.copy_location(node, st)
        return None

    def _flat(self, n):
        return n if isinstance(n, list) else [n]

    def visit_Assign(self, node):
        r = self._lift(node, node.value, lambda v: ast.copy_location(ast.Assign(targets=node.targets, value=v), node))
        return r or node

    def visit_AugAssign(self, node):
        r = self._lift(node, node.value, lambda v: ast.copy_location(ast.AugAssign(target=node.target, op=node.op, value=v), node))
        return r or node

    def visit_Return(self, node):
        if node.value is None:
            return node
        r = self._lift(node, node.value, lambda v: ast.copy_location(ast.Return(value=v), node))
        return r or node


def skeletons(fn: ast.FunctionDef, unroll: int = 1, transparent=(), consts=None) -> List[Tuple[List[tuple], str]]:
    """[(branch literals of the path, skeleton)] for every returning path (one entry per alternative)."""
    return [(l, a) for l, a, _, _ in skeleton_paths(fn, unroll, transparent, consts)]


def skeleton_paths(fn: ast.FunctionDef, unroll: int = 1, transparent=(), consts=None):
    """[(branch literals, skeleton with labelled holes, [(test source, outcome)] of the path, {label: expression})]."""
    import copy
    fn = _LiftIfExp().visit(copy.deepcopy(fn))
    ast.fix_missing_locations(fn)
    evl = Evaluator(fn, transparent, consts)
    out = []
    seen = set()
    # statements inside a loop body, and for each the lists that are created outside that loop (an append to those happens once per iteration)
    in_loop = set()
    outer_lists: Dict[int, set] = {}
    for lp in ast.walk(fn):
        if isinstance(lp, (ast.For, ast.While)):
            created_inside = {t.id for b_ in lp.body for x in ast.walk(b_) if isinstance(x, ast.Assign) for t in x.targets if isinstance(t, ast.Name)}
            for b_ in lp.body:
                for x in ast.walk(b_):
                    if isinstance(x, ast.Expr) and isinstance(x.value, ast.Call) and isinstance(x.value.func, ast.Attribute) and isinstance(x.value.func.value, ast.Name):
                        in_loop.add(id(x))
                        if x.value.func.value.id not in created_inside:
                            outer_lists.setdefault(id(x), set()).add(x.value.func.value.id)
    for path in function_paths(fn, unroll=unroll):
        last = path[-1]
        if last.kind != 'return':
            continue
        env: Dict[str, object] = {}
        evl.loopvars = {}
        lits: List[tuple] = []
        tests: List[Tuple[str, bool]] = []
        feasible = True
        for evn in path:
            n = evn.node
            if evn.kind == 'test':
                # a test on a tracked list / text whose emptiness is known on this path decides the branch: the other outcome is infeasible
                t, neg = n, False
                while isinstance(t, ast.UnaryOp) and isinstance(t.op, ast.Not):
                    t, neg = t.operand, not neg
                if isinstance(t, ast.Name) and t.id in env:
                    v = env[t.id]
                    known = None
                    if isinstance(v, ListVal):
                        if not v.items:
                            known = False
                        elif any(i not in v.optional and not is_star(it) for i, it in enumerate(v.items)):
                            known = True
                    elif isinstance(v, list) and v and all(isinstance(a, str) for a in v):
                        if all(a == '' for a in v):
                            known = False
                        elif all(strip_marks(a) != '' for a in v):
                            known = True
                    if known is not None and (known != neg) != bool(evn.outcome):
                        feasible = False
                        break
                lits.extend(conjuncts(term(n, evn.outcome)))
                tests.append((norm(n), bool(evn.outcome)))
                continue
            if evn.kind == 'iter' and isinstance(n, ast.For):
                for x in ast.walk(n.target):
                    if isinstance(x, ast.Name):
                        if evn.outcome == 'enter':
                            evl.loopvars[x.id] = norm(n.iter)
                continue
            if evn.kind != 'stmt' or n is None:
                continue
            if isinstance(n, ast.Assign):
                for tg in n.targets:          # a = b = <value>
                    _assign(evl, env, tg, n.value)
            elif isinstance(n, ast.AnnAssign) and n.value is not None:
                _assign(evl, env, n.target, n.value)
            elif isinstance(n, ast.AugAssign) and isinstance(n.op, ast.Add) and isinstance(n.target, ast.Name):
                cur = env.get(n.target.id)
                add = evl.ev(n.value, env)
                if isinstance(cur, list) and isinstance(add, list):
                    env[n.target.id] = _cat(cur, add)
                elif isinstance(cur, ListVal) and isinstance(add, ListVal):
                    env[n.target.id] = cur.plus(add)
                else:
                    env[n.target.id] = [evl.h(n.value)]
            elif isinstance(n, ast.Expr) and isinstance(n.value, ast.Call) and isinstance(n.value.func, ast.Attribute) \
                    and isinstance(n.value.func.value, ast.Name) and isinstance(env.get(n.value.func.value.id), ListVal):
                lv: ListVal = env[n.value.func.value.id]          # type: ignore[assignment]
                m = n.value.func.attr
                if m == 'append' and len(n.value.args) == 1 and id(n) in in_loop and n.value.func.value.id in outer_lists.get(id(n), ()):
                    # appended once per iteration to a list that lives outside the loop: any number of such items (as a join over a comprehension would be read)
                    lv.items.append([evl.st(n.value.args[0])])
                elif m == 'append' and len(n.value.args) == 1:
                    v = evl.ev(n.value.args[0], env)
                    lv.items.append(v if isinstance(v, list) else [evl.h(n.value.args[0])])
                elif m == 'extend' and len(n.value.args) == 1:
                    v = evl.ev(n.value.args[0], env)
                    if isinstance(v, ListVal):
                        k0 = len(lv.items)
                        lv.items.extend(v.items)
                        lv.optional |= {k0 + i for i in v.optional}
                    else:
                        lv.items.append([evl.st(n.value.args[0])])
                elif m == 'insert' and len(n.value.args) == 2 and isinstance(n.value.args[0], ast.Constant) and n.value.args[0].value == 0:
                    v = evl.ev(n.value.args[1], env)
                    lv.items.insert(0, v if isinstance(v, list) else [evl.h(n.value.args[1])])
                    lv.optional = {i + 1 for i in lv.optional}
                else:
                    env[n.value.func.value.id] = [evl.h(n.value)]
        if not feasible:
            continue
        rv = last.node.value if last.node is not None else None
        if rv is None:
            continue
        val = evl.ev(rv, env)
        alts = val if isinstance(val, list) else [evl.h(rv)]
        for a in alts:
            key = (a, tuple(map(str, lits)))
            if key in seen:
                continue
            seen.add(key)
            out.append((list(lits), a, list(tests), evl.exprs))
    return out


def show(sk: str) -> str:
    return _MARK.sub(lambda m: {HOLE: '◦', STAR: '◦*', UNK: '?'}[m.group(1)], sk)


def show_labelled(sk: str) -> str:
    """Like show(), with every hole followed by what it holds: ◦⟨model.name⟩."""
    return _MARK.sub(lambda m: {HOLE: '◦', STAR: '◦*', UNK: '?'}[m.group(1)] + '⟨' + m.group(2) + '⟩', sk)


def to_regex_input(sk: str) -> str:
    return sk
