"""Partial evaluation of a dispatch on a closed set of constants.

Several properties say "for a reference of kind K the code does X" (which side carries the FOREIGN KEY, which table lists the
reference, which side is counted for ordering).  The code expresses this as tests on `<obj>.type` - if/elif chains, early returns,
`in (A, B)`, flags computed first, conditional expressions, helper predicates.  Instead of matching one of these spellings, the
function is evaluated once per constant K with every test on `<obj>.type` decided by K:

    residual(expr, subject, K)      the expression with the decided tests folded away (True/False constants propagate through
                                    and/or/not/conditional expressions)
    run(fn, subject, K)             the statements executed for K: calls reached (with their argument expressions resolved through
                                    local assignments), values returned, and whether an undecided test was crossed

Nothing is executed; an expression that does not depend on the subject stays symbolic.
"""
from __future__ import annotations

import ast
import copy
from typing import Dict, List, Optional, Tuple

from .core import norm

TRUE = ast.Constant(value=True)
FALSE = ast.Constant(value=False)


def _is_const(e: ast.AST, v=None) -> bool:
    return isinstance(e, ast.Constant) and isinstance(e.value, bool) and (v is None or e.value is v)


def _truth_const(e: ast.AST) -> ast.AST:
    """In test position a known constant (None, a number, a string) is as good as its truth value."""
    if isinstance(e, ast.Constant) and not isinstance(e.value, bool) and (e.value is None or isinstance(e.value, (int, float, str))):
        return TRUE if e.value else FALSE
    return e


def residual(e: ast.AST, subject: str, K: str, env: Optional[Dict[str, ast.AST]] = None, depth: int = 0) -> ast.AST:
    """`e` simplified under the fact `<subject> == K` (K a constant NAME); names bound in env are replaced by their (already simplified) values."""
    env = env or {}
    if depth > 40:
        return e
    if isinstance(e, ast.Name) and e.id in env:
        return env[e.id]
    def cname(x):
        # a constant referred to by its name, possibly through its module (`MANY_TO_ONE`, `constants.MANY_TO_ONE`)
        if isinstance(x, ast.Name):
            return x.id
        if isinstance(x, ast.Attribute) and isinstance(x.value, ast.Name) and x.attr.isupper():
            return x.attr
        return None
    if isinstance(e, ast.Compare) and len(e.ops) == 1 and norm(e.left) == subject:
        op, r = e.ops[0], e.comparators[0]
        if cname(r) is not None:
            if isinstance(op, ast.Eq):
                return TRUE if cname(r) == K else FALSE
            if isinstance(op, ast.NotEq):
                return FALSE if cname(r) == K else TRUE
        if isinstance(r, (ast.Tuple, ast.List, ast.Set)) and all(cname(x) is not None for x in r.elts):
            names = {cname(x) for x in r.elts}
            if isinstance(op, ast.In):
                return TRUE if K in names else FALSE
            if isinstance(op, ast.NotIn):
                return FALSE if K in names else TRUE
        return e
    if isinstance(e, ast.Compare) and len(e.ops) == 1 and len(e.comparators) == 1 and norm(e.comparators[0]) == subject and cname(e.left) is not None:
        if isinstance(e.ops[0], ast.Eq):
            return TRUE if cname(e.left) == K else FALSE
        if isinstance(e.ops[0], ast.NotEq):
            return FALSE if cname(e.left) == K else TRUE
    if isinstance(e, ast.Compare) and len(e.ops) == 1 and len(e.comparators) == 1:
        # a comparison between values that are known once the dispatch is decided (a flag / side number computed from the kind)
        a = residual(e.left, subject, K, env, depth + 1)
        b = residual(e.comparators[0], subject, K, env, depth + 1)

        def const(x):
            if isinstance(x, ast.Constant):
                return True, x.value
            if isinstance(x, (ast.Tuple, ast.List)) and all(isinstance(y, ast.Constant) for y in x.elts):
                return True, tuple(y.value for y in x.elts)
            return False, None
        ka, va = const(a)
        kb, vb = const(b)
        if ka and kb:
            op = e.ops[0]
            try:
                if isinstance(op, ast.Is) and (va is None or vb is None):
                    return TRUE if va is vb else FALSE
                if isinstance(op, ast.IsNot) and (va is None or vb is None):
                    return FALSE if va is vb else TRUE
                if isinstance(op, ast.Eq):
                    return TRUE if va == vb else FALSE
                if isinstance(op, ast.NotEq):
                    return TRUE if va != vb else FALSE
                if isinstance(op, ast.In):
                    return TRUE if va in vb else FALSE
                if isinstance(op, ast.NotIn):
                    return TRUE if va not in vb else FALSE
            except TypeError:
                pass
        if a is not e.left or b is not e.comparators[0]:
            return ast.Compare(left=a, ops=e.ops, comparators=[b])
        return e
    if isinstance(e, ast.Constant):
        return e
    if isinstance(e, ast.UnaryOp) and isinstance(e.op, ast.Not):
        v = residual(e.operand, subject, K, env, depth + 1)
        if _is_const(v):
            return FALSE if v.value else TRUE
        return ast.UnaryOp(op=ast.Not(), operand=v)
    if isinstance(e, ast.BoolOp):
        vals = [residual(v, subject, K, env, depth + 1) for v in e.values]
        if isinstance(e.op, ast.And):
            if any(_is_const(v, False) for v in vals):
                return FALSE
            vals = [v for v in vals if not _is_const(v, True)]
            if not vals:
                return TRUE
        else:
            if any(_is_const(v, True) for v in vals):
                return TRUE
            vals = [v for v in vals if not _is_const(v, False)]
            if not vals:
                return FALSE
        return vals[0] if len(vals) == 1 else ast.BoolOp(op=e.op, values=vals)
    if isinstance(e, ast.IfExp):
        t = _truth_const(residual(e.test, subject, K, env, depth + 1))
        if _is_const(t):
            return residual(e.body if t.value else e.orelse, subject, K, env, depth + 1)
        return ast.IfExp(test=t, body=residual(e.body, subject, K, env, depth + 1), orelse=residual(e.orelse, subject, K, env, depth + 1))
    if isinstance(e, (ast.Tuple, ast.List)):
        return type(e)(elts=[residual(x, subject, K, env, depth + 1) for x in e.elts], ctx=ast.Load())
    if isinstance(e, ast.Subscript) and isinstance(e.slice, ast.Constant) and isinstance(e.slice.value, int):
        b = residual(e.value, subject, K, env, depth + 1)
        if isinstance(b, (ast.Tuple, ast.List)) and -len(b.elts) <= e.slice.value < len(b.elts):
            return b.elts[e.slice.value]
        return ast.Subscript(value=b, slice=e.slice, ctx=ast.Load())
    if isinstance(e, ast.Subscript):
        b = residual(e.value, subject, K, env, depth + 1)
        sl = residual(e.slice, subject, K, env, depth + 1)
        if b is e.value and sl is e.slice:
            return e
        return ast.Subscript(value=b, slice=sl, ctx=e.ctx)
    if isinstance(e, ast.Attribute):
        b = residual(e.value, subject, K, env, depth + 1)
        return e if b is e.value else ast.Attribute(value=b, attr=e.attr, ctx=ast.Load())
    if isinstance(e, ast.Call):
        c = copy.copy(e)
        c.args = [residual(a, subject, K, env, depth + 1) for a in e.args]
        c.keywords = [ast.keyword(arg=k.arg, value=residual(k.value, subject, K, env, depth + 1)) for k in e.keywords]
        if isinstance(e.func, ast.Name) and e.func.id in env:
            c.func = env[e.func.id]
        elif isinstance(e.func, ast.Attribute):
            c.func = ast.Attribute(value=residual(e.func.value, subject, K, env, depth + 1), attr=e.func.attr, ctx=ast.Load())
        return c
    return e


class Trace:
    def __init__(self):
        self.calls: List[ast.Call] = []          # calls reached, arguments resolved
        self.returns: List[ast.AST] = []         # returned values, resolved
        self.undecided: List[str] = []           # tests that K does not decide and that guard different calls
        self.appended: List[Tuple[str, ast.AST, List[ast.AST]]] = []   # (receiver, value, residual conditions) for x.append(v)
        self.stores: List[Tuple[ast.AST, ast.AST, List[ast.AST]]] = []  # (target, value, conditions) for subscript/attribute stores
        self.subscripts: List[Tuple[ast.Subscript, List[ast.AST]]] = []  # subscript reads reached (in the residual expressions), with the conditions


def run(fn: ast.FunctionDef, subject: str, K: str, inside: Optional[List[ast.stmt]] = None) -> Trace:
    """Evaluate the statements of fn (or of `inside`) under `<subject> == K`."""
    tr = Trace()

    def collect(e: ast.AST, env, conds):
        r = residual(e, subject, K, env)
        for c in ast.walk(e):
            if isinstance(c, ast.Subscript) and isinstance(c.ctx, ast.Load):
                tr.subscripts.append((c, list(conds)))
        for c in ast.walk(r):
            if isinstance(c, ast.Call):
                tr.calls.append(c)
                if isinstance(c.func, ast.Attribute) and c.func.attr in ('append', 'add') and len(c.args) == 1:
                    tr.appended.append((norm(c.func.value), c.args[0], list(conds)))
        return r

    def block(stmts: List[ast.stmt], env: Dict[str, ast.AST], conds: List[ast.AST]) -> Tuple[Dict[str, ast.AST], bool]:
        """Returns (env after, terminated?)."""
        for st in stmts:
            if isinstance(st, ast.Return):
                if st.value is not None:
                    tr.returns.append(collect(st.value, env, conds))
                return env, True
            if isinstance(st, ast.Raise):
                return env, True
            if isinstance(st, (ast.Continue, ast.Break)):
                return env, True
            if isinstance(st, ast.If):
                t = _truth_const(residual(st.test, subject, K, env))
                if _is_const(t):
                    env, term = block(st.body if t.value else st.orelse, env, conds)
                    if term:
                        return env, True
                    continue
                for c in ast.walk(t):
                    if isinstance(c, ast.Call):
                        tr.calls.append(c)
                tr.undecided.append(norm(t))
                e1, t1 = block(st.body, dict(env), conds + [t])
                e2, t2 = block(st.orelse, dict(env), conds + [ast.UnaryOp(op=ast.Not(), operand=t)])
                if t1 and t2:
                    return env, True
                # merge: keep bindings that agree (or that exist on the only surviving branch)
                if t1:
                    env = e2
                elif t2:
                    env = e1
                else:
                    env = {k: v for k, v in e1.items() if k in e2 and norm(e2[k]) == norm(v)}
                continue
            if isinstance(st, ast.Assign):
                v = collect(st.value, env, conds)
                for tg in st.targets:
                    if isinstance(tg, ast.Name):
                        env[tg.id] = v
                    elif isinstance(tg, (ast.Tuple, ast.List)) and isinstance(v, (ast.Tuple, ast.List)) and len(tg.elts) == len(v.elts):
                        for te, ve in zip(tg.elts, v.elts):
                            if isinstance(te, ast.Name):
                                env[te.id] = ve
                    else:
                        tr.stores.append((residual(tg, subject, K, env) if not isinstance(tg, ast.Name) else tg, v, list(conds)))
                continue
            if isinstance(st, ast.AugAssign):
                v = collect(st.value, env, conds)
                tr.stores.append((residual(st.target, subject, K, env), v, list(conds)))
                if isinstance(st.target, ast.Name):
                    env.pop(st.target.id, None)
                continue
            if isinstance(st, ast.AnnAssign) and st.value is not None and isinstance(st.target, ast.Name):
                env[st.target.id] = collect(st.value, env, conds)
                continue
            if isinstance(st, ast.Expr):
                collect(st.value, env, conds)
                continue
            if isinstance(st, (ast.For, ast.While)):
                if isinstance(st, ast.For):
                    collect(st.iter, env, conds)
                inner_env = dict(env)
                if isinstance(st, ast.For):
                    for x in ast.walk(st.target):
                        if isinstance(x, ast.Name):
                            inner_env.pop(x.id, None)
                block(st.body, inner_env, conds)
                # bindings made in a loop body are not known afterwards
                assigned = {x.id for b in st.body for x in ast.walk(b) if isinstance(x, ast.Name) and isinstance(x.ctx, ast.Store)}
                env = {k: v for k, v in env.items() if k not in assigned}
                block(st.orelse, dict(env), conds)
                continue
            if isinstance(st, ast.With):
                env, term = block(st.body, env, conds)
                if term:
                    return env, True
                continue
            if isinstance(st, ast.Try):
                env, term = block(st.body, env, conds)
                if term:
                    return env, True
                continue
        return env, False

    block(inside if inside is not None else fn.body, {}, [])
    return tr
