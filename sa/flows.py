"""E4 - field and token chains between the grammar and the model.

reader_classes(ctx): for every (model class, attribute) the token class the grammar feeds it with,
derived on every run from the grammar IR and the parse actions:
    'ident'    bare word | "double quoted"        (any text without `"` and line break)
    'text'     string literal, three styles          (any text)
    'expr'     backtick expression                   (any text without backtick)
    'keyword'  closed vocabulary of literals
    'combined' a Combine(...) of identifier parts     (column type, colour)
    'number' / 'object:<Blueprint>' / 'mixed:...'
type_of_path(ctx, fi, path): model classes an access path inside a render function can denote (from
parameter annotations, constructor annotations, isinstance narrowing is left to the caller)."""
from __future__ import annotations

import ast
from typing import Dict, List, Optional, Set, Tuple

from .core import norm, Unrecognised
from .grammar import G, Action, named_nodes, value_action, walk, flatten_alt, flatten_and
from . import gtools as gt
from .pyindex import walk_no_nested, FuncInfo

IDENT_CHARS = frozenset('ABCDEFGHIJKLMNOPQRSTUVWXYZabcdefghijklmnopqrstuvwxyz0123456789_')


def token_class(x: G) -> str:
    """Class of the value a named grammar element yields."""
    va = value_action(x)
    if va is not None and va.kind != 'internal':
        from .rules.c01 import returned_constructor
        rc = returned_constructor(va)
        if rc is not None:
            return f'object:{rc[0]}'
        return 'object:?'
    core = x
    while core.kind in ('suppress', 'group', 'forward') and core.kids:
        core = core.kids[0]
    if core.kind == 'and':
        rest = [k for k in flatten_and(core) if k.kind not in gt.ZERO_WIDTH and k.kind != 'suppress' and not gt.is_blank_skipper(k)]
        if len(rest) == 1:
            return token_class(rest[0])
    if core.kind == 'combine':
        return 'combined'
    v = gt.vocab_of(core)
    if v is not None:
        return 'keyword'
    ft = gt.first_tokens(core)
    kinds = set()
    for t in ft:
        if t.kind == 'quoted':
            kinds.add('q' + t.a['quote'])
        elif t.kind == 'word':
            cs = t.a['init'] | t.a['body']
            kinds.add('digits' if cs <= frozenset('0123456789') else ('word' if all(('a' + c).isidentifier() for c in cs) else 'freeword'))
        elif t.kind == 'lit':
            kinds.add('lit' + t.a['text'])
        else:
            kinds.add(t.kind)
    if kinds and kinds <= {"q'", 'q"', "q'''"} and "q'" in kinds:
        return 'text'
    if kinds == {'word', 'q"'}:
        return 'ident'
    if kinds == {'lit`'}:
        return 'expr'
    if kinds == {'digits'}:
        return 'number'
    if core.kind in ('first', 'or'):
        subs = sorted({token_class(k) for k in flatten_alt(core, ('first', 'or'))})
        return subs[0] if len(subs) == 1 else 'mixed:' + '|'.join(subs)
    return 'other:' + '|'.join(sorted(kinds))


def action_key_sources(act: Action) -> Dict[str, List[Tuple[str, ...]]]:
    """Dict keys an action stores -> results-name paths read in the stored value: ('name',) or ('col1', 'table')."""
    out: Dict[str, List[Tuple[str, ...]]] = {}
    if act.node is None or isinstance(act.node, ast.Lambda):
        return out
    tokp = act.tok_param()

    def paths(v: ast.AST) -> List[Tuple[str, ...]]:
        res = []
        for n in ast.walk(v):
            if isinstance(n, ast.Subscript) and isinstance(n.slice, ast.Constant) and isinstance(n.slice.value, str):
                if norm(n.value) == tokp:
                    res.append((n.slice.value,))
                elif isinstance(n.value, ast.Subscript) and norm(n.value.value) == tokp and isinstance(n.value.slice, ast.Constant):
                    res.append((n.value.slice.value, n.slice.value))
        # drop prefixes of longer paths
        return [p for p in res if not any(q != p and q[:len(p)] == p for q in res)]
    for n in walk_no_nested(act.node):
        if isinstance(n, ast.Assign) and len(n.targets) == 1:
            t, v = n.targets[0], n.value
            if isinstance(t, ast.Name) and isinstance(v, ast.Dict):
                for k, vv in zip(v.keys, v.values):
                    if isinstance(k, ast.Constant) and isinstance(k.value, str):
                        out.setdefault(k.value, []).extend(paths(vv))
            if isinstance(t, ast.Subscript) and isinstance(t.slice, ast.Constant) and isinstance(t.slice.value, str) and norm(t.value) != tokp:
                out.setdefault(t.slice.value, []).extend(paths(v))
    # the same keys written as keyword arguments of the blueprint constructor the action returns: `return XBlueprint(name=tok['name'], ...)`
    for n in walk_no_nested(act.node):
        if isinstance(n, ast.Call) and isinstance(n.func, ast.Name) and n.func.id.endswith('Blueprint'):
            for k in n.keywords:
                if k.arg is not None:
                    out.setdefault(k.arg, []).extend(paths(k.value))
    return out


def reader_classes(ctx) -> Dict[Tuple[str, str], Set[str]]:
    """(model class name, attribute) -> token classes, through action keys and blueprint fields of the same name."""
    from .rules.c01 import returned_constructor, blueprint_classes, dict_keys_of
    idx = ctx.idx
    gm = ctx.grammar
    bps = blueprint_classes(ctx)
    model_of: Dict[str, str] = {}
    for cname, ci in bps.items():
        b = ci.methods.get('build')
        if b is None:
            continue
        for n in walk_no_nested(b.node):
            if isinstance(n, ast.Return) and n.value is not None:
                v = n.value
                if isinstance(v, ast.Name):
                    for s in walk_no_nested(b.node):
                        if isinstance(s, ast.Assign) and norm(s.targets[0]) == v.id and isinstance(s.value, ast.Call):
                            v = s.value
                if isinstance(v, ast.Call) and isinstance(v.func, ast.Name):
                    model_of[cname] = v.func.id
    out: Dict[Tuple[str, str], Set[str]] = {}

    def classes_for(g: G, path: Tuple[str, ...]) -> Set[str]:
        res: Set[str] = set()
        for x in named_nodes(g, path[0]):
            if len(path) == 1:
                res.add(token_class(x))
            else:
                # second level: the named element has its own action returning a dict keyed by path[1]
                va = value_action(x)
                if va is not None:
                    for p2 in action_key_sources(va).get(path[1], []):
                        res |= classes_for(x, p2)
        return res
    for g in gm.action_nodes():
        for a in g.actions:
            if a.kind in ('internal', 'method') or a.node is None:
                continue
            rc = returned_constructor(a)
            if rc is None or rc[0] not in bps:
                continue
            cname, call = rc
            model = model_of.get(cname)
            if model is None:
                continue
            fields = [st.target.id for st in bps[cname].node.body if isinstance(st, ast.AnnAssign) and isinstance(st.target, ast.Name)]
            # positional constructor arguments (lambdas: NoteBlueprint(tok['text']))
            tokp = a.tok_param()
            for i, arg in enumerate(call.args):
                if i < len(fields):
                    for n in ast.walk(arg):
                        if isinstance(n, ast.Subscript) and norm(n.value) == tokp and isinstance(n.slice, ast.Constant):
                            if isinstance(n.slice.value, str):
                                out.setdefault((model, fields[i]), set()).update(classes_for(g, (n.slice.value,)))
                            elif isinstance(n.slice.value, int):
                                out.setdefault((model, fields[i]), set()).add(token_class(g))
            srcs = action_key_sources(a)
            for k, plist in srcs.items():
                for p in plist:
                    out.setdefault((model, k), set()).update(classes_for(g, p))
            # merged settings dicts
            _, merged = dict_keys_of(a)
            for mname in merged:
                for sx in named_nodes(g, mname):
                    sa = value_action(sx)
                    if sa is None or sa.node is None:
                        continue
                    for k, plist in action_key_sources(sa).items():
                        for p in plist:
                            out.setdefault((model, k), set()).update(classes_for(sx, p))
    return out


def pair_classes(ctx) -> Dict[str, Tuple[str, str]]:
    """Token classes of the (key, value) pairs read positionally: arbitrary properties and project items."""
    gm = ctx.grammar
    out: Dict[str, Tuple[str, str]] = {}
    for n in gm.reachable(True):
        if n.name == 'property':
            seq = [x for x in flatten_and(n) if x.kind not in gt.ZERO_WIDTH and x.kind != 'suppress']
            if len(seq) == 2:
                out['property'] = (token_class(seq[0]), token_class(seq[1]))
    for g in gm.nodes_with_action('parse_project'):
        for x in walk(g):
            if x.kind == 'group':
                seq = [y for y in flatten_and(x.kids[0]) if y.kind not in gt.ZERO_WIDTH and y.kind != 'suppress' and not gt.is_blank_skipper(y)]
                if len(seq) == 2:
                    out['project_item'] = (token_class(seq[0]), token_class(seq[1]))
    return out


# ----------------------------------------------------------------------------------------------
# light typing of access paths in render functions
# ----------------------------------------------------------------------------------------------

def attr_types(ctx, cid: str, attr: str) -> Set[str]:
    """Class ids an attribute of a model class can hold (constructor annotations, properties)."""
    idx = ctx.idx
    ci = idx.classes[cid]
    out: Set[str] = set()
    for c in idx.mro(cid):
        init = c.methods.get('__init__')
        if init is not None:
            for a in init.node.args.args:
                if a.arg == attr:
                    out |= idx.ann_classes(c.module, a.annotation)
            for n in walk_no_nested(init.node):
                if isinstance(n, ast.AnnAssign) and norm(n.target) == f'self.{attr}':
                    out |= idx.ann_classes(c.module, n.annotation)
        p = c.props.get(attr)
        if p is not None and p.node.returns is not None:
            out |= idx.ann_classes(c.module, p.node.returns)
    if attr == 'note':
        out |= {k for k, v in idx.classes.items() if v.name == 'Note'}
    if attr in ('table1', 'table2', 'table') and not out:
        out |= {k for k, v in idx.classes.items() if v.name == 'Table' and v.module.startswith('pydbml._classes')}
    return out


def type_of_path(ctx, fi: FuncInfo, path: str, env: Optional[Dict[str, Set[str]]] = None) -> Set[str]:
    """Class ids the access path (a.b[0].c) can denote inside fi."""
    idx = ctx.idx
    env = env if env is not None else idx.param_types(fi)
    parts: List[str] = []
    cur = ''
    for ch in path:
        if ch == '.':
            parts.append(cur)
            cur = ''
        else:
            cur += ch
    parts.append(cur)
    root = parts[0].split('[')[0]
    types = set(env.get(root, set()))
    for p in parts[1:]:
        attr = p.split('[')[0]
        nxt: Set[str] = set()
        for t in types:
            nxt |= attr_types(ctx, t, attr)
        types = nxt
    return types


def loop_var_types(ctx, fi: FuncInfo) -> Dict[str, Set[str]]:
    """Types of loop / comprehension variables from the element types of what they iterate."""
    idx = ctx.idx
    env = idx.param_types(fi)
    changed = True
    rounds = 0
    while changed and rounds < 4:
        changed = False
        rounds += 1
        for n in ast.walk(fi.node):
            if isinstance(n, (ast.For, ast.comprehension)):
                it = n.iter
                srcs: List[ast.AST] = []
                if isinstance(it, ast.Call) and norm(it.func) in ('chain', 'list', 'tuple', 'iter', 'reversed', 'sorted', 'enumerate'):
                    srcs = list(it.args)
                elif isinstance(it, ast.Call) and isinstance(it.func, ast.Attribute) and it.func.attr in ('items', 'values', 'keys'):
                    srcs = []
                else:
                    srcs = [it]
                ts: Set[str] = set()
                for s in srcs:
                    from .pyindex import access_path
                    ap = access_path(s)
                    if ap:
                        ts |= type_of_path(ctx, fi, ap, env)
                if isinstance(n.target, ast.Name) and ts and not ts <= env.get(n.target.id, set()):
                    env.setdefault(n.target.id, set()).update(ts)
                    changed = True
            elif isinstance(n, ast.Assign) and len(n.targets) == 1 and isinstance(n.targets[0], ast.Name):
                from .pyindex import access_path as _ap
                ap = _ap(n.value)
                if ap and ('.' in ap or '[' in ap):
                    ts = type_of_path(ctx, fi, ap, env)
                    if ts and not ts <= env.get(n.targets[0].id, set()):
                        env.setdefault(n.targets[0].id, set()).update(ts)
                        changed = True
    return env


def build_envs(ctx, prefixes: Tuple[str, ...]) -> Dict[str, Dict[str, Set[str]]]:
    """Type environments of the functions under the module prefixes: annotations, loop variables, and types of
    the arguments at call sites for parameters that carry no annotation (one propagation round per nesting level)."""
    from .pyindex import access_path
    idx = ctx.idx
    funcs = {fid: fi for fid, fi in idx.funcs.items() if fi.module.startswith(prefixes) and not isinstance(fi.node, ast.Lambda)}
    envs: Dict[str, Dict[str, Set[str]]] = {fid: loop_var_types(ctx, fi) for fid, fi in funcs.items()}
    for _ in range(3):
        changed = False
        for fid, fi in funcs.items():
            for c in ast.walk(fi.node):
                if not (isinstance(c, ast.Call) and isinstance(c.func, ast.Name)):
                    continue
                sym = idx.resolve(fi.module, c.func.id)
                if sym is None or sym.kind != 'func':
                    continue
                cid = f'{sym.module}:{sym.name}'
                if cid not in funcs:
                    continue
                params = [a.arg for a in funcs[cid].node.args.args]
                for i, a in enumerate(c.args):
                    if i >= len(params):
                        break
                    ap = access_path(a)
                    if ap is None:
                        continue
                    ts = type_of_path(ctx, fi, ap, envs[fid])
                    if ts and not ts <= envs[cid].get(params[i], set()):
                        envs[cid].setdefault(params[i], set()).update(ts)
                        changed = True
        if not changed:
            break
        for fid, fi in funcs.items():
            # re-derive loop variables with the enriched parameter types
            env = envs[fid]
            for n in ast.walk(fi.node):
                if isinstance(n, (ast.For, ast.comprehension)) and isinstance(n.target, ast.Name):
                    ap = access_path(n.iter)
                    if ap:
                        ts = type_of_path(ctx, fi, ap, env)
                        if ts:
                            env.setdefault(n.target.id, set()).update(ts)
    return envs


def sink_attrs(ctx, sink, envs) -> Set[Tuple[str, str]]:
    """(model class name, attribute) pairs a sink's underlying value can be."""
    idx = ctx.idx
    kind, src = sink.source
    out: Set[Tuple[str, str]] = set()
    if kind != 'attr':
        return out
    if '.' not in src:
        return out
    obj, attr = src.rsplit('.', 1)
    if '[' in attr:
        return out
    env = envs.get(sink.fn.id, {})
    for t in type_of_path(ctx, sink.fn, obj, env):
        out.add((idx.classes[t].name, attr))
    return out
