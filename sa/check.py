"""Driver: python3 -m sa.check <PROP> [--tier quick|thorough] [--only RULE] [--repo DIR]

Exit codes: 0 every obligation discharged (or refuted only by listed known findings);
1 + `VIOLATION property=<id> replay=<path>` for a refuted obligation that is not a known
finding; 2 + `ANALYSIS-ERROR` when a construct could not be interpreted (never a VIOLATION).
"""
from __future__ import annotations

import argparse
import importlib
import os
import sys
import time
import traceback

from .core import Collector, finish, UNRECOGNISED, guarded
from .pyindex import PyIndex


class Ctx:
    def __init__(self, repo: str, tier: str):
        self.repo = repo
        self.tier = tier
        self.unroll = 2
        self.inline_depth = 4 if tier == 'thorough' else 2
        self._idx = None
        self._grammar = None
        self._sub = {}

    def sub(self, modname: str, prop: str):
        """Obligations of another property's rule module (shared rules), computed once per run."""
        if modname not in self._sub:
            running = self.__dict__.setdefault('_sub_running', [])
            if modname in running:
                raise RuntimeError(f'cyclic shared rules: {" -> ".join(running + [modname])}')
            running.append(modname)
            try:
                mod = importlib.import_module(f'sa.rules.{modname}')
                c = Collector(prop)
                mod.run(self, c)
                self._sub[modname] = c
            finally:
                running.pop()
        return self._sub[modname]

    @property
    def idx(self) -> PyIndex:
        if self._idx is None:
            self._idx = PyIndex(self.repo)
        return self._idx

    @property
    def grammar(self):
        if self._grammar is None:
            from .grammar import GrammarModel
            self._grammar = GrammarModel(self.idx)
        return self._grammar


def run_property(prop: str, repo: str, tier: str, only=None, evidence_dir=None, quiet=False,
                 selftest=True) -> int:
    t0 = time.time()
    seed = int(os.environ.get('VERIF_SEED', '0') or 0)
    col = Collector(prop)
    mod = importlib.import_module(f'sa.rules.{prop.lower()}')
    try:
        ctx = Ctx(repo, tier)
        ctx.idx  # parse the package (syntax errors -> analysis error)
        ctx.__dict__.setdefault('_sub_running', []).append(prop.lower())
        mod.run(ctx, col)
    except Exception as e:
        tb = traceback.format_exc()
        col.unk(f'{prop}-driver', 'run', f'analyser crashed: {type(e).__name__}: {e}')
        if not quiet:
            sys.stderr.write(tb)
    if only:
        col.obs = [o for o in col.obs if o.rule.startswith(only) or o.status == UNRECOGNISED and False]
    extra = {}
    if tier == 'thorough' and selftest and os.environ.get('VERIF_NO_SELFTEST') != '1':
        try:
            from selftest.run import battery_for
            extra = battery_for(prop, col, repo)
        except Exception as e:
            col.unk(f'{prop}-selftest', 'battery', f'self-test battery failed to run: {type(e).__name__}: {e}')
            if not quiet:
                sys.stderr.write(traceback.format_exc())
    col.stat('modules_parsed', len(ctx.idx.modules) if ctx._idx is not None else 0)
    col.stat('functions_indexed', len(ctx.idx.funcs) if ctx._idx is not None else 0)
    return finish(col, tier, seed, t0, getattr(mod, 'EXPLANATION', ''), getattr(mod, 'ASSUMPTIONS', []),
                  getattr(mod, 'RULE_TEXT', ''), evidence_dir=evidence_dir, extra_cov=extra, quiet=quiet)


def main(argv=None) -> int:
    # a reader that closes the pipe early (`| head`) must not turn into a Python traceback with exit status 1
    try:
        import signal
        signal.signal(signal.SIGPIPE, signal.SIG_DFL)
    except (ImportError, AttributeError, ValueError):     # pragma: no cover
        pass
    ap = argparse.ArgumentParser()
    ap.add_argument('prop')
    ap.add_argument('--tier', default=os.environ.get('VERIF_TIER') or 'quick', choices=['quick', 'thorough'])
    ap.add_argument('--only', default=None)
    ap.add_argument('--repo', default=os.environ.get('VERIF_REPO', '/repo'))
    ap.add_argument('--evidence-dir', default=None)
    ap.add_argument('--replay', default=None, help='replay file written by an earlier run')
    ap.add_argument('--quiet', action='store_true')
    a = ap.parse_args(argv)
    only = a.only
    if a.replay:
        import json
        with open(a.replay) as f:
            only = json.load(f).get('rule')
    try:
        return run_property(a.prop.upper(), a.repo, a.tier, only, a.evidence_dir, a.quiet)
    except Exception as e:  # last resort: never let a traceback look like a violation
        sys.stderr.write(traceback.format_exc())
        print(f'ANALYSIS-ERROR property={a.prop} driver: {type(e).__name__}: {e}')
        return 2


if __name__ == '__main__':
    sys.exit(main())
