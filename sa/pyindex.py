"""E1 - resolved program: modules, symbols, imports, classes, MRO, registries, light type
inference and a call graph.  Source only; nothing is imported or executed."""
from __future__ import annotations

import ast
import os
from dataclasses import dataclass, field
from typing import Dict, Iterable, Iterator, List, Optional, Set, Tuple, Union

from .core import AnchorMissing, norm

PKG = 'pydbml'


@dataclass
class Symbol:
    kind: str            # 'func' | 'class' | 'assign' | 'import' | 'module'
    module: str          # module where it is bound
    name: str
    node: Optional[ast.AST] = None
    target_mod: Optional[str] = None   # for imports
    target_name: Optional[str] = None  # for from-imports (None = the module itself)


@dataclass
class FuncInfo:
    module: str
    qualname: str        # 'func' or 'Class.method'
    node: Union[ast.FunctionDef, ast.Lambda]
    cls: Optional[str] = None       # class qualified id 'module:Class'
    kind: str = 'function'          # function|method|classmethod|staticmethod|property|setter

    @property
    def id(self) -> str:
        return f'{self.module}:{self.qualname}'

    @property
    def file(self) -> str:
        return self.module.replace('.', '/') + '.py'


@dataclass
class ClassInfo:
    module: str
    name: str
    node: ast.ClassDef
    bases: List[str] = field(default_factory=list)        # resolved ids 'module:Class' or 'ext:...'
    methods: Dict[str, FuncInfo] = field(default_factory=dict)
    props: Dict[str, FuncInfo] = field(default_factory=dict)
    setters: Dict[str, FuncInfo] = field(default_factory=dict)
    class_attrs: Dict[str, ast.AST] = field(default_factory=dict)
    class_attr_ann: Dict[str, ast.AST] = field(default_factory=dict)
    decorators: List[str] = field(default_factory=list)

    @property
    def id(self) -> str:
        return f'{self.module}:{self.name}'


class _Computed(frozenset):
    """Attribute names computed on read somewhere in the package; `of_class(C)` narrows to what class C (and its bases) compute, None if unknown."""
    def __new__(cls, names, class_props=None):
        o = super().__new__(cls, names)
        o.class_props = class_props or {}
        return o

    def of_class(self, cname, _seen=None):
        _seen = _seen or set()
        if cname in _seen:
            return set()
        _seen.add(cname)
        defs = self.class_props.get(cname)
        if not defs or len(defs) != 1:
            return None if cname not in ('object', 'ABC') else set()
        props, bases, dyn = defs[0]
        if dyn:
            return None
        out = set(props)
        for b in bases:
            sub = self.of_class(b, _seen)
            if sub is None:
                return None
            out |= sub
        return out


class Module:
    def __init__(self, name: str, path: str, relpath: str, src: str, computed_attrs=frozenset()):
        self.name = name
        self.path = path
        self.relpath = relpath
        self.src = src
        from .normalise import canonicalise
        self.tree = canonicalise(ast.parse(src, filename=path), computed_attrs)
        self.is_pkg = os.path.basename(path) == '__init__.py'
        self.symbols: Dict[str, Symbol] = {}

    @property
    def package(self) -> str:
        return self.name if self.is_pkg else self.name.rsplit('.', 1)[0]


class PyIndex:
    def __init__(self, repo: str):
        self.repo = repo
        self.modules: Dict[str, Module] = {}
        self.classes: Dict[str, ClassInfo] = {}
        self.funcs: Dict[str, FuncInfo] = {}
        self.registry: Dict[str, Dict[str, List[FuncInfo]]] = {}   # renderer class id -> model class id -> funcs
        self._load()
        self._unwrap_decorators()
        self._bind()
        self._collect()

    # ------------------------------------------------------------------ loading
    def _load(self):
        root = os.path.join(self.repo, PKG)
        if not os.path.isdir(root):
            raise AnchorMissing(f'package directory {root} not found')
        found = []
        for dirpath, dirnames, filenames in os.walk(root):
            dirnames[:] = sorted(d for d in dirnames if d != '__pycache__')
            for fn in sorted(filenames):
                if not fn.endswith('.py'):
                    continue
                path = os.path.join(dirpath, fn)
                rel = os.path.relpath(path, self.repo)
                parts = rel[:-3].split(os.sep)
                if parts[-1] == '__init__':
                    parts = parts[:-1]
                name = '.'.join(parts)
                with open(path, encoding='utf8') as f:
                    src = f.read()
                found.append((name, path, rel, src))
        # attribute names that are computed on read somewhere in the package (properties, __getattr__ users): a local alias of such an
        # attribute is NOT interchangeable with the attribute path, so the canonicaliser must leave it alone
        computed = set()
        for name, path, rel, src in found:
            try:
                t = ast.parse(src, filename=path)
            except SyntaxError:
                continue
            for n in ast.walk(t):
                if isinstance(n, (ast.FunctionDef, ast.AsyncFunctionDef)) and any(
                        (isinstance(d, ast.Name) and d.id in ('property', 'cached_property')) or
                        (isinstance(d, ast.Attribute) and d.attr in ('setter', 'getter', 'cached_property')) for d in n.decorator_list):
                    computed.add(n.name)
        class_props = {}
        for name, path, rel, src in found:
            try:
                t = ast.parse(src, filename=path)
            except SyntaxError:
                continue
            for c in ast.walk(t):
                if isinstance(c, ast.ClassDef):
                    props = {n.name for n in c.body if isinstance(n, (ast.FunctionDef, ast.AsyncFunctionDef)) and n.name in computed and n.decorator_list}
                    dyn = any(isinstance(n, ast.FunctionDef) and n.name in ('__getattr__', '__getattribute__') for n in c.body)
                    bases = [b.id if isinstance(b, ast.Name) else (b.attr if isinstance(b, ast.Attribute) else '?') for b in c.bases]
                    class_props.setdefault(c.name, []).append((props, bases, dyn))
        self.computed_attrs = _Computed(computed, class_props)
        for name, path, rel, src in found:
            self.modules[name] = Module(name, path, rel, src, self.computed_attrs)

    def _merge_singledispatch(self):
        """`@singledispatch def f(x): B0` + `@f.register def _(x: T): B1` ... is read as `def f(x): if isinstance(x, T): B1 ... else: B0` (the dispatch is on the
        class of the first argument; registered classes are tried before the generic body)."""
        import copy
        for mod in self.modules.values():
            bases = {st.name: st for st in mod.tree.body if isinstance(st, ast.FunctionDef) and any(
                (isinstance(d, ast.Name) and d.id == 'singledispatch') or (isinstance(d, ast.Attribute) and d.attr == 'singledispatch') for d in st.decorator_list)}
            if not bases:
                continue
            impls: Dict[str, List[Tuple[ast.AST, ast.FunctionDef]]] = {}
            drop = set()
            for st in mod.tree.body:
                if not isinstance(st, ast.FunctionDef):
                    continue
                for d in st.decorator_list:
                    tgt = None
                    cls_expr = None
                    if isinstance(d, ast.Attribute) and d.attr == 'register' and isinstance(d.value, ast.Name) and d.value.id in bases:
                        tgt = d.value.id
                        if st.args.args and st.args.args[0].annotation is not None:
                            cls_expr = st.args.args[0].annotation
                    elif isinstance(d, ast.Call) and isinstance(d.func, ast.Attribute) and d.func.attr == 'register' and isinstance(d.func.value, ast.Name) \
                            and d.func.value.id in bases and len(d.args) == 1:
                        tgt, cls_expr = d.func.value.id, d.args[0]
                    if tgt is not None and cls_expr is not None and len(st.decorator_list) == 1 and st.args.args:
                        if isinstance(cls_expr, ast.Constant) and isinstance(cls_expr.value, str):
                            try:
                                cls_expr = ast.parse(cls_expr.value, mode='eval').body
                            except SyntaxError:
                                continue
                        impls.setdefault(tgt, []).append((cls_expr, st))
                        drop.add(id(st))
            for name, base in bases.items():
                if not impls.get(name) or not base.args.args:
                    continue
                p0 = base.args.args[0].arg
                chain: List[ast.stmt] = list(base.body)
                for cls_expr, impl in reversed(impls[name]):
                    ip = impl.args.args[0].arg

                    class _R(ast.NodeTransformer):
                        def visit_Name(self_, n):
                            return ast.copy_location(ast.Name(id=p0, ctx=n.ctx), n) if n.id == ip else n
                    body = [_R().visit(copy.deepcopy(b)) for b in impl.body]
                    test = ast.Call(func=ast.Name(id='isinstance', ctx=ast.Load()), args=[ast.Name(id=p0, ctx=ast.Load()), copy.deepcopy(cls_expr)], keywords=[])
                    node = ast.If(test=test, body=body, orelse=chain)
                    ast.copy_location(node, impl)
                    ast.fix_missing_locations(node)
                    chain = [node]
                base.body = chain
                base.decorator_list = [d for d in base.decorator_list if not ((isinstance(d, ast.Name) and d.id == 'singledispatch') or
                                                                              (isinstance(d, ast.Attribute) and d.attr == 'singledispatch'))]
            mod.tree.body = [st for st in mod.tree.body if id(st) not in drop]

    def _unwrap_decorators(self):
        self._merge_singledispatch()
        self._unwrap_wrappers()
        self._partials_to_functions()
        self._split_record_attributes()

    def _split_record_attributes(self):
        """`self.opts = Record(a=x, b=y)` (Record a NamedTuple of the same module; assigned in one place of the class, and otherwise only read as `self.opts.<field>`
        or `**self.opts._asdict()`) is read as one attribute per field: `self.opts__a = x; self.opts__b = y`, `self.opts.a` -> `self.opts__a`,
        `f(**self.opts._asdict())` -> `f(a=self.opts__a, b=self.opts__b)`.  A group of values bundled into a record is then the same program as the separate attributes."""
        import copy
        for mod in self.modules.values():
            records = {}
            for st in mod.tree.body:
                if isinstance(st, ast.ClassDef) and any((isinstance(b, ast.Name) and b.id == 'NamedTuple') or (isinstance(b, ast.Attribute) and b.attr == 'NamedTuple')
                                                        for b in st.bases):
                    fields = [x.target.id for x in st.body if isinstance(x, ast.AnnAssign) and isinstance(x.target, ast.Name)]
                    if fields and not any(isinstance(x, ast.FunctionDef) for x in st.body):
                        records[st.name] = fields
            if not records:
                continue
            for cls in [st for st in mod.tree.body if isinstance(st, ast.ClassDef)]:
                stores = [n for n in ast.walk(cls) if isinstance(n, ast.Assign) and len(n.targets) == 1 and isinstance(n.targets[0], ast.Attribute)
                          and isinstance(n.targets[0].value, ast.Name) and n.targets[0].value.id == 'self' and isinstance(n.value, ast.Call)
                          and isinstance(n.value.func, ast.Name) and n.value.func.id in records]
                by_attr = {}
                for n in stores:
                    by_attr.setdefault(n.targets[0].attr, []).append(n)
                for attr, ns in by_attr.items():
                    if len(ns) != 1:
                        continue
                    n = ns[0]
                    fields = records[n.value.func.id]
                    if any(isinstance(a, ast.Starred) for a in n.value.args) or any(k.arg is None or k.arg not in fields for k in n.value.keywords) or len(n.value.args) > len(fields):
                        continue
                    vals = dict(zip(fields, n.value.args))
                    vals.update({k.arg: k.value for k in n.value.keywords})
                    if set(vals) != set(fields):
                        continue
                    # every other use of self.<attr> is a field read or `._asdict()`
                    uses = [x for x in ast.walk(cls) if isinstance(x, ast.Attribute) and x.attr == attr and isinstance(x.value, ast.Name) and x.value.id == 'self'
                            and x is not n.targets[0]]
                    parents = {}
                    for p_ in ast.walk(cls):
                        for ch in ast.iter_child_nodes(p_):
                            parents[id(ch)] = p_
                    okay = True
                    for u in uses:
                        par = parents.get(id(u))
                        if isinstance(par, ast.Attribute) and isinstance(par.ctx, ast.Load) and (par.attr in fields or par.attr == '_asdict'):
                            if par.attr == '_asdict':
                                gp = parents.get(id(par))
                                ggp = parents.get(id(gp)) if gp is not None else None
                                if not (isinstance(gp, ast.Call) and not gp.args and isinstance(ggp, ast.keyword) and ggp.arg is None):
                                    okay = False
                            continue
                        okay = False
                    if not okay:
                        continue

                    class _R(ast.NodeTransformer):
                        def visit_Assign(self_, a):
                            if a is n:
                                out = []
                                for f_ in fields:
                                    s_ = ast.Assign(targets=[ast.Attribute(value=ast.Name(id='self', ctx=ast.Load()), attr=f'{attr}__{f_}', ctx=ast.Store())], value=vals[f_])
                                    ast.copy_location(s_, a)
                                    ast.fix_missing_locations(s_)
                                    out.append(s_)
                                return out
                            self_.generic_visit(a)
                            return a

                        def visit_Attribute(self_, x):
                            self_.generic_visit(x)
                            if isinstance(x.value, ast.Attribute) and x.value.attr == attr and isinstance(x.value.value, ast.Name) and x.value.value.id == 'self' and x.attr in fields:
                                return ast.copy_location(ast.Attribute(value=ast.Name(id='self', ctx=ast.Load()), attr=f'{attr}__{x.attr}', ctx=x.ctx), x)
                            return x

                        def visit_Call(self_, c):
                            new_kw = []
                            for k in c.keywords:
                                v = k.value
                                if k.arg is None and isinstance(v, ast.Call) and isinstance(v.func, ast.Attribute) and v.func.attr == '_asdict' \
                                        and isinstance(v.func.value, ast.Attribute) and v.func.value.attr == attr and isinstance(v.func.value.value, ast.Name) \
                                        and v.func.value.value.id == 'self':
                                    for f_ in fields:
                                        new_kw.append(ast.keyword(arg=f_, value=ast.Attribute(value=ast.Name(id='self', ctx=ast.Load()), attr=f'{attr}__{f_}', ctx=ast.Load())))
                                else:
                                    new_kw.append(k)
                            c.keywords = new_kw
                            self_.generic_visit(c)
                            return c
                    _R().visit(cls)
                    ast.fix_missing_locations(cls)

    def _partials_to_functions(self):
        """Module level `name = partial(f, a, k=v)` with f a function of the same module is read as `def name(<the other parameters of f>): return f(a, <them>, k=v)`:
        the thin wrapper it stands for (rules anchor on such names; the inliner expands the call)."""
        import copy
        for mod in self.modules.values():
            fdefs = {st.name: st for st in mod.tree.body if isinstance(st, ast.FunctionDef)}
            new_body: List[ast.stmt] = []
            for st in mod.tree.body:
                v = st.value if isinstance(st, ast.Assign) and len(st.targets) == 1 and isinstance(st.targets[0], ast.Name) else None
                if not (isinstance(v, ast.Call) and ((isinstance(v.func, ast.Name) and v.func.id == 'partial') or (isinstance(v.func, ast.Attribute) and v.func.attr == 'partial'))
                        and v.args and isinstance(v.args[0], ast.Name) and v.args[0].id in fdefs and not any(isinstance(a, ast.Starred) for a in v.args)
                        and all(k.arg is not None for k in v.keywords)):
                    new_body.append(st)
                    continue
                f = fdefs[v.args[0].id]
                if f.args.vararg or f.args.kwarg or f.args.posonlyargs or f.decorator_list:
                    new_body.append(st)
                    continue
                fparams = [a.arg for a in f.args.args]
                n_pos = len(v.args) - 1
                bound_kw = {k.arg for k in v.keywords}
                rest = [a for a in f.args.args[n_pos:] if a.arg not in bound_kw]
                defaults = dict(zip(fparams[len(fparams) - len(f.args.defaults):], f.args.defaults))
                rest_defaults = []
                seen_default = False
                okp = True
                for a in rest:
                    if a.arg in defaults:
                        rest_defaults.append(copy.deepcopy(defaults[a.arg]))
                        seen_default = True
                    elif seen_default:
                        okp = False
                if not okp:
                    new_body.append(st)
                    continue
                call = ast.Call(func=ast.Name(id=f.name, ctx=ast.Load()), args=[copy.deepcopy(a) for a in v.args[1:]],
                                keywords=[ast.keyword(arg=a.arg, value=ast.Name(id=a.arg, ctx=ast.Load())) for a in rest] + [copy.deepcopy(k) for k in v.keywords])
                fn = ast.FunctionDef(name=st.targets[0].id,
                                     args=ast.arguments(posonlyargs=[], args=[copy.deepcopy(a) for a in rest], vararg=None, kwonlyargs=[], kw_defaults=[], kwarg=None,
                                                        defaults=rest_defaults),
                                     body=[ast.Return(value=call)], decorator_list=[], returns=copy.deepcopy(f.returns), type_comment=None)
                if hasattr(f, 'type_params'):
                    fn.type_params = []
                ast.copy_location(fn, st)
                ast.fix_missing_locations(fn)
                new_body.append(fn)
            mod.tree.body = new_body

    def _unwrap_wrappers(self):
        """`@deco def f(..)` where deco is a function of the package of the plain wrapping shape
               def deco(func):            [@wraps(func)]
                   def wrapper(<params>): BODY that calls func(...)
                   return wrapper
        is read as what it produces: `f` becomes the wrapper's body with `func` standing for the undecorated function, which is kept under the name
        `f__undecorated` (a helper the inliner can expand).  The other decorators of f stay on the new f."""
        import copy

        def wrapping_shape(d: ast.FunctionDef):
            if len(d.args.args) != 1 or d.args.vararg or d.args.kwarg:
                return None
            body = [b for b in d.body if not (isinstance(b, ast.Expr) and isinstance(b.value, ast.Constant))]
            if len(body) != 2 or not isinstance(body[0], ast.FunctionDef) or not isinstance(body[1], ast.Return) or not isinstance(body[1].value, ast.Name) \
                    or body[1].value.id != body[0].name:
                return None
            w = body[0]
            if any(not (isinstance(x, ast.Call) and isinstance(x.func, ast.Name) and x.func.id == 'wraps') for x in w.decorator_list):
                return None
            fparam = d.args.args[0].arg
            if not any(isinstance(c, ast.Call) and isinstance(c.func, ast.Name) and c.func.id == fparam for c in ast.walk(w)):
                return None
            if any(isinstance(x, ast.Name) and x.id == fparam and not isinstance(getattr(x, 'ctx', None), ast.Load) for x in ast.walk(w)):
                return None
            return fparam, w
        # decorators defined at module level, by module
        shapes: Dict[Tuple[str, str], Tuple[str, ast.FunctionDef]] = {}
        for mname, mod in self.modules.items():
            for st in mod.tree.body:
                if isinstance(st, ast.FunctionDef):
                    sh = wrapping_shape(st)
                    if sh is not None:
                        shapes[(mname, st.name)] = sh
        if not shapes:
            return
        for mname, mod in self.modules.items():
            imported: Dict[str, Tuple[str, str]] = {}
            bound_here = set()
            for st in mod.tree.body:
                if isinstance(st, ast.ImportFrom):
                    tm = self._abs_module(mod, st.level, st.module)
                    for a in st.names:
                        imported[a.asname or a.name] = (tm, a.name)
                        bound_here.add(a.asname or a.name)
                elif isinstance(st, (ast.FunctionDef, ast.ClassDef)):
                    bound_here.add(st.name)
                elif isinstance(st, ast.Assign):
                    bound_here |= {t.id for t in st.targets if isinstance(t, ast.Name)}
                elif isinstance(st, ast.Import):
                    bound_here |= {(a.asname or a.name.split('.')[0]) for a in st.names}
            new_body: List[ast.stmt] = []
            extra_imports: List[ast.stmt] = []
            for st in mod.tree.body:
                if not isinstance(st, ast.FunctionDef):
                    new_body.append(st)
                    continue
                hit = None
                for k, dec in enumerate(st.decorator_list):
                    if isinstance(dec, ast.Name):
                        key = (mname, dec.id) if (mname, dec.id) in shapes else imported.get(dec.id)
                        if key in shapes:
                            hit = (k, key)
                if hit is None or hit[0] != len(st.decorator_list) - 1:          # only the innermost decorator wraps the function as written
                    new_body.append(st)
                    continue
                k, key = hit
                fparam, w = shapes[key]
                inner = copy.deepcopy(st)
                inner.name = f'{st.name}__undecorated'
                inner.decorator_list = []

                class _R(ast.NodeTransformer):
                    def visit_Name(self_, n):
                        if n.id == fparam:
                            return ast.copy_location(ast.Name(id=inner.name, ctx=n.ctx), n)
                        return n
                outer = ast.FunctionDef(name=st.name, args=copy.deepcopy(w.args), body=[_R().visit(copy.deepcopy(b)) for b in w.body],
                                        decorator_list=st.decorator_list[:k], returns=st.returns, type_comment=None)
                if hasattr(st, 'type_params'):
                    outer.type_params = []
                ast.copy_location(outer, st)
                ast.fix_missing_locations(outer)
                # names the wrapper body takes from the decorator's module
                dmod = self.modules[key[0]]
                d_bound = {x.name for x in dmod.tree.body if isinstance(x, (ast.FunctionDef, ast.ClassDef))} | \
                    {t.id for x in dmod.tree.body if isinstance(x, ast.Assign) for t in x.targets if isinstance(t, ast.Name)} | \
                    {(a.asname or a.name) for x in dmod.tree.body if isinstance(x, ast.ImportFrom) for a in x.names}
                wparams = {a.arg for a in w.args.args + w.args.kwonlyargs} | {inner.name}
                for x in ast.walk(outer):
                    if isinstance(x, ast.Name) and isinstance(x.ctx, ast.Load) and x.id not in bound_here and x.id not in wparams and x.id in d_bound and key[0] != mname:
                        extra_imports.append(ast.ImportFrom(module=key[0], names=[ast.alias(name=x.id, asname=None)], level=0))
                        bound_here.add(x.id)
                new_body.append(inner)
                new_body.append(outer)
            if len(new_body) != len(mod.tree.body) or extra_imports:
                for im in extra_imports:
                    im.lineno = im.col_offset = 0
                    ast.fix_missing_locations(im)
                mod.tree.body = extra_imports + new_body

    def _abs_module(self, mod: Module, level: int, target: Optional[str]) -> str:
        if level == 0:
            return target or ''
        base = mod.package.split('.')
        if level > 1:
            base = base[:-(level - 1)]
        return '.'.join(base + ([target] if target else []))

    def _bind(self):
        for mod in self.modules.values():
            self._bind_body(mod, mod.tree.body)

    def _bind_body(self, mod: Module, body: List[ast.stmt]):
        for st in body:
            if isinstance(st, (ast.FunctionDef, ast.AsyncFunctionDef)):
                mod.symbols[st.name] = Symbol('func', mod.name, st.name, st)
            elif isinstance(st, ast.ClassDef):
                mod.symbols[st.name] = Symbol('class', mod.name, st.name, st)
            elif isinstance(st, ast.Assign):
                for t in st.targets:
                    if isinstance(t, ast.Name):
                        mod.symbols[t.id] = Symbol('assign', mod.name, t.id, st.value)
            elif isinstance(st, ast.AnnAssign) and isinstance(st.target, ast.Name) and st.value is not None:
                mod.symbols[st.target.id] = Symbol('assign', mod.name, st.target.id, st.value)
            elif isinstance(st, ast.Import):
                for a in st.names:
                    bound = a.asname or a.name.split('.')[0]
                    mod.symbols[bound] = Symbol('import', mod.name, bound, st,
                                                target_mod=a.name if a.asname else a.name.split('.')[0])
            elif isinstance(st, ast.ImportFrom):
                tm = self._abs_module(mod, st.level, st.module)
                for a in st.names:
                    bound = a.asname or a.name
                    mod.symbols[bound] = Symbol('import', mod.name, bound, st, target_mod=tm, target_name=a.name)
            elif isinstance(st, ast.If):
                # `if TYPE_CHECKING:` imports are bound too (names only used in annotations)
                self._bind_body(mod, st.body)
                self._bind_body(mod, st.orelse)
            elif isinstance(st, ast.Try):
                self._bind_body(mod, st.body)

    # ------------------------------------------------------------------ resolution
    def resolve(self, modname: str, name: str, _depth: int = 0) -> Optional[Symbol]:
        """Follow imports inside the package to the defining symbol.  External names give
        Symbol(kind='import', target_mod=<external module>, target_name=name)."""
        if _depth > 12:
            return None
        mod = self.modules.get(modname)
        if mod is None:
            return None
        sym = mod.symbols.get(name)
        if sym is None:
            return None
        if sym.kind != 'import':
            return sym
        tm, tn = sym.target_mod, sym.target_name
        if tn is None:
            if tm in self.modules:
                return Symbol('module', tm, tm)
            return sym
        # from tm import tn : tn may be a submodule or a name
        if tm in self.modules:
            sub = f'{tm}.{tn}'
            r = self.resolve(tm, tn, _depth + 1)
            if r is not None:
                return r
            if sub in self.modules:
                return Symbol('module', sub, sub)
            return None
        return sym

    def resolve_expr(self, modname: str, expr: ast.AST) -> Optional[Symbol]:
        """Resolve a Name or dotted Attribute chain (module.attr) to a symbol."""
        if isinstance(expr, ast.Name):
            return self.resolve(modname, expr.id)
        if isinstance(expr, ast.Attribute):
            base = self.resolve_expr(modname, expr.value)
            if base is None:
                return None
            if base.kind == 'module':
                r = self.resolve(base.module, expr.attr)
                if r is None and f'{base.module}.{expr.attr}' in self.modules:
                    return Symbol('module', f'{base.module}.{expr.attr}', expr.attr)
                return r
            if base.kind == 'import':
                return Symbol('import', modname, expr.attr, target_mod=base.target_mod
                              if base.target_name is None else f'{base.target_mod}.{base.target_name}',
                              target_name=expr.attr)
        return None

    def ext_name(self, modname: str, expr: ast.AST) -> Optional[str]:
        """Dotted external name for an expression like pp.Word / re.compile, else None."""
        sym = self.resolve_expr(modname, expr)
        if sym is not None and sym.kind == 'import':
            if sym.target_name is None:
                return sym.target_mod
            return f'{sym.target_mod}.{sym.target_name}'
        return None

    def class_of(self, modname: str, expr: ast.AST) -> Optional[ClassInfo]:
        sym = self.resolve_expr(modname, expr)
        if sym is not None and sym.kind == 'class':
            return self.classes.get(f'{sym.module}:{sym.name}')
        return None

    # ------------------------------------------------------------------ collection
    def _collect(self):
        for mod in self.modules.values():
            self._collect_body(mod, mod.tree.body, prefix='', cls=None)
        # bases
        for ci in self.classes.values():
            for b in ci.node.bases:
                sym = self.resolve_expr(ci.module, b)
                if sym is not None and sym.kind == 'class':
                    ci.bases.append(f'{sym.module}:{sym.name}')
                else:
                    ci.bases.append('ext:' + norm(b))
        # registry decorators
        for fi in list(self.funcs.values()):
            node = fi.node
            for dec in getattr(node, 'decorator_list', []):
                if (isinstance(dec, ast.Call) and isinstance(dec.func, ast.Attribute)
                        and dec.func.attr == 'renderer_for' and dec.args):
                    rc = self.class_of(fi.module, dec.func.value)
                    mc = self.class_of(fi.module, dec.args[0])
                    if rc is not None and mc is not None:
                        self.registry.setdefault(rc.id, {}).setdefault(mc.id, []).append(fi)

    def _collect_body(self, mod: Module, body, prefix: str, cls: Optional[ClassInfo]):
        for st in body:
            if isinstance(st, (ast.FunctionDef, ast.AsyncFunctionDef)):
                qn = prefix + st.name
                kind = 'method' if cls else 'function'
                decs = [norm(d) for d in st.decorator_list]
                if cls:
                    if 'staticmethod' in decs:
                        kind = 'staticmethod'
                    elif 'classmethod' in decs:
                        kind = 'classmethod'
                    elif 'property' in decs:
                        kind = 'property'
                    elif any(d.endswith('.setter') for d in decs):
                        kind = 'setter'
                fi = FuncInfo(mod.name, qn if kind != 'setter' else qn + '.setter', st, cls.id if cls else None, kind)
                self.funcs[fi.id] = fi
                if cls:
                    if kind == 'property':
                        cls.props[st.name] = fi
                    elif kind == 'setter':
                        cls.setters[st.name] = fi
                    else:
                        cls.methods[st.name] = fi
                # nested defs
                self._collect_body(mod, st.body, qn + '.<locals>.', None)
            elif isinstance(st, ast.ClassDef):
                ci = ClassInfo(mod.name, prefix + st.name, st, decorators=[norm(d) for d in st.decorator_list])
                self.classes[ci.id] = ci
                for s2 in st.body:
                    if isinstance(s2, ast.Assign):
                        for t in s2.targets:
                            if isinstance(t, ast.Name):
                                ci.class_attrs[t.id] = s2.value
                    elif isinstance(s2, ast.AnnAssign) and isinstance(s2.target, ast.Name):
                        ci.class_attr_ann[s2.target.id] = s2.annotation
                        if s2.value is not None:
                            ci.class_attrs[s2.target.id] = s2.value
                self._collect_body(mod, st.body, prefix + st.name + '.', ci)
            elif isinstance(st, (ast.If, ast.Try, ast.With, ast.For, ast.While)):
                for fld in ('body', 'orelse', 'finalbody'):
                    self._collect_body(mod, getattr(st, fld, []) or [], prefix, cls)
                for h in getattr(st, 'handlers', []) or []:
                    self._collect_body(mod, h.body, prefix, cls)

    # ------------------------------------------------------------------ accessors
    def module(self, name: str) -> Module:
        m = self.modules.get(name)
        if m is None:
            raise AnchorMissing(f'module {name}')
        return m

    def func(self, modname: str, qualname: str) -> FuncInfo:
        fi = self.funcs.get(f'{modname}:{qualname}')
        if fi is None:
            # moved to another module of the package (and perhaps imported back): a unique function of that name is the same anchor
            sym = self.resolve(modname, qualname) if '.' not in qualname and modname in self.modules else None
            if sym is not None and sym.kind == 'func':
                fi = self.funcs.get(f'{sym.module}:{sym.name}')
            if fi is None:
                hits = [f for f in self.funcs.values() if f.qualname == qualname]
                if len(hits) == 1:
                    fi = hits[0]
        if fi is None:
            raise AnchorMissing(f'function {modname}:{qualname}')
        return fi

    def cls(self, modname: str, name: str) -> ClassInfo:
        ci = self.classes.get(f'{modname}:{name}')
        if ci is None:
            raise AnchorMissing(f'class {modname}:{name}')
        return ci

    def find_class(self, name: str) -> ClassInfo:
        """Find a class by bare name (must be unique in the package)."""
        hits = [c for c in self.classes.values() if c.name == name]
        if len(hits) != 1:
            raise AnchorMissing(f'class named {name} ({len(hits)} matches)')
        return hits[0]

    def mro(self, cid: str) -> List[ClassInfo]:
        out: List[ClassInfo] = []
        seen: Set[str] = set()

        def visit(c: str):
            if c in seen or c not in self.classes:
                return
            seen.add(c)
            out.append(self.classes[c])
            for b in self.classes[c].bases:
                visit(b)
        visit(cid)
        return out

    def subclasses(self, cid: str) -> List[ClassInfo]:
        return [c for c in self.classes.values() if c.id != cid and any(m.id == cid for m in self.mro(c.id))]

    def lookup_method(self, cid: str, name: str) -> Optional[FuncInfo]:
        for c in self.mro(cid):
            if name in c.methods:
                return c.methods[name]
        return None

    def lookup_prop(self, cid: str, name: str) -> Optional[FuncInfo]:
        for c in self.mro(cid):
            if name in c.props:
                return c.props[name]
        return None

    def lookup_setter(self, cid: str, name: str) -> Optional[FuncInfo]:
        for c in self.mro(cid):
            if name in c.setters:
                return c.setters[name]
        return None

    def class_attr(self, cid: str, name: str) -> Optional[ast.AST]:
        for c in self.mro(cid):
            if name in c.class_attrs:
                return c.class_attrs[name]
        return None

    def const_tuple(self, node: Optional[ast.AST]) -> Optional[Tuple[str, ...]]:
        if isinstance(node, (ast.Tuple, ast.List)) and all(isinstance(e, ast.Constant) and isinstance(e.value, str) for e in node.elts):
            return tuple(e.value for e in node.elts)
        return None

    def const_value(self, modname: str, expr: ast.AST):
        """Evaluate an expression to a Python constant if it is a literal or a name bound to a
        literal (through imports).  Returns (True, value) or (False, None)."""
        if isinstance(expr, ast.Constant):
            return True, expr.value
        sym = self.resolve_expr(modname, expr) if isinstance(expr, (ast.Name, ast.Attribute)) else None
        if sym is not None and sym.kind == 'assign' and isinstance(sym.node, ast.Constant):
            return True, sym.node.value
        if isinstance(expr, (ast.Tuple, ast.List)):
            vals = []
            for e in expr.elts:
                ok, v = self.const_value(modname, e)
                if not ok:
                    return False, None
                vals.append(v)
            return True, tuple(vals)
        return False, None

    def init_attrs(self, cid: str) -> Dict[str, ast.AST]:
        """Attributes stored on self in __init__ (first store wins): name -> value expr."""
        out: Dict[str, ast.AST] = {}
        for c in reversed(self.mro(cid)):
            init = c.methods.get('__init__')
            if init is None:
                continue
            for n in ast.walk(init.node):
                tgt = None
                val = None
                if isinstance(n, ast.Assign) and len(n.targets) == 1:
                    tgt, val = n.targets[0], n.value
                elif isinstance(n, ast.AnnAssign):
                    tgt, val = n.target, n.value
                if isinstance(tgt, ast.Attribute) and isinstance(tgt.value, ast.Name) and tgt.value.id == 'self':
                    if val is not None or tgt.attr not in out:
                        out[tgt.attr] = val if val is not None else out.get(tgt.attr)
        return out

    def all_funcs(self) -> List[FuncInfo]:
        return list(self.funcs.values())

    # ------------------------------------------------------------------ light types
    def ann_classes(self, modname: str, ann: Optional[ast.AST]) -> Set[str]:
        """Class ids named by an annotation (through Optional/Union/List/Type/str forms)."""
        out: Set[str] = set()
        if ann is None:
            return out
        if isinstance(ann, ast.Constant) and isinstance(ann.value, str):
            try:
                return self.ann_classes(modname, ast.parse(ann.value, mode='eval').body)
            except SyntaxError:
                return out
        if isinstance(ann, (ast.Name, ast.Attribute)):
            ci = self.class_of(modname, ann)
            if ci is not None:
                out.add(ci.id)
            return out
        if isinstance(ann, ast.Subscript):
            sl = ann.slice
            elts = sl.elts if isinstance(sl, ast.Tuple) else [sl]
            for e in elts:
                out |= self.ann_classes(modname, e)
            return out
        if isinstance(ann, ast.BinOp) and isinstance(ann.op, ast.BitOr):
            return self.ann_classes(modname, ann.left) | self.ann_classes(modname, ann.right)
        return out

    def param_types(self, fi: FuncInfo) -> Dict[str, Set[str]]:
        out: Dict[str, Set[str]] = {}
        node = fi.node
        args = node.args
        allargs = list(args.posonlyargs) + list(args.args) + list(args.kwonlyargs)
        for i, a in enumerate(allargs):
            ts = self.ann_classes(fi.module, a.annotation)
            if fi.cls and i == 0 and fi.kind in ('method', 'property', 'setter') and not ts:
                ts = {fi.cls}
            out[a.arg] = ts
        return out


def walk_no_nested(node: ast.AST) -> Iterator[ast.AST]:
    """ast.walk that does not descend into nested function/class definitions or lambdas
    (the root itself is always expanded)."""
    stack = list(ast.iter_child_nodes(node))
    yield node
    while stack:
        n = stack.pop()
        yield n
        if isinstance(n, (ast.FunctionDef, ast.AsyncFunctionDef, ast.ClassDef, ast.Lambda)):
            continue
        stack.extend(ast.iter_child_nodes(n))


def access_path(expr: ast.AST) -> Optional[str]:
    """Dotted access path 'a.b.c' / 'a.b[0].c' for Name/Attribute/constant-Subscript chains."""
    if isinstance(expr, ast.Name):
        return expr.id
    if isinstance(expr, ast.Attribute):
        b = access_path(expr.value)
        return None if b is None else f'{b}.{expr.attr}'
    if isinstance(expr, ast.Subscript) and isinstance(expr.slice, ast.Constant):
        b = access_path(expr.value)
        return None if b is None else f'{b}[{expr.slice.value!r}]'
    return None


def root_name(expr: ast.AST) -> Optional[str]:
    while isinstance(expr, (ast.Attribute, ast.Subscript, ast.Call, ast.Starred)):
        expr = expr.value if not isinstance(expr, ast.Call) else expr.func
    return expr.id if isinstance(expr, ast.Name) else None
