"""E6 - mutation, freshness and shared state.

Abstract value of an expression inside a function:  Val(top_fresh, elem_fresh, reach)
  top_fresh   the object itself was created in this function (display, comprehension,
              constructor call, copying builtin, string/number)
  elem_fresh  (containers) every element expression was itself top-fresh
  reach       parameters / 'global' that the object or anything reachable from it may alias

A *mutation site* is a store/delete through Attribute/Subscript or a call of a mutating
container method.  Its receiver decides what is mutated: a fresh object (harmless), a
parameter `p`, an element of a parameter `p[]`, or `global` (module/class level object).
Summaries are propagated over the call graph to a fixpoint.
"""
from __future__ import annotations

import ast
from dataclasses import dataclass
from typing import Dict, FrozenSet, Iterable, List, Optional, Set, Tuple

from .calls import CallGraph, Resolver, bind_args
from .pyindex import PyIndex, FuncInfo, ClassInfo, walk_no_nested, root_name
from .core import norm

MUTATING = {'append', 'extend', 'insert', 'pop', 'remove', 'clear', 'update', 'setdefault', 'sort',
            'reverse', 'add', 'discard', 'popitem', 'difference_update', 'intersection_update',
            'symmetric_difference_update', '__setitem__', '__delitem__', '__setattr__', '__delattr__',
            'appendleft', 'extendleft', 'popleft', 'rotate', 'move_to_end', 'subtract'}
COPYING_BUILTINS = {'list', 'dict', 'set', 'tuple', 'sorted', 'frozenset', 'reversed', 'enumerate', 'zip',
                    'filter', 'map', 'iter', 'chain'}
IMMUTABLE_BUILTINS = {'str', 'len', 'int', 'float', 'bool', 'repr', 'sum', 'min', 'max', 'any', 'all', 'isinstance',
                      'hasattr', 'type', 'id', 'abs', 'format', 'ord', 'chr', 'range', 'issubclass', 'callable',
                      'indent', 'hash', 'round', 'bytes', 'print'}
STR_METHODS = {'join', 'format', 'replace', 'strip', 'lstrip', 'rstrip', 'split', 'splitlines', 'upper', 'lower',
               'startswith', 'endswith', 'count', 'find', 'index', 'isspace', 'title', 'capitalize', 'encode',
               'removeprefix', 'removesuffix', 'rsplit', 'partition', 'zfill', 'sub', 'search', 'match', 'compile',
               'items', 'keys', 'values', 'get', 'copy', 'read'}


@dataclass(frozen=True)
class Val:
    top_fresh: bool
    elem_fresh: bool
    reach: FrozenSet[str]

    def join(self, o: 'Val') -> 'Val':
        return Val(self.top_fresh and o.top_fresh, self.elem_fresh and o.elem_fresh, self.reach | o.reach)


FRESH = Val(True, True, frozenset())


@dataclass
class Site:
    fi: FuncInfo
    node: ast.AST
    kind: str            # 'store' | 'del' | 'call' | 'setattr'
    recv: Optional[ast.AST]
    what: str            # description
    targets: FrozenSet[str]   # roots mutated: 'p', 'p[]', 'global', '' (fresh)

    @property
    def fresh(self) -> bool:
        return not self.targets


class FuncEffects:
    def __init__(self, eff: 'Effects', fi: FuncInfo):
        self.eff = eff
        self.fi = fi
        self.idx = eff.idx
        node = fi.node
        a = node.args
        self.params = [x.arg for x in list(a.posonlyargs) + list(a.args) + list(a.kwonlyargs)]
        if a.vararg:
            self.params.append(a.vararg.arg)
        if a.kwarg:
            self.params.append(a.kwarg.arg)
        self.env: Dict[str, Val] = {p: Val(False, False, frozenset([p])) for p in self.params}
        self.module_names = set(self.idx.modules[fi.module].symbols)
        self.enclosing_names: Set[str] = set()
        if '.<locals>.' in fi.qualname:
            outer_q = fi.qualname
            while '.<locals>.' in outer_q:
                outer_q = outer_q.rsplit('.<locals>.', 1)[0]
                outer = self.idx.funcs.get(f'{fi.module}:{outer_q}')
                if outer is not None:
                    oa = outer.node.args
                    self.enclosing_names |= {x.arg for x in list(oa.posonlyargs) + list(oa.args) + list(oa.kwonlyargs)}
                    for n in walk_no_nested(outer.node):
                        if isinstance(n, ast.Name) and isinstance(n.ctx, ast.Store):
                            self.enclosing_names.add(n.id)
        self.globals_decl: Set[str] = set()
        self._bind_locals()

    # ------------------------------------------------------------- abstract values
    def val(self, e: Optional[ast.AST], scope: Optional[Dict[str, Val]] = None) -> Val:
        if e is None:
            return FRESH
        sc = scope or {}
        if isinstance(e, ast.Name):
            if e.id in sc:
                return sc[e.id]
            if e.id in self.env:
                return self.env[e.id]
            if e.id in ('True', 'False', 'None'):
                return FRESH
            sym = self.idx.resolve(self.fi.module, e.id)
            if sym is not None and sym.kind in ('class', 'func', 'module'):
                # a class object is a shared module-level object
                return Val(False, False, frozenset(['global'])) if sym.kind == 'class' else FRESH
            if sym is not None:
                if sym.kind == 'assign' and isinstance(sym.node, ast.Constant):
                    return FRESH
                return Val(False, False, frozenset(['global']))
            if e.id in self.enclosing_names:
                return Val(False, False, frozenset(['global']))   # closure variable of an enclosing function
            return FRESH  # builtins / unknown names
        if isinstance(e, (ast.Constant, ast.JoinedStr, ast.FormattedValue)):
            return FRESH
        if isinstance(e, (ast.List, ast.Tuple, ast.Set)):
            vs = [self.val(x.value if isinstance(x, ast.Starred) else x, sc) for x in e.elts]
            stars = [isinstance(x, ast.Starred) for x in e.elts]
            reach = frozenset().union(*[v.reach for v in vs]) if vs else frozenset()
            ef = all((v.top_fresh if not s else v.elem_fresh) for v, s in zip(vs, stars))
            return Val(True, ef, reach)
        if isinstance(e, ast.Dict):
            vs = [self.val(x, sc) for x in list(e.keys) + list(e.values) if x is not None]
            reach = frozenset().union(*[v.reach for v in vs]) if vs else frozenset()
            return Val(True, all(v.top_fresh for v in vs), reach)
        if isinstance(e, (ast.ListComp, ast.SetComp, ast.GeneratorExp, ast.DictComp)):
            sc2 = dict(sc)
            for g in e.generators:
                self._bind_target(g.target, self.elem_of(self.val(g.iter, sc2)), sc2)
            if isinstance(e, ast.DictComp):
                v = self.val(e.value, sc2).join(self.val(e.key, sc2))
            else:
                v = self.val(e.elt, sc2)
            return Val(True, v.top_fresh, v.reach)
        if isinstance(e, (ast.Attribute, ast.Subscript)):
            base = self.val(e.value, sc)
            if isinstance(e, ast.Subscript) and isinstance(e.slice, ast.Slice):
                return Val(True if base.top_fresh or True else False, base.elem_fresh, base.reach)  # slicing copies
            return self.elem_of(base)
        if isinstance(e, ast.Starred):
            return self.val(e.value, sc)
        if isinstance(e, ast.IfExp):
            return self.val(e.body, sc).join(self.val(e.orelse, sc))
        if isinstance(e, ast.BoolOp):
            v = self.val(e.values[0], sc)
            for x in e.values[1:]:
                v = v.join(self.val(x, sc))
            return v
        if isinstance(e, (ast.BinOp, ast.UnaryOp, ast.Compare)):
            return FRESH if not isinstance(e, ast.BinOp) else self._binop(e, sc)
        if isinstance(e, ast.NamedExpr):
            return self.val(e.value, sc)
        if isinstance(e, ast.Lambda):
            return FRESH
        if isinstance(e, ast.Await):
            return self.val(e.value, sc)
        if isinstance(e, ast.Call):
            return self._call_val(e, sc)
        return Val(False, False, frozenset(['unknown']))

    def _binop(self, e: ast.BinOp, sc) -> Val:
        l, r = self.val(e.left, sc), self.val(e.right, sc)
        return Val(True, l.elem_fresh and r.elem_fresh, l.reach | r.reach) if (l.reach or r.reach) else FRESH

    def elem_of(self, base: Val) -> Val:
        """value of an element / attribute of `base`."""
        if not base.reach:
            return FRESH
        if base.top_fresh and base.elem_fresh:
            # container created here whose elements were created here; deeper levels may alias
            return Val(True, False, base.reach)
        reach = base.reach
        if not base.top_fresh:
            pass
        # elements of a parameter `p` are `p[]`
        reach = frozenset((r if r.endswith('[]') or r in ('global', 'unknown') else r + '[]') for r in reach) \
            if not base.top_fresh else base.reach
        return Val(False, False, reach)

    def _call_val(self, e: ast.Call, sc) -> Val:
        f = e.func
        argvals = [self.val(a.value if isinstance(a, ast.Starred) else a, sc) for a in e.args] + \
                  [self.val(k.value, sc) for k in e.keywords]
        reach = frozenset().union(*[v.reach for v in argvals]) if argvals else frozenset()
        if isinstance(f, ast.Name):
            if f.id in IMMUTABLE_BUILTINS:
                return FRESH
            if f.id in COPYING_BUILTINS:
                ef = all(v.elem_fresh for v in argvals) if argvals else True
                return Val(True, ef, frozenset(r for v in argvals for r in self.elem_of(v).reach))
            if f.id in ('super', 'getattr', 'next'):
                return Val(False, False, reach | (self.env['self'].reach if 'self' in self.env and f.id == 'super' else frozenset()))
            sym = self.idx.resolve(self.fi.module, f.id)
            if sym is not None and sym.kind == 'class':
                return Val(True, True, reach)     # constructed here (adopts args)
            if sym is not None and sym.kind == 'func':
                return Val(not reach, False, reach)
            if sym is not None and sym.kind == 'import':
                if f.id[:1].isupper() or f.id in ('defaultdict', 'deque', 'deepcopy', 'copy', 'namedtuple'):
                    # external class (Counter, OrderedDict, ...): a new container adopting its arguments
                    ef = all(v.elem_fresh for v in argvals) if argvals else True
                    return Val(True, ef, frozenset(r for v in argvals for r in self.elem_of(v).reach))
                return Val(not reach, False, reach)  # external function (re.compile, indent, ...)
            if f.id in sc or f.id in self.env:
                return Val(not reach, False, reach)
            return Val(not reach, False, reach)
        if isinstance(f, ast.Attribute):
            recv = self.val(f.value, sc)
            ci = self.idx.class_of(self.fi.module, f)
            if ci is not None:
                return Val(True, True, reach)
            if f.attr in ('copy',):
                return Val(True, recv.elem_fresh, recv.reach)
            if f.attr in ('pop', 'get', 'setdefault', 'popitem', '__getitem__'):
                return self.elem_of(recv)
            if f.attr in STR_METHODS and not recv.reach and not reach:
                return FRESH
            if f.attr in ('items', 'keys', 'values'):
                return Val(True, False, recv.reach)
            if f.attr in ('join', 'format', 'replace', 'strip', 'lower', 'upper', 'split', 'rstrip', 'lstrip', 'sub'):
                return FRESH   # string results
            r = recv.reach | reach
            return Val(not r, False, r)
        return Val(False, False, reach | frozenset(['unknown']))

    def _bind_target(self, tgt: ast.AST, v: Val, scope: Dict[str, Val]):
        if isinstance(tgt, ast.Name):
            scope[tgt.id] = v if tgt.id not in scope else scope[tgt.id].join(v)
        elif isinstance(tgt, (ast.Tuple, ast.List)):
            for t in tgt.elts:
                self._bind_target(t.value if isinstance(t, ast.Starred) else t, self.elem_of(v) if not v.top_fresh or v.reach else v, scope)

    def _bind_locals(self):
        node = self.fi.node
        for n in walk_no_nested(node):
            if isinstance(n, ast.Global):
                self.globals_decl |= set(n.names)
        for _ in range(4):
            before = dict(self.env)
            new: Dict[str, Val] = {}

            def bind(tgt, v):
                if isinstance(tgt, ast.Name):
                    if tgt.id in self.params:
                        new[tgt.id] = new.get(tgt.id, self.env[tgt.id]).join(v) if False else self.env[tgt.id].join(v) \
                            if tgt.id in new else Val(False, False, frozenset([tgt.id])).join(v)
                    else:
                        new[tgt.id] = new[tgt.id].join(v) if tgt.id in new else v
                elif isinstance(tgt, (ast.Tuple, ast.List)):
                    for t in tgt.elts:
                        bind(t.value if isinstance(t, ast.Starred) else t, self.elem_of(v) if v.reach else v)

            for n in walk_no_nested(node):
                if isinstance(n, ast.Assign):
                    v = self.val(n.value)
                    for t in n.targets:
                        bind(t, v)
                elif isinstance(n, ast.AnnAssign) and n.value is not None:
                    bind(n.target, self.val(n.value))
                elif isinstance(n, ast.AugAssign):
                    if isinstance(n.target, ast.Name):
                        bind(n.target, self.val(n.value).join(self.env.get(n.target.id, FRESH)))
                elif isinstance(n, (ast.For, ast.AsyncFor)):
                    bind(n.target, self.elem_of(self.val(n.iter)))
                elif isinstance(n, (ast.With, ast.AsyncWith)):
                    for it in n.items:
                        if it.optional_vars is not None:
                            bind(it.optional_vars, self.val(it.context_expr))
                elif isinstance(n, ast.NamedExpr):
                    bind(n.target, self.val(n.value))
                elif isinstance(n, ast.ExceptHandler) and n.name:
                    new[n.name] = FRESH
            for p in self.params:
                if p not in new:
                    new[p] = Val(False, False, frozenset([p]))
            self.env = new
            if self.env == before:
                break

    # ------------------------------------------------------------- mutation sites
    def targets_of(self, recv: ast.AST, scope=None) -> FrozenSet[str]:
        v = self.val(recv, scope)
        if v.top_fresh:
            return frozenset()
        return v.reach if v.reach else frozenset(['unknown'])

    def direct_sites(self) -> List[Site]:
        out: List[Site] = []
        fi = self.fi
        node = fi.node

        def comp_scope(n) -> Dict[str, Val]:
            return {}

        # comprehension scopes: compute per comprehension when a site is inside it
        parents: Dict[int, ast.AST] = {}
        for p in ast.walk(node):
            for c in ast.iter_child_nodes(p):
                parents[id(c)] = p

        def scope_for(n: ast.AST) -> Dict[str, Val]:
            chain = []
            cur = n
            while id(cur) in parents:
                cur = parents[id(cur)]
                if isinstance(cur, (ast.ListComp, ast.SetComp, ast.GeneratorExp, ast.DictComp)):
                    chain.append(cur)
            sc: Dict[str, Val] = {}
            for comp in reversed(chain):
                for g in comp.generators:
                    self._bind_target(g.target, self.elem_of(self.val(g.iter, sc)), sc)
            return sc

        for n in walk_no_nested(node):
            tgts: List[ast.AST] = []
            kind = 'store'
            if isinstance(n, ast.Assign):
                tgts = list(n.targets)
            elif isinstance(n, (ast.AugAssign, ast.AnnAssign)):
                if isinstance(n, ast.AnnAssign) and n.value is None:
                    tgts = []
                else:
                    tgts = [n.target]
            elif isinstance(n, ast.Delete):
                tgts, kind = list(n.targets), 'del'
            elif isinstance(n, (ast.For, ast.AsyncFor)):
                tgts = [n.target]
            flat: List[ast.AST] = []
            for t in tgts:
                if isinstance(t, (ast.Tuple, ast.List)):
                    flat.extend(x.value if isinstance(x, ast.Starred) else x for x in t.elts)
                else:
                    flat.append(t)
            for t in flat:
                if isinstance(t, (ast.Attribute, ast.Subscript)):
                    sc = scope_for(n)
                    out.append(Site(fi, n, kind, t.value, f'{kind} {norm(t)}', self.targets_of(t.value, sc)))
                elif isinstance(t, ast.Name) and (t.id in self.globals_decl):
                    out.append(Site(fi, n, kind, t, f'{kind} global {t.id}', frozenset(['global'])))
            if isinstance(n, ast.Call):
                f = n.func
                if isinstance(f, ast.Attribute) and f.attr in MUTATING:
                    # exclude str.join-like lookalikes: none of MUTATING is a str method
                    recv = f.value
                    sc = scope_for(n)
                    if isinstance(recv, ast.Call) and isinstance(recv.func, ast.Name) and recv.func.id == 'super' \
                            and f.attr in ('__setattr__', '__delattr__'):
                        out.append(Site(fi, n, 'call', recv, f'call super().{f.attr}', frozenset(['self'])))
                    else:
                        # a package method of that name is handled through the call graph instead
                        out.append(Site(fi, n, 'call', recv, f'call {norm(f)}()', self.targets_of(recv, sc)))
                elif isinstance(f, ast.Name) and f.id in ('setattr', 'delattr') and n.args:
                    out.append(Site(fi, n, 'setattr', n.args[0], f'{f.id}({norm(n.args[0])}, ...)',
                                    self.targets_of(n.args[0], scope_for(n))))
        return out


class Effects:
    def __init__(self, idx: PyIndex, cg: Optional[CallGraph] = None):
        self.idx = idx
        self.cg = cg or CallGraph(idx)
        self.res = self.cg.res
        self._fe: Dict[str, FuncEffects] = {}
        self._sites: Dict[str, List[Site]] = {}
        self.summary: Dict[str, Set[str]] = {}
        self.why: Dict[str, Dict[str, str]] = {}
        self._package_method_names = {fi.node.name for fi in idx.funcs.values() if fi.cls}
        self._compute()

    def fe(self, fi: FuncInfo) -> FuncEffects:
        if fi.id not in self._fe:
            self._fe[fi.id] = FuncEffects(self, fi)
        return self._fe[fi.id]

    def sites(self, fi: FuncInfo) -> List[Site]:
        if fi.id not in self._sites:
            sites = self.fe(fi).direct_sites()
            # a MUTATING-named call that resolves to a package method on a typed receiver is
            # handled by the call graph; keep builtin-container semantics otherwise
            self._sites[fi.id] = sites
        return self._sites[fi.id]

    def _compute(self):
        funcs = [f for f in self.idx.funcs.values() if not isinstance(f.node, ast.Lambda)]
        for fi in funcs:
            s: Set[str] = set()
            w: Dict[str, str] = {}
            for site in self.sites(fi):
                for t in site.targets:
                    s.add(t)
                    w.setdefault(t, f'{fi.file}:{getattr(site.node, "lineno", 0)} {site.what}')
            self.summary[fi.id] = s
            self.why[fi.id] = w
        changed = True
        rounds = 0
        while changed and rounds < 30:
            changed = False
            rounds += 1
            for fi in funcs:
                add = self._call_effects(fi)
                for t, why in add.items():
                    if t not in self.summary[fi.id]:
                        self.summary[fi.id].add(t)
                        self.why[fi.id].setdefault(t, why)
                        changed = True

    def _call_effects(self, fi: FuncInfo) -> Dict[str, str]:
        """effects of callees mapped back onto this function's roots."""
        out: Dict[str, str] = {}
        fe = self.fe(fi)
        env = self.res.local_types(fi)

        def map_back(callee: FuncInfo, call: Optional[ast.Call], recv: Optional[ast.AST], line: int,
                     arg_for: Dict[str, ast.AST]):
            for t in self.summary.get(callee.id, ()):
                base = t[:-2] if t.endswith('[]') else t
                is_elem = t.endswith('[]')
                if base in ('global', 'unknown'):
                    out.setdefault(base, f'{fi.file}:{line} via {callee.qualname}: {self.why[callee.id].get(t, "")}')
                    continue
                cparams = [a.arg for a in callee.node.args.args]
                expr = None
                if callee.kind in ('method', 'property', 'setter', 'classmethod') and cparams and base == cparams[0]:
                    expr = recv
                    if expr is None and callee.node.name in ('__init__', '__new__'):
                        continue    # constructing a new object: `self` is fresh
                else:
                    expr = arg_for.get(base)
                if expr is None:
                    continue
                v = fe.val(expr)
                if is_elem:
                    if v.top_fresh and v.elem_fresh:
                        continue
                    v = fe.elem_of(v)
                if v.top_fresh:
                    continue
                for r in (v.reach or frozenset(['unknown'])):
                    out.setdefault(r, f'{fi.file}:{line} via {callee.qualname}({norm(expr)}): {self.why[callee.id].get(t, "")}')

        for n in walk_no_nested(fi.node):
            if isinstance(n, ast.Call):
                callees = self.res.resolve_call(fi, n, env)
                recv = n.func.value if isinstance(n.func, ast.Attribute) else None
                for c in callees:
                    if isinstance(c, ClassInfo):
                        for nm in ('__init__', '__new__'):
                            m = self.idx.lookup_method(c.id, nm)
                            if m is not None:
                                map_back(m, n, None, n.lineno, bind_args(n, m.node, skip_first=True))
                    else:
                        # a builtin-container mutator name that also is a package method name:
                        skip = c.kind in ('method', 'classmethod', 'property', 'setter')
                        is_cls_call = recv is not None and self.idx.class_of(fi.module, recv) is not None and c.kind == 'method'
                        map_back(c, n, recv if not is_cls_call else None, n.lineno,
                                 bind_args(n, c.node, skip_first=skip and not is_cls_call))
            elif isinstance(n, ast.Attribute):
                if isinstance(n.ctx, ast.Load):
                    for c in self.res.resolve_attr(fi, n.value, n.attr, env, True, want='prop'):
                        map_back(c, None, n.value, n.lineno, {})
                elif isinstance(n.ctx, ast.Store):
                    for c in self.res.resolve_attr(fi, n.value, n.attr, env, True, want='setter'):
                        # value being assigned: find the enclosing assignment
                        map_back(c, None, n.value, n.lineno, self._setter_args(fi, n, c))
        return out

    def _setter_args(self, fi: FuncInfo, target: ast.Attribute, setter: FuncInfo) -> Dict[str, ast.AST]:
        for st in walk_no_nested(fi.node):
            if isinstance(st, ast.Assign) and any(t is target for t in st.targets):
                ps = [a.arg for a in setter.node.args.args]
                if len(ps) >= 2:
                    return {ps[1]: st.value}
        return {}

    # ------------------------------------------------------------- queries
    def mutates(self, fi: FuncInfo) -> Set[str]:
        return self.summary.get(fi.id, set())


def mutating_nodes(eff: Effects, fi: FuncInfo) -> Dict[int, str]:
    """ids of AST nodes in `fi` whose evaluation mutates non-fresh state (direct sites and calls /
    property stores whose callee summary maps onto non-fresh objects) -> description."""
    out: Dict[int, str] = {}
    for s in eff.sites(fi):
        if s.targets:
            out[id(s.node)] = s.what
    fe = eff.fe(fi)
    env = eff.res.local_types(fi)
    for n in walk_no_nested(fi.node):
        if isinstance(n, ast.Call):
            recv = n.func.value if isinstance(n.func, ast.Attribute) else None
            for c in eff.res.resolve_call(fi, n, env):
                cands = []
                if isinstance(c, ClassInfo):
                    for nm in ('__init__',):
                        m = eff.idx.lookup_method(c.id, nm)
                        if m is not None:
                            cands.append((m, None, bind_args(n, m.node, skip_first=True)))
                else:
                    skip = c.kind in ('method', 'classmethod', 'property', 'setter')
                    cands.append((c, recv, bind_args(n, c.node, skip_first=skip)))
                for callee, rv, args in cands:
                    for t in eff.summary.get(callee.id, ()):
                        base = t[:-2] if t.endswith('[]') else t
                        if base in ('global', 'unknown'):
                            out.setdefault(id(n), f'call {norm(n.func)} mutates {base}')
                            continue
                        cparams = [a.arg for a in callee.node.args.args]
                        if callee.kind in ('method', 'property', 'setter', 'classmethod') and cparams and base == cparams[0]:
                            expr = rv
                        else:
                            expr = args.get(base)
                        if expr is None:
                            continue
                        v = fe.val(expr)
                        if t.endswith('[]'):
                            if v.top_fresh and v.elem_fresh:
                                continue
                            v = fe.elem_of(v)
                        if not v.top_fresh:
                            out.setdefault(id(n), f'call {norm(n.func)}(...) mutates {norm(expr)}')
    return out
