"""C09 - the container stays consistent under any sequence of add, delete and rename.

Induction over operations: every public mutator preserves the invariant from any state and is
atomic on rejection, hence the invariant holds after any finite history.  Decided per method by
path enumeration."""
from __future__ import annotations

import ast
from typing import Dict, List, Optional, Set, Tuple

from ..core import Collector, guarded, norm, Unrecognised, AnchorMissing
from ..pyindex import walk_no_nested, access_path, FuncInfo
from ..paths import function_paths, walk_event, Ev
from ..cond import term, conjuncts, copy_subst
from .common import (guard_obligation, is_normal_return, resolve_exc, paths_of, event_calls, get_eff, first_param,
                     calls_named)
from .dbrules import add_guards, mutation_pred, EXC, DB, exact

EXPLANATION = (
    'Per mutator (Database.add/add_*/delete/delete_*, Table.add_column/delete_column/add_index/delete_index) and per '
    'enumerated path (loops unrolled twice, try-bodies may jump to every handler): (a) check-then-mutate - after the '
    'first mutation of non-fresh state there is no raise and no may-raise container operation (dict.pop(k) without '
    'default, list.index/remove, non-constant subscripts) that is not covered by an establishing guard on the same '
    'path; (b) paired updates of tables/table_dict on every path; (c) owner back-pointers are set on the object added '
    'and cleared on the element actually removed (not on the argument); (d) an index keyed by values computed from '
    'mutable attributes of its values needs a re-keying hook; (e) every rejection guard of the statement (C06 rows, '
    'reference touches this database, unsupported type, foreign column in index, deleting something absent) is '
    'present, raises the validation error and dominates the first mutation.')
RULE_TEXT = 'obligations per (mutator, path-class) for (a), per mutator for (b)-(c), per derived index for (d), three per guard for (e)'
ASSUMPTIONS = ['induction over operations replaces exhaustive history exploration; renames are covered only by rule (d) '
               '(known finding: table_dict is keyed by mutable attributes)',
               'may-raise operations considered: dict.pop/[] with a missing key, list.index/remove, subscripts; not arbitrary user __eq__']
ENGINES = ['pyindex', 'paths', 'effects', 'specialise']
TECHNIQUE = 'static analysis (ast): check-then-mutate ordering, paired-update and back-pointer obligations by path enumeration over every mutator; effect analysis of the reading operations; rules read helper-expanded mutators'

DB_MUTATORS = ['add', 'add_table', 'add_reference', 'add_enum', 'add_sticky_note', 'add_table_group', 'add_project',
               'delete', 'delete_table', 'delete_reference', 'delete_enum', 'delete_table_group', 'delete_project']
TABLE_MUTATORS = ['add_column', 'delete_column', 'add_index', 'delete_index']


def may_raise_ops(ev: Ev) -> List[Tuple[ast.AST, str, str, str]]:
    """(node, kind, receiver path, key source) for container operations that can raise."""
    out = []
    for n in walk_event(ev):
        if isinstance(n, ast.Call) and isinstance(n.func, ast.Attribute):
            recv = access_path(n.func.value) or norm(n.func.value)
            if n.func.attr == 'pop' and len(n.args) == 1 and not n.keywords:
                out.append((n, 'pop', recv, norm(n.args[0])))
            elif n.func.attr in ('index', 'remove') and len(n.args) >= 1:
                out.append((n, n.func.attr, recv, norm(n.args[0])))
        elif isinstance(n, ast.Subscript) and isinstance(n.ctx, ast.Load) and not isinstance(n.slice, (ast.Slice, ast.Constant)):
            recv = access_path(n.value) or norm(n.value)
            out.append((n, 'subscript', recv, norm(n.slice)))
    return out


def run(ctx, col: Collector):
    idx = ctx.idx
    eff = get_eff(ctx)

    mutators: List[FuncInfo] = []
    _fcache: Dict[str, FuncInfo] = {}

    def F(mod: str, qual: str) -> FuncInfo:
        """The method as the rules read it: private helpers it calls are expanded in place (extract-method refactorings of the mutators), the two owner-link
        primitives and the public operations stay calls."""
        key = f'{mod}:{qual}'
        if key not in _fcache:
            from ..inline import inlined_info
            raw = idx.func(mod, qual)
            keep = {'_set_database', '_unset_database'}
            for cname, cmod in (('Database', DB), ('Table', 'pydbml._classes.table')):
                keep |= {n for n in idx.cls(cmod, cname).methods if not n.startswith('_')}
            inl = inlined_info(idx, raw, 3, keep=keep)
            _fcache[key] = inl if getattr(inl.node, '_inlined_any', False) else raw
        return _fcache[key]

    def collect():
        for m in DB_MUTATORS:
            mutators.append(F(DB, f'Database.{m}'))
        for m in TABLE_MUTATORS:
            mutators.append(F('pydbml._classes.table', f'Table.{m}'))
        # any other public method of Database/Table that mutates self is a mutator too
        for cname, mod in (('Database', DB), ('Table', 'pydbml._classes.table')):
            ci = idx.cls(mod, cname)
            for name, fi in ci.methods.items():
                if name.startswith('_') or fi in mutators:
                    continue
                if eff.mutates(fi) & {'self', 'self[]'}:
                    mutators.append(fi)
        col.floor('C09-atomic', 'mutators', len(mutators), 17)
    guarded(col, 'C09-atomic', 'mutators', collect)

    # ------------------------------------------------------------------ (a) check-then-mutate
    def atomic(fi: FuncInfo):
        mp = mutation_pred(ctx, fi)
        paths = paths_of(fi, ctx.unroll)
        bad_raise = None
        bad_ops = {}
        npaths = 0
        for path in paths:
            first = -1
            for i, ev in enumerate(path):
                if mp(ev):
                    first = i
                    break
            if first < 0:
                continue
            npaths += 1
            last = path[-1]
            if last.kind == 'raise':
                bad_raise = bad_raise or (path[first], last)
            # may-raise operations strictly after the first mutating event, plus those inside later events
            # establishing facts: subscripts / .index() evaluated before, `in` tests
            established: Set[Tuple[str, str]] = set()
            index_vars: Dict[str, str] = {}   # local -> receiver it indexes
            for i, ev in enumerate(path):
                if ev.kind == 'test':
                    for l in conjuncts(term(ev.node, ev.outcome)):
                        if l[0] == 'in':
                            established.add((l[2], l[1]))
                ops = may_raise_ops(ev)
                for n, kind, recv, key in ops:
                    covered = (recv, key) in established or (key in index_vars and index_vars[key] == recv)
                    # an exception caught by an enclosing handler that re-raises before any mutation is fine (i <= first)
                    if i > first and not covered:
                        bad_ops.setdefault((kind, recv, key), (path[first], n, kind, recv, key))
                    if kind in ('subscript', 'index', 'pop') and (i <= first or covered):
                        established.add((recv, key))
                if ev.kind == 'stmt' and isinstance(ev.node, ast.Assign) and len(ev.node.targets) == 1 \
                        and isinstance(ev.node.targets[0], ast.Name) and isinstance(ev.node.value, ast.Call) \
                        and isinstance(ev.node.value.func, ast.Attribute) and ev.node.value.func.attr == 'index':
                    index_vars[ev.node.targets[0].id] = access_path(ev.node.value.func.value) or norm(ev.node.value.func.value)
                # a mutation of a receiver invalidates what was established about it (except by the op itself)
                if i >= first and mp(ev):
                    for n in walk_event(ev):
                        if isinstance(n, ast.Call) and isinstance(n.func, ast.Attribute) and n.func.attr in ('pop', 'remove', 'clear', 'insert', 'sort', 'reverse'):
                            r = access_path(n.func.value) or norm(n.func.value)
                            established = {(rv, k) for rv, k in established if rv != r}
                            index_vars = {k: v for k, v in index_vars.items() if v != r}
        cons = f'{fi.qualname}'
        if bad_raise:
            col.bad('C09-atomic', cons + ':raise-after-mutation',
                    f'{fi.qualname}: a path mutates state (`{norm(bad_raise[0].node)}`) and then raises (`{norm(bad_raise[1].node)}`): '
                    f'a rejected call leaves a partial update behind', node=bad_raise[1].node, file=fi.file)
        else:
            col.ok('C09-atomic', cons + ':raise-after-mutation', f'no explicit raise after the first mutation ({npaths} mutating paths)',
                   node=fi.node, file=fi.file)
        for bad_op in bad_ops.values():
            _, n, kind, recv, key = bad_op
            col.bad('C09-atomic', cons + f':may-raise:{recv}.{kind}({key})',
                    f'{fi.qualname}: after the first mutation (`{norm(bad_op[0].node)}`) the operation `{norm(n)}` can raise '
                    f'(no establishing check for key/element `{key}` in `{recv}` on this path): the container is left half-updated',
                    node=n, file=fi.file)
        if not bad_ops:
            col.ok('C09-atomic', cons + ':may-raise', 'every container operation after the first mutation is covered by an establishing check',
                   node=fi.node, file=fi.file)
    for fi in list(mutators):
        guarded(col, 'C09-atomic', fi.qualname, lambda fi=fi: atomic(fi))

    # ------------------------------------------------------------------ (b) paired updates
    def paired():
        add = F(DB, 'Database.add_table')
        o = first_param(add)
        n_app = 0
        for path in paths_of(add, 1):
            if path[-1].kind != 'return':
                continue
            appended = any(isinstance(c.func, ast.Attribute) and c.func.attr in ('append', 'insert') and access_path(c.func.value) == 'self.tables'
                           for ev in path for c in event_calls(ev))
            if not appended:
                continue
            n_app += 1
            stores = {}
            for ev in path:
                n = ev.node
                if ev.kind == 'stmt' and isinstance(n, ast.Assign):
                    for t in n.targets:
                        if isinstance(t, ast.Subscript) and access_path(t.value) == 'self.table_dict':
                            stores[norm(t.slice)] = norm(n.value)
            lits = [c for ev in path if ev.kind == 'test' for c in conjuncts(term(ev.node, ev.outcome))]
            col.check(stores.get(f'{o}.full_name') == o, 'C09-paired', f'add_table:full-name-key',
                      'the table appended to `tables` is indexed under its full name',
                      f'a path of add_table appends to self.tables but does not store table_dict[{o}.full_name] = {o} (stores: {stores})',
                      node=add.node, file=add.file)
            has_alias = ('truthy', f'{o}.alias') in lits or ('not', ('none', f'{o}.alias')) in lits
            if has_alias:
                col.check(stores.get(f'{o}.alias') == o, 'C09-paired', 'add_table:alias-key',
                          'a table with an alias is also indexed under the alias',
                          f'a path of add_table with an alias set does not store table_dict[{o}.alias] = {o}', node=add.node, file=add.file)
        col.floor('C09-paired', 'appending paths of add_table', n_app, 2)
        dele = F(DB, 'Database.delete_table')
        o = first_param(dele)
        n_pop = 0
        for path in paths_of(dele, 1):
            if path[-1].kind != 'return':
                continue
            popped_list = any(isinstance(c.func, ast.Attribute) and c.func.attr in ('pop', 'remove') and access_path(c.func.value) == 'self.tables'
                              for ev in path for c in event_calls(ev))
            if not popped_list:
                continue
            n_pop += 1
            pops = set()
            for ev in path:
                for c in event_calls(ev):
                    if isinstance(c.func, ast.Attribute) and c.func.attr == 'pop' and access_path(c.func.value) == 'self.table_dict' and c.args:
                        pops.add(norm(c.args[0]))
                if ev.kind == 'stmt' and isinstance(ev.node, ast.Delete):
                    for t in ev.node.targets:
                        if isinstance(t, ast.Subscript) and access_path(t.value) == 'self.table_dict':
                            pops.add(norm(t.slice))
            lits = [c for ev in path if ev.kind == 'test' for c in conjuncts(term(ev.node, ev.outcome))]
            # accepted alternative: every key whose value *is* the removed element is deleted
            by_identity = False
            removed_vars = set()
            for ev in path:
                nd = ev.node
                if ev.kind == 'stmt' and isinstance(nd, ast.Assign) and len(nd.targets) == 1 and isinstance(nd.targets[0], ast.Name) \
                        and isinstance(nd.value, ast.Call) and isinstance(nd.value.func, ast.Attribute) and nd.value.func.attr == 'pop' \
                        and access_path(nd.value.func.value) == 'self.tables':
                    removed_vars.add(nd.targets[0].id)
                if ev.kind == 'stmt' and isinstance(nd, ast.Assign) and len(nd.targets) == 1 and isinstance(nd.targets[0], ast.Name) \
                        and isinstance(nd.value, ast.Name) and nd.value.id in removed_vars:
                    removed_vars.add(nd.targets[0].id)      # another name for the removed element
            def identity_keys(it, depth=0):
                """True if the iterable `it` yields exactly the keys of self.table_dict whose value IS the removed table."""
                if depth > 3:
                    return False
                if isinstance(it, ast.Call) and isinstance(it.func, ast.Name) and it.func.id in ('list', 'tuple', 'sorted') and len(it.args) == 1:
                    return identity_keys(it.args[0], depth + 1)
                if isinstance(it, (ast.ListComp, ast.GeneratorExp)) and len(it.generators) == 1:
                    g = it.generators[0]
                    if isinstance(g.iter, ast.Call) and isinstance(g.iter.func, ast.Attribute) and g.iter.func.attr == 'items' \
                            and access_path(g.iter.func.value) == 'self.table_dict' and isinstance(g.target, ast.Tuple) and len(g.target.elts) == 2 \
                            and all(isinstance(e, ast.Name) for e in g.target.elts):
                        kname, vname = [e.id for e in g.target.elts]
                        conds = [term(c, True) for c in g.ifs]
                        ident = any(c[0] == 'is' and vname in c[1:] and (set(c[1:]) - {vname}) <= removed_vars for c in conds)
                        return ident and len(g.ifs) == 1 and isinstance(it.elt, ast.Name) and it.elt.id == kname
                    return False
                if isinstance(it, ast.Name):
                    # a local list: assigned a comprehension, or filled by an explicit collect loop over self.table_dict.items()
                    assigns = [n for n in walk_no_nested(dele.node) if isinstance(n, ast.Assign) and len(n.targets) == 1 and isinstance(n.targets[0], ast.Name)
                               and n.targets[0].id == it.id]
                    if len(assigns) != 1:
                        return False
                    v = assigns[0].value
                    if isinstance(v, (ast.ListComp, ast.GeneratorExp, ast.Call)):
                        return identity_keys(v, depth + 1)
                    if isinstance(v, ast.List) and not v.elts:
                        apps = [c for c in walk_no_nested(dele.node) if isinstance(c, ast.Call) and isinstance(c.func, ast.Attribute) and c.func.attr == 'append'
                                and isinstance(c.func.value, ast.Name) and c.func.value.id == it.id]
                        others = [c for c in walk_no_nested(dele.node) if isinstance(c, ast.Call) and isinstance(c.func, ast.Attribute)
                                  and c.func.attr in ('extend', 'insert', 'remove', 'pop', 'clear') and isinstance(c.func.value, ast.Name) and c.func.value.id == it.id]
                        if len(apps) != 1 or others:
                            return False
                        for lp in [n for n in walk_no_nested(dele.node) if isinstance(n, ast.For)]:
                            if not any(x is apps[0] for x in ast.walk(lp)):
                                continue
                            if not (isinstance(lp.iter, ast.Call) and isinstance(lp.iter.func, ast.Attribute) and lp.iter.func.attr == 'items'
                                    and access_path(lp.iter.func.value) == 'self.table_dict' and isinstance(lp.target, ast.Tuple) and len(lp.target.elts) == 2
                                    and all(isinstance(e, ast.Name) for e in lp.target.elts)):
                                return False
                            kname, vname = [e.id for e in lp.target.elts]
                            # the append sits directly under `if v is removed:` in the loop body
                            for st_ in lp.body:
                                if isinstance(st_, ast.If) and not st_.orelse and any(x is apps[0] for x in ast.walk(st_)):
                                    c = term(st_.test, True)
                                    ident = c[0] == 'is' and vname in c[1:] and (set(c[1:]) - {vname}) <= removed_vars
                                    direct = len(st_.body) == 1 and isinstance(st_.body[0], ast.Expr) and st_.body[0].value is apps[0]
                                    return bool(ident and direct and norm(apps[0].args[0]) == kname)
                            return False
                return False
            unread_sweep = False
            for loop in [n for n in walk_no_nested(dele.node) if isinstance(n, ast.For)]:
                dels = [d for d in ast.walk(loop) if isinstance(d, ast.Delete) and any(isinstance(t, ast.Subscript) and access_path(t.value) == 'self.table_dict'
                                                                                     and isinstance(loop.target, ast.Name) and norm(t.slice) == loop.target.id for t in d.targets)]
                dels += [c for c in ast.walk(loop) if isinstance(c, ast.Call) and isinstance(c.func, ast.Attribute) and c.func.attr == 'pop'
                         and access_path(c.func.value) == 'self.table_dict' and c.args and isinstance(loop.target, ast.Name) and norm(c.args[0]) == loop.target.id]
                if not dels:
                    continue
                if identity_keys(loop.iter):
                    by_identity = True
                else:
                    unread_sweep = True
            if by_identity:
                col.ok('C09-paired', 'delete_table:full-name-key', 'every key whose value is the removed table is deleted (by identity)',
                       node=dele.node, file=dele.file)
                col.ok('C09-paired', 'delete_table:alias-key', 'alias key removed with the same sweep', node=dele.node, file=dele.file)
                continue
            unresolved = sorted(k for k in pops if not k.endswith(('.full_name', '.alias')))
            if any(k.endswith('.full_name') for k in pops):
                col.ok('C09-paired', 'delete_table:full-name-key', 'removing a table from `tables` also removes its full-name key', node=dele.node, file=dele.file)
            elif unread_sweep or unresolved:
                col.unk('C09-paired', 'delete_table:full-name-key', f'delete_table removes keys from table_dict that this rule cannot relate to the removed table '
                        f'(keys: {unresolved})', node=dele.node, file=dele.file)
            else:
                col.bad('C09-paired', 'delete_table:full-name-key',
                        f'a path of delete_table removes from self.tables but not the full-name key from table_dict (pops: {sorted(pops)})', node=dele.node, file=dele.file)
            if any(l[0] == 'truthy' and l[1].endswith('.alias') for l in lits):
                if any(k.endswith('.alias') for k in pops):
                    col.ok('C09-paired', 'delete_table:alias-key', 'the alias key is removed as well', node=dele.node, file=dele.file)
                elif unread_sweep or unresolved:
                    col.unk('C09-paired', 'delete_table:alias-key', 'the keys removed from table_dict cannot be related to the alias', node=dele.node, file=dele.file)
                else:
                    col.bad('C09-paired', 'delete_table:alias-key', 'a path of delete_table with an alias set leaves the alias key in table_dict',
                            node=dele.node, file=dele.file)
        col.floor('C09-paired', 'removing paths of delete_table', n_pop, 1)
        # nobody else touches tables / table_dict
        for fi in idx.all_funcs():
            if fi.qualname in ('Database.add_table', 'Database.delete_table', 'Database.__init__'):
                continue
            for s in eff.sites(fi):
                r = access_path(s.recv) if s.recv is not None else None
                if r and (r.endswith('.tables') or r.endswith('.table_dict')) and fi.module.startswith('pydbml') \
                        and not fi.module.startswith('pydbml.parser.parser'):
                    col.bad('C09-paired', f'{fi.qualname}:writes:{r}', f'{fi.qualname} mutates `{r}` outside add_table/delete_table: '
                            f'the list and the name index can diverge', node=s.node, file=fi.file)
        col.ok('C09-paired', 'single-writer', 'tables/table_dict are mutated only by add_table/delete_table')
    guarded(col, 'C09-paired', 'tables/table_dict', paired)

    # ------------------------------------------------------------------ (c) back-pointers
    def backptr():
        dbc = idx.cls(DB, 'Database')
        setdb = idx.lookup_method(dbc.id, '_set_database')
        unsetdb = idx.lookup_method(dbc.id, '_unset_database')
        if setdb is None or unsetdb is None:
            raise AnchorMissing('Database._set_database/_unset_database')
        for fi, want in ((setdb, 'self'), (unsetdb, 'None')):
            p = first_param(fi)
            ok = any(isinstance(n, ast.Assign) and len(n.targets) == 1 and access_path(n.targets[0]) == f'{p}.database' and norm(n.value) == want
                     for n in walk_no_nested(fi.node))
            col.check(ok, 'C09-backptr', f'{fi.qualname}:stores', f'{fi.qualname} stores {p}.database = {want}',
                      f'{fi.qualname} does not store {p}.database = {want}', node=fi.node, file=fi.file)
        for m in ('add_table', 'add_reference', 'add_enum', 'add_sticky_note', 'add_table_group', 'add_project'):
            fi = F(DB, f'Database.{m}')
            o = first_param(fi)
            bad = None
            n = 0
            for path in paths_of(fi, 1):
                if path[-1].kind != 'return':
                    continue
                n += 1
                ok = any((c.func.attr == '_set_database' and c.args and norm(c.args[0]) == o) for ev in path for c in event_calls(ev)
                         if isinstance(c.func, ast.Attribute)) or \
                    any(ev.kind == 'stmt' and isinstance(ev.node, ast.Assign) and access_path(ev.node.targets[0]) == f'{o}.database'
                        and norm(ev.node.value) == 'self' for ev in path)
                if not ok:
                    bad = path[-1]
            col.check(bad is None and n >= 1, 'C09-backptr', f'Database.{m}:sets-owner',
                      f'every successful path of {m} points the added object back to the database',
                      f'a successful path of Database.{m} does not set {o}.database = self', node=fi.node, file=fi.file)
        # deletes: the pointer of the element actually removed is cleared
        from ..inline import inlined_info as _ii

        def clears(fi: FuncInfo, container: str) -> Tuple[str, str]:
            """('ok' | 'bad' | 'unk', why) for: every successful path clears the owner pointer of the element removed from the container."""
            params = {a.arg for a in fi.node.args.args[1:]}
            verdict, why, n = 'ok', '', 0
            for path in paths_of(fi, 1):
                if path[-1].kind != 'return':
                    continue
                n += 1
                removed_vars: Set[str] = set()
                ok = False
                cleared_arg = None
                opaque = None
                for ev in path:
                    nd = ev.node
                    if ev.kind == 'stmt' and isinstance(nd, ast.Assign) and len(nd.targets) == 1 and isinstance(nd.targets[0], ast.Name):
                        v = nd.value
                        if isinstance(v, ast.Call) and isinstance(v.func, ast.Attribute) and v.func.attr == 'pop' and access_path(v.func.value) == container:
                            removed_vars.add(nd.targets[0].id)
                        if access_path(v) == container or (isinstance(v, ast.Name) and v.id in removed_vars):
                            removed_vars.add(nd.targets[0].id)
                    if ev.kind == 'stmt' and isinstance(nd, ast.Assign) and len(nd.targets) == 1 and isinstance(nd.targets[0], ast.Attribute) \
                            and nd.targets[0].attr == 'database' and isinstance(nd.value, ast.Constant) and nd.value.value is None and isinstance(nd.targets[0].value, ast.Name):
                        # the inlined body of _unset_database
                        if nd.targets[0].value.id in removed_vars:
                            ok = True
                        elif nd.targets[0].value.id in params:
                            cleared_arg = nd.targets[0].value.id
                    for c in event_calls(ev):
                        if isinstance(c.func, ast.Attribute) and c.func.attr == '_unset_database' and c.args:
                            a = c.args[0]
                            if isinstance(a, ast.Name) and a.id in removed_vars:
                                ok = True
                            elif isinstance(a, ast.Call) and isinstance(a.func, ast.Attribute) and a.func.attr == 'pop' and access_path(a.func.value) == container:
                                ok = True
                            elif isinstance(a, ast.Name) and a.id in params:
                                cleared_arg = a.id
                        elif isinstance(c.func, ast.Attribute) and norm(c.func.value) == 'self' and idx.lookup_method(fi.cls, c.func.attr) is not None:
                            opaque = opaque or norm(c)[:50]
                if ok:
                    continue
                if cleared_arg is not None:
                    return 'bad', (f'a successful path of {fi.qualname} clears the owner pointer of its argument `{cleared_arg}` rather than of the element removed from {container} '
                                   f'(the argument may only be equal to the stored object)')
                if opaque is not None:
                    verdict, why = 'unk', f'a successful path of {fi.qualname} hands the removal to `{opaque}`, which could not be followed'
                elif verdict != 'unk':
                    verdict, why = 'bad', (f'a successful path of {fi.qualname} does not call _unset_database on the element removed from {container} '
                                           f'(clearing the argument is not enough: it may only be equal to the stored object)')
            if n == 0:
                return 'unk', f'{fi.qualname} has no successful path'
            return verdict, why
        for m, container in (('delete_table', 'self.tables'), ('delete_reference', 'self.refs'), ('delete_enum', 'self.enums'),
                             ('delete_table_group', 'self.table_groups'), ('delete_project', 'self.project')):
            fi = F(DB, f'Database.{m}')
            v, why = clears(fi, container)
            if v != 'ok':
                v2, why2 = clears(_ii(idx, fi, 3, keep={'_unset_database'}), container)
                if v2 == 'ok' or v == 'unk':
                    v, why = v2, why2
            cons = f'Database.{m}:clears-owner'
            if v == 'ok':
                col.ok('C09-backptr', cons, f'{m} clears the owner pointer of the element it removed from {container}', node=fi.node, file=fi.file)
            elif v == 'bad':
                col.bad('C09-backptr', cons, why, node=fi.node, file=fi.file)
            else:
                col.unk('C09-backptr', cons, why, node=fi.node, file=fi.file)
        # add_project detaches the old project
        ap = F(DB, 'Database.add_project')
        bad = None
        n = 0
        for path in paths_of(ap, 1):
            lits = [c for ev in path if ev.kind == 'test' for c in conjuncts(term(ev.node, ev.outcome))]
            if ('truthy', 'self.project') in lits or ('not', ('none', 'self.project')) in lits:
                n += 1
                ok = any(isinstance(c.func, ast.Attribute) and c.func.attr in ('delete_project', '_unset_database') for ev in path for c in event_calls(ev))
                if not ok:
                    bad = path[-1]
        col.check(bad is None and n >= 1, 'C09-backptr', 'Database.add_project:detaches-old',
                  'replacing the project detaches the old one', 'add_project does not detach an existing project before replacing it',
                  node=ap.node, file=ap.file)
        # Table level
        for m, container, attr in (('add_column', 'self.columns', 'table'), ('add_index', 'self.indexes', 'table')):
            fi = F('pydbml._classes.table', f'Table.{m}')
            o = first_param(fi)
            bad = None
            n = 0
            for path in paths_of(fi, 1):
                if path[-1].kind != 'return':
                    continue
                n += 1
                appended = any(isinstance(c.func, ast.Attribute) and c.func.attr == 'append' and access_path(c.func.value) == container
                               and c.args and norm(c.args[0]) == o for ev in path for c in event_calls(ev))
                owner = any(ev.kind == 'stmt' and isinstance(ev.node, ast.Assign) and access_path(ev.node.targets[0]) == f'{o}.{attr}'
                            and norm(ev.node.value) == 'self' for ev in path)
                if not (appended and owner):
                    bad = path[-1]
            col.check(bad is None and n >= 1, 'C09-backptr', f'Table.{m}:append-and-own',
                      f'{m} appends the object and sets its .{attr} to the table',
                      f'a successful path of Table.{m} does not both append {o} to {container} and set {o}.{attr} = self',
                      node=fi.node, file=fi.file)
        for m, container in (('delete_column', 'self.columns'), ('delete_index', 'self.indexes')):
            fi = F('pydbml._classes.table', f'Table.{m}')
            o = first_param(fi)
            bad = None
            n = 0
            for path in paths_of(fi, 1):
                last = path[-1]
                if last.kind != 'return' or last.node is None or last.node.value is None or (
                        isinstance(last.node.value, ast.Constant) and last.node.value.value is None):
                    continue
                n += 1
                # which object gets `.table = None`, which object is returned
                cleared = []
                elem_vars: Set[str] = set()
                idx_vars: Set[str] = set()
                for ev in path:
                    nd = ev.node
                    if ev.kind == 'stmt' and isinstance(nd, ast.Assign) and len(nd.targets) == 1:
                        t, v = nd.targets[0], nd.value
                        if isinstance(t, ast.Name):
                            if isinstance(v, ast.Call) and isinstance(v.func, ast.Attribute) and v.func.attr == 'pop' and access_path(v.func.value) == container:
                                elem_vars.add(t.id)
                            if isinstance(v, ast.Subscript) and access_path(v.value) == container:
                                elem_vars.add(t.id)
                        if isinstance(t, ast.Attribute) and t.attr == 'table' and isinstance(v, ast.Constant) and v.value is None:
                            cleared.append(t.value)
                is_int = any(l[0] == 'isinstance' and l[1] == o and 'int' in l[2]
                             for ev in path if ev.kind == 'test' for l in conjuncts(term(ev.node, ev.outcome)))

                def is_element(e: ast.AST) -> bool:
                    if isinstance(e, ast.Name):
                        return e.id in elem_vars
                    if isinstance(e, ast.Subscript) and access_path(e.value) == container:
                        return True
                    if isinstance(e, ast.Call) and isinstance(e.func, ast.Attribute) and e.func.attr == 'pop' and access_path(e.func.value) == container:
                        return True
                    return False
                ok_clear = bool(cleared) and all(is_element(c) for c in cleared)
                ok_ret = is_element(last.node.value)
                if not ok_clear:
                    bad = bad or (last, f'clears .table on `{norm(cleared[0]) if cleared else "nothing"}`, not on the element removed from {container}')
                elif not ok_ret:
                    bad = bad or (last, f'returns `{norm(last.node.value)}`, not the element removed from {container}')
            col.check(bad is None and n >= 2, 'C09-backptr', f'Table.{m}:detaches-removed',
                      f'{m} detaches and returns the element it removed (by object and by position)',
                      f'Table.{m}: {bad[1] if bad else "fewer than two returning paths"} (an argument that is only equal to the stored '
                      f'object must not be the one that is detached/returned)', node=bad[0].node if bad else fi.node, file=fi.file)
    guarded(col, 'C09-backptr', 'back-pointers', backptr)

    # ------------------------------------------------------------------ (d) derived index
    def derived_index():
        add = F(DB, 'Database.add_table')
        o = first_param(add)
        keys = []
        for n in walk_no_nested(add.node):
            if isinstance(n, ast.Assign):
                for t in n.targets:
                    if isinstance(t, ast.Subscript) and access_path(t.value) == 'self.table_dict' and norm(n.value) == o:
                        k = access_path(t.slice)
                        if k and k.startswith(o + '.'):
                            keys.append(k[len(o) + 1:])
        if not keys:
            raise Unrecognised('add_table stores no key derived from the table', add.node)
        table = idx.cls('pydbml._classes.table', 'Table')
        # which primary attributes feed the keys
        feeds: Set[str] = set()
        for k in keys:
            p = idx.lookup_prop(table.id, k)
            if p is not None:
                for a in ast.walk(p.node):
                    if isinstance(a, ast.Attribute) and isinstance(a.value, ast.Name) and a.value.id == 'self':
                        feeds.add(a.attr)
            else:
                feeds.add(k)
        # a re-keying hook: a setter / __setattr__ on Table that reaches the database index
        hooks = [a for a in feeds if idx.lookup_setter(table.id, a) is not None]
        sa = table.methods.get('__setattr__')
        rekeys = False
        if sa is not None and any(isinstance(n, ast.Attribute) and n.attr in ('table_dict', 'database') for n in ast.walk(sa.node)):
            rekeys = True
        for a in sorted(feeds):
            s = idx.lookup_setter(table.id, a)
            ok = rekeys or (s is not None and any(isinstance(n, ast.Attribute) and n.attr in ('table_dict', 'database') for n in ast.walk(s.node)))
            col.check(ok, 'C09-derived-index', f'Database.table_dict:key-from:Table.{a}',
                      f'editing Table.{a} re-keys the name index',
                      f'Database.table_dict is keyed by a value computed from the mutable attribute Table.{a} and nothing re-keys it '
                      f'when a contained table is renamed: lookups by the current name miss and delete_table fails',
                      node=add.node, file=add.file)
    guarded(col, 'C09-derived-index', 'table_dict', derived_index)

    # ------------------------------------------------------------------ (e) guards
    add_guards(ctx, col, 'C09-guard')

    def other_guards():
        DVE = [EXC + 'DatabaseValidationError']
        # reference must touch this database: for/else raise
        fi = F(DB, 'Database.add_reference')
        o = first_param(fi)
        mp = mutation_pred(ctx, fi)
        loops = [n for n in walk_no_nested(fi.node) if isinstance(n, ast.For) and ('col1' in norm(n.iter) and 'col2' in norm(n.iter))]
        if not loops:
            from .common import raises_in_closure
            still = raises_in_closure(ctx, fi, DVE)
            if len(still) >= 2:
                col.unk('C09-guard', 'Database.add_reference:touches-database:present', 'add_reference raises its validation error in a form this rule does not read '
                        '(no loop over the endpoint columns found)', node=fi.node, file=fi.file)
            else:
                col.bad('C09-guard', 'Database.add_reference:touches-database:present',
                        'add_reference no longer checks that at least one endpoint table belongs to this database', node=fi.node, file=fi.file)
        else:
            loop = loops[0]
            n_ex = 0
            bad = None
            okcond = False
            for sub in ast.walk(loop):
                if isinstance(sub, ast.If):
                    ls = conjuncts(term(sub.test, True))
                    if any(l[0] in ('eq', 'is') and 'self' in l[1:] and any('database' in x for x in l[1:]) for l in ls):
                        okcond = True
            for path in paths_of(fi, ctx.unroll):
                for i, ev in enumerate(path):
                    if ev.kind == 'iter' and ev.node is loop and ev.outcome == 'exit':
                        n_ex += 1
                        nxt = path[i + 1] if i + 1 < len(path) else None
                        if not (nxt is not None and nxt.kind == 'raise' and resolve_exc(ctx, fi, nxt.node.exc) in DVE):
                            bad = ev
                        break
            col.check(okcond and bad is None and n_ex >= 1, 'C09-guard', 'Database.add_reference:touches-database',
                      'a reference none of whose tables is in this database is rejected before any mutation',
                      'the loop over the reference columns does not end in raise DatabaseValidationError when no column belongs to '
                      'this database (or the membership condition changed)', node=loop, file=fi.file)
            # dominance: every mutation is preceded by a break out of that loop (loop entered, no exit event)
            bad2 = None
            for path in paths_of(fi, ctx.unroll):
                for i, ev in enumerate(path):
                    if mp(ev):
                        entered = any(e.kind == 'iter' and e.node is loop and e.outcome == 'enter' for e in path[:i])
                        exited = any(e.kind == 'iter' and e.node is loop and e.outcome == 'exit' for e in path[:i])
                        if not entered or exited:
                            bad2 = ev
                        break
            col.check(bad2 is None, 'C09-guard', 'Database.add_reference:touches-database:dominates',
                      'the membership loop dominates the mutation', 'add_reference mutates on a path that skipped the membership loop',
                      node=bad2.node if bad2 else fi.node, file=fi.file)
        # unsupported type in add/delete
        for m in ('add', 'delete'):
            fi = F(DB, f'Database.{m}')
            o = first_param(fi)
            bad = None
            n = 0
            for path in paths_of(fi, 1):
                lits = [c for ev in path if ev.kind == 'test' for c in conjuncts(term(ev.node, ev.outcome))]
                if lits and all(l[0] == 'not' and l[1][0] == 'isinstance' for l in lits):
                    n += 1
                    last = path[-1]
                    if not (last.kind == 'raise' and resolve_exc(ctx, fi, last.node.exc) in DVE):
                        bad = last
            if bad is None and n >= 1:
                col.ok('C09-guard', f'Database.{m}:unsupported-type', f'{m} of an unsupported type raises DatabaseValidationError', node=fi.node, file=fi.file)
            else:
                from .common import raises_in_closure
                still = raises_in_closure(ctx, fi, set(DVE))
                if still and n == 0:
                    col.unk('C09-guard', f'Database.{m}:unsupported-type', f'Database.{m}: the type dispatch is not an isinstance chain in this function (the validation error is still '
                            f'raised at {still[0]}); cannot judge the fall-through', node=fi.node, file=fi.file)
                else:
                    col.bad('C09-guard', f'Database.{m}:unsupported-type', f'Database.{m}: the fall-through of the isinstance dispatch does not raise DatabaseValidationError',
                            node=fi.node, file=fi.file)
        # deleting something absent
        for m, container in (('delete_table', 'self.tables'), ('delete_reference', 'self.refs'), ('delete_enum', 'self.enums'),
                             ('delete_table_group', 'self.table_groups')):
            fi = F(DB, f'Database.{m}')
            mp = mutation_pred(ctx, fi)
            bad = None
            n = 0
            for path in paths_of(fi, 1):
                for i, ev in enumerate(path):
                    if ev.kind == 'exc':
                        n += 1
                        last = path[-1]
                        if not (last.kind == 'raise' and resolve_exc(ctx, fi, last.node.exc) in DVE):
                            bad = bad or (last, 'handler does not raise DatabaseValidationError')
                        if any(mp(e) for e in path[:i]):
                            bad = bad or (ev, 'state was mutated before the lookup failed')
                        break
                lits = [c for ev in path if ev.kind == 'test' for c in conjuncts(term(ev.node, ev.outcome))]
                for l in lits:
                    if l[0] == 'not' and l[1][0] == 'in' and l[1][2] == container:
                        n += 1
                        last = path[-1]
                        if not (last.kind == 'raise' and resolve_exc(ctx, fi, last.node.exc) in DVE):
                            bad = bad or (last, 'absent element does not raise DatabaseValidationError')
            col.check(bad is None and n >= 1, 'C09-guard', f'Database.{m}:absent',
                      f'{m} of something absent raises DatabaseValidationError before any mutation',
                      f'Database.{m}: {bad[1] if bad else "no not-found path"}', node=bad[0].node if bad and bad[0].node is not None else fi.node, file=fi.file)
        fi = F(DB, 'Database.delete_project')
        guard_obligation(ctx, col, 'C09-guard', fi, 'no-project', exact([('none', 'self.project')]), DVE,
                         protect=mutation_pred(ctx, fi), what='self.project is None')
        # Table.add_index: foreign column
        fi = F('pydbml._classes.table', 'Table.add_index')
        o = first_param(fi)

        def foreign(lits, n):
            return any(l in (('not', ('is', 'self', 'subject.table')),) or (l[0] == 'not' and l[1][0] in ('is', 'eq') and 'self' in l[1][1:]
                       and any(x.endswith('.table') for x in l[1][1:])) for l in lits)
        guard_obligation(ctx, col, 'C09-guard', fi, 'foreign-column', foreign, [EXC + 'ColumnNotFoundError'],
                         protect=mutation_pred(ctx, fi), what='a subject column belongs to another table',
                         require_loop_over=f'{o}.subjects')
        # Table.delete_column / delete_index: absent object
        for m, container, exc in (('delete_column', 'self.columns', 'ColumnNotFoundError'), ('delete_index', 'self.indexes', 'IndexNotFoundError')):
            fi = F('pydbml._classes.table', f'Table.{m}')
            o = first_param(fi)
            guard_obligation(ctx, col, 'C09-guard', fi, 'absent', exact([('not', ('in', o, container))], [('isinstance', o, m.split('_')[1].capitalize())]),
                             [EXC + exc], protect=None, what=f'{o} not in {container}', when=False)
    guarded(col, 'C09-guard', 'other-guards', other_guards)

    # ------------------------------------------------------------------ read operations leave the database as it is
    def readers():
        # iteration, lookup and rendering are interleaved with the mutators: "lists exactly the tables added and not deleted, in insertion order" needs
        # the reading operations not to reorder or edit the collections (effect analysis over their call closure: only objects created in the call are stored into)
        ci = idx.cls(DB, 'Database')
        n = 0
        for name in ('__iter__', '__getitem__', '__contains__', '__len__', '__repr__', 'sql', 'dbml'):
            fi = ci.methods.get(name) or ci.props.get(name)
            if fi is None:
                continue
            n += 1
            muts = eff.mutates(fi)
            if not muts:
                col.ok('C09-readers', f'Database.{name}:read-only', f'Database.{name} stores only into objects created during the call', node=fi.node, file=fi.file)
            else:
                for t in sorted(muts):
                    col.bad('C09-readers', f'Database.{name}:read-only', f'Database.{name} changes the state it reads (`{t}`): {eff.why[fi.id].get(t, "")} - '
                            f'the order or content of the collections after reading differs from what add/delete left', node=fi.node, file=fi.file)
        col.floor('C09-readers', 'reading operations of Database', n, 4)
    guarded(col, 'C09-readers', 'readers', readers)
