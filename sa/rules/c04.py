"""C04 - every relationship becomes exactly one correctly directed FOREIGN KEY in SQL."""
from __future__ import annotations

import ast
from typing import Dict, List, Optional, Set, Tuple

from ..core import Collector, guarded, norm, Unrecognised, AnchorMissing
from ..pyindex import walk_no_nested, access_path, FuncInfo
from ..strctx import sinks_of, Sink
from .c18 import kinds_of_test, const_names
from .c05 import key_holder_dispatch, origin

EXPLANATION = (
    'Direction: the branch conditions of render_reference are evaluated over the four kind constants; each kind reaches exactly '
    'one branch and the (source side, referenced side) it passes on equals the property\'s table: > and - (col1, col2), < (col2, '
    'col1), <> the join-table generator. The sibling dispatch that decides which table hosts an inline reference agrees kind by '
    'kind and compares table objects (shared with C05). Exactly once: the database-level filter is `not ref.inline`, the '
    'table-level filter is `ref.inline`, both over all references; a many-to-many reference never counts as inline; a join '
    'table hosts no inline references. Template roles: in both generators the FOREIGN KEY columns come from the source side, '
    'REFERENCES table and columns from the referenced side, ALTER TABLE names the source side\'s table, table names go through the '
    'qualifying helper, column lists keep the order of the side (no sort/filter), ON UPDATE / ON DELETE are emitted from their own '
    'attribute under their own guard, and CONSTRAINT "name" is substituted exactly when the reference has a name. Join table: '
    'named <left>_<right>, in the left schema, one NOT NULL primary-key column per column of col1 then col2 typed like it, built '
    'on every access (no cached copy), and the two ALTER statements split its columns at len(col1) against col1 / col2.')
RULE_TEXT = 'one obligation per kind (dispatch), per filter, per template hole role, per join-table constructor argument'
ASSUMPTIONS = ['decides the structural dispatch and template roles; the DDL text for arbitrary reference sets is not decided']
ENGINES = ['pyindex', 'paths', 'strctx', 'strval', 'peval']
TECHNIQUE = 'static analysis (ast): dispatch-table evaluation over the kind constants, sibling-dispatch agreement, complementary-filter rule, string-template hole provenance (roles), constructor-argument obligations; partial evaluation per reference kind; abstract string evaluation of the generators'

REFMOD = 'pydbml.renderer.sql.default.reference'
WANT = {'MANY_TO_ONE': ('col1', 'col2'), 'ONE_TO_ONE': ('col1', 'col2'), 'ONE_TO_MANY': ('col2', 'col1')}


def run(ctx, col: Collector):
    idx = ctx.idx

    # ---------------------------------------------------------------- C04-direction
    def direction():
        fi = idx.func(REFMOD, 'render_reference')
        p = [a.arg for a in fi.node.args.args][0]
        consts = const_names(ctx)
        col.check(set(consts) == {'ONE_TO_MANY', 'MANY_TO_ONE', 'ONE_TO_ONE', 'MANY_TO_MANY'} and
                  (consts.get('ONE_TO_MANY'), consts.get('MANY_TO_ONE'), consts.get('ONE_TO_ONE'), consts.get('MANY_TO_MANY')) == ('<', '>', '-', '<>'),
                  'C04-direction', 'constants', 'the four kind constants are < > - <>', f'kind constants are {consts}', file='pydbml/constants.py')
        from .c18 import fk_dispatch
        seen, unresolved, m2m_branch, _ = fk_dispatch(ctx)
        for k, want in WANT.items():
            got = sorted(set(seen.get(k, [])))
            cons = f'render_reference:{k}'
            if got == [want]:
                col.ok('C04-direction', cons, f'`{consts.get(k)}`: foreign key on {want[0]} referencing {want[1]}', node=fi.node, file=fi.file)
            elif got:
                col.bad('C04-direction', cons, f'for `{consts.get(k)}` references render_reference passes (source, referenced) = {got}; the relationship requires {want}: '
                        f'the FOREIGN KEY is put on the wrong table / emitted twice', node=fi.node, file=fi.file)
            elif k in unresolved or any(k in (kinds_of_test(x.test, p) or ()) for x in ast.walk(fi.node) if isinstance(x, ast.If)):
                col.unk('C04-direction', cons, f'`{consts.get(k)}` is dispatched in render_reference but the sides passed to the generator cannot be resolved', node=fi.node, file=fi.file)
            else:
                col.bad('C04-direction', cons, f'render_reference has no branch for `{consts.get(k)}` references: they produce no FOREIGN KEY', node=fi.node, file=fi.file)
        col.check(m2m_branch, 'C04-direction', 'render_reference:MANY_TO_MANY', '`<>` goes to the join-table generator',
                  '`<>` references are not dispatched to generate_many_to_many_sql', node=fi.node, file=fi.file)
        # the m2m branch returns before the FK dispatch
        extra = set(seen) - set(WANT)
        col.check(not extra, 'C04-direction', 'render_reference:no-extra', 'no other kind produces a plain FOREIGN KEY',
                  f'kinds {sorted(extra)} also produce a plain FOREIGN KEY', node=fi.node, file=fi.file)
        # inline vs not inline generator choice
        GI, GN = 'generate_inline_sql', 'generate_not_inline_sql'

        def gens(nodes):
            return {x.id for n in nodes for x in ast.walk(n) if isinstance(x, ast.Name) and x.id in (GI, GN)}
        choice = [(n, [n.body] if isinstance(n, ast.IfExp) else n.body, [n.orelse] if isinstance(n, ast.IfExp) else n.orelse)
                  for n in ast.walk(fi.node) if isinstance(n, (ast.IfExp, ast.If)) and norm(n.test) == f'{p}.inline']
        cons = 'render_reference:inline-choice'
        verdicts = [(gens(b), gens(o), n) for n, b, o in choice if gens(b) or gens(o)]
        reads_inline = any(isinstance(x, ast.Attribute) and x.attr == 'inline' for x in ast.walk(fi.node))
        if verdicts and all(b == {GI} and o == {GN} for b, o, _ in verdicts):
            col.ok('C04-direction', cons, 'inline references use the clause generator, others the ALTER TABLE generator', node=verdicts[0][2], file=fi.file)
        elif verdicts and any(GN in b or GI in o for b, o, _ in verdicts):
            n = [v for v in verdicts if GN in v[0] or GI in v[1]][0][2]
            col.bad('C04-direction', cons, f'the generator choice is `{norm(n)[:100]}`: inline references must become FOREIGN KEY clauses and the others ALTER TABLE statements',
                    node=n, file=fi.file)
        elif len(gens([fi.node])) == 1 and not reads_inline:
            col.bad('C04-direction', cons, f'render_reference uses only {sorted(gens([fi.node]))[0]} and never reads {p}.inline: inline and standalone references are rendered '
                    f'the same way', node=fi.node, file=fi.file)
        else:
            col.unk('C04-direction', cons, 'how render_reference chooses between the clause generator and the ALTER TABLE generator is not recognised', node=fi.node, file=fi.file)
    guarded(col, 'C04-direction', 'direction', direction)

    # ---------------------------------------------------------------- C04-form
    def forms():
        from .forms import form_obligation
        keep = {'get_full_name_for_sql', 'comment_to_sql', 'escape_braces', 'col_names'}
        def has_(attr):
            def pred(lits):
                for l in lits:
                    if l[0] == 'truthy' and str(l[1]).endswith('.' + attr):
                        return True
                    if l[0] == 'not' and isinstance(l[1], tuple) and l[1][0] == 'truthy' and str(l[1][1]).endswith('.' + attr):
                        return False
                return None
            return pred
        CON = r'(\{c\}|◦|CONSTRAINT "◦" )?'
        ACT = r'( ON UPDATE ◦)?( ON DELETE ◦)?'
        guarded(col, 'C04-form', 'generate_inline_sql', lambda: form_obligation(
            ctx, col, 'C04-form', REFMOD, 'generate_inline_sql', r'(◦ ?)?' + CON + r'FOREIGN KEY \(◦\) REFERENCES ◦ \(◦\)' + ACT,
            '[CONSTRAINT "name"] FOREIGN KEY (cols) REFERENCES table (cols) [ON UPDATE a] [ON DELETE a]', keep=keep,
            order=[('source columns, referenced table, referenced columns', [r'source_col\b(?!\[0\]\.table)', r'ref_col\[0\]\.table', r'ref_col\b(?!\[0\]\.table)'])],
            labels=[('ON UPDATE action', r'\.on_update\b', has_('on_update'), True, 'ON UPDATE is written although no update action is set, or left out although one is set'),
                    ('ON DELETE action', r'\.on_delete\b', has_('on_delete'), True, 'ON DELETE is written although no delete action is set, or left out although one is set')]))
        guarded(col, 'C04-form', 'generate_not_inline_sql', lambda: form_obligation(
            ctx, col, 'C04-form', REFMOD, 'generate_not_inline_sql', r'(◦ ?)?ALTER TABLE ◦ ADD ' + CON + r'FOREIGN KEY \(◦\) REFERENCES ◦ \(◦\)' + ACT + r' ?;',
            'ALTER TABLE t ADD [CONSTRAINT "name"] FOREIGN KEY (cols) REFERENCES table (cols) [ON UPDATE a] [ON DELETE a];', keep=keep,
            order=[('source table, source columns, referenced table, referenced columns',
                    [r'source_col\[0\]\.table', r'source_col\b(?!\[0\]\.table)', r'ref_col\[0\]\.table', r'ref_col\b(?!\[0\]\.table)'])],
            labels=[('ON UPDATE action', r'\.on_update\b', has_('on_update'), True, 'ON UPDATE is written although no update action is set, or left out although one is set'),
                    ('ON DELETE action', r'\.on_delete\b', has_('on_delete'), True, 'ON DELETE is written although no delete action is set, or left out although one is set')]))
    forms()

    # ---------------------------------------------------------------- C04-sibling
    guarded(col, 'C04-sibling', 'key-holder', lambda: key_holder_dispatch(ctx, col, 'C04-sibling'))

    # ---------------------------------------------------------------- C04-once
    def once():
        from .common import select_filter
        from .common import expanded
        rd = expanded(ctx, 'pydbml.renderer.sql.default.renderer', 'DefaultSQLRenderer.render_db', keep_extra=('render', 'reorder_tables_for_sql'))
        dbp = [a.arg for a in rd.node.args.args][1]
        st, f = select_filter(rd.node, f'{dbp}.refs', [('not', ('truthy', 'VAR.inline'))])
        (col.ok if st == 'ok' else col.bad if st == 'bad' else col.unk)(
            'C04-once', 'render_db:non-inline-filter',
            'the database level renders exactly the references that are not inline' if st == 'ok' else
            (f'render_db selects references from {dbp}.refs under {f["conds"]}; expected exactly `not ref.inline`' if st == 'bad'
             else f'render_db does not select from {dbp}.refs in a recognised form'), node=rd.node, file=rd.file)
        gi = idx.func('pydbml.renderer.sql.default.table', 'get_inline_references_for_sql')
        mp = [a.arg for a in gi.node.args.args][0]
        st, f = select_filter(gi.node, f'get_references_for_sql({mp})', [('truthy', 'VAR.inline')])
        (col.ok if st == 'ok' else col.bad if st == 'bad' else col.unk)(
            'C04-once', 'get_inline_references_for_sql:inline-filter',
            'the table level renders exactly its inline references' if st == 'ok' else
            (f'get_inline_references_for_sql selects under {f["conds"]}; expected exactly `ref.inline` over get_references_for_sql(model)' if st == 'bad'
             else 'get_inline_references_for_sql does not select from get_references_for_sql(model) in a recognised form'), node=gi.node, file=gi.file)
        ab = [n for n in gi.node.body if isinstance(n, ast.If) and norm(n.test) == f'{mp}.abstract' and n.body and isinstance(n.body[0], ast.Return)
              and isinstance(n.body[0].value, (ast.List, ast.Tuple)) and not n.body[0].value.elts]
        col.check(bool(ab), 'C04-once', 'get_inline_references_for_sql:abstract-hosts-none', 'a join table hosts no inline references',
                  'get_inline_references_for_sql no longer returns [] for abstract (join) tables', node=gi.node, file=gi.file)
        # create_body renders them once
        from .common import expanded
        from ..strctx import ANCHOR_HELPERS
        cb = expanded(ctx, 'pydbml.renderer.sql.default.table', 'create_body', keep_extra=tuple(sorted(ANCHOR_HELPERS | {'_has_composite_pk'})))
        uses = [n for n in ast.walk(cb.node) if isinstance(n, ast.Call) and norm(n.func) == 'get_inline_references_for_sql']
        col.check(len(uses) == 1, 'C04-once', 'create_body:inline-refs-once', 'inline references are added to the table body exactly once',
                  f'create_body uses get_inline_references_for_sql {len(uses)} times', node=cb.node, file=cb.file)
        # Reference.inline: never true for many-to-many
        ref = idx.cls('pydbml._classes.reference', 'Reference')
        ip = idx.lookup_prop(ref.id, 'inline')
        if ip is None:
            raise AnchorMissing('Reference.inline')
        rets = [n.value for n in walk_no_nested(ip.node) if isinstance(n, ast.Return) and n.value is not None]
        oki = False
        if len(rets) == 1 and isinstance(rets[0], ast.BoolOp) and isinstance(rets[0].op, ast.And):
            parts = [norm(v).replace(' ', '') for v in rets[0].values]
            oki = 'self._inline' in parts and any(x in parts for x in ('notself.type==MANY_TO_MANY', 'self.type!=MANY_TO_MANY', 'notMANY_TO_MANY==self.type'))
        col.check(oki, 'C04-once', 'Reference.inline:not-m2m', 'a many-to-many reference never counts as inline (computed on read)',
                  f'Reference.inline returns `{norm(rets[0]) if rets else ""}`; expected `self._inline and not self.type == MANY_TO_MANY` - a `<>` reference flagged '
                  f'inline would be rendered nowhere', node=ip.node, file=ip.file)
    guarded(col, 'C04-once', 'exactly-once', once)

    # ---------------------------------------------------------------- C04-roles
    def roles():
        from ..strctx import TemplateIndex, origin_finals
        ti = TemplateIndex(idx, ('pydbml.renderer.sql.',))
        for gname, first_lit in (('generate_inline_sql', 'FOREIGN KEY'), ('generate_not_inline_sql', 'ALTER TABLE')):
            fi = idx.func(REFMOD, gname)
            params = [a.arg for a in fi.node.args.args]
            if params[1:3] != ['source_col', 'ref_col']:
                raise Unrecognised(f'{gname} parameters are {params}', fi.node)
            m = params[0]
            fins = list(origin_finals(ti, fi))
            # helpers the generator delegates (parts of) its text to: their sinks count too, with parameters re-rooted at the arguments
            texts = [c.value for c in ast.walk(fi.node) if isinstance(c, ast.Constant) and isinstance(c.value, str)]
            seen_h = {fi.id}
            frontier = [(fi, {})]
            for _ in range(4):
                nxt_f = []
                for f0, ren0 in frontier:
                    for c in ast.walk(f0.node):
                        if isinstance(c, ast.Call) and isinstance(c.func, ast.Name):
                            h = ti.resolve_func(f0, c.func.id)
                            if h is None or h.id in seen_h or h.id not in ti.sinks:
                                continue
                            seen_h.add(h.id)
                            hp = [a.arg for a in h.node.args.args]
                            ren = {}
                            for pn, a in zip(hp, c.args):
                                src = norm(a)
                                root = src.split('.')[0].split('[')[0]
                                ren[pn] = ren0.get(root, root) + src[len(root):]
                            for k in c.keywords:
                                if k.arg:
                                    ren[k.arg] = norm(k.value)
                            texts += [x.value for x in ast.walk(h.node) if isinstance(x, ast.Constant) and isinstance(x.value, str)]
                            for o, f, w, g, pth, ch in origin_finals(ti, h):
                                root = pth.split('.')[0].split('[')[0]
                                if root in ren:
                                    pth = ren[root] + pth[len(root):]
                                fins.append((o, f, w, g, pth, ch))
                            nxt_f.append((h, ren))
                frontier = nxt_f
            # ... and of the generator with every helper it calls read in place (a shared builder parameterised by a flag)
            from .common import expanded as _exp_
            from ..strctx import ANCHOR_HELPERS as _AH
            try:
                fx_ = _exp_(ctx, REFMOD, gname, keep_extra=tuple(sorted(_AH - {gname})))
                texts += [x.value for x in ast.walk(fx_.node) if isinstance(x, ast.Constant) and isinstance(x.value, str)]
            except Exception:       # pragma: no cover
                pass
            closure_text = ' '.join(x.template for h in fins for x in h[5]) + ' ' + ' '.join(texts)

            def record_fields(pth: str) -> str:
                """`Record(a, b).first[0].table` -> `a[0].table` for a NamedTuple / dataclass of the package built on the spot"""
                try:
                    e = ast.parse(pth, mode='eval').body
                except SyntaxError:
                    return pth

                class _RF(ast.NodeTransformer):
                    def visit_Attribute(self_, n):
                        self_.generic_visit(n)
                        if isinstance(n.value, ast.Call) and isinstance(n.value.func, ast.Name):
                            ci = idx.class_of(fi.module, n.value.func)
                            if ci is not None:
                                fields = [st_.target.id for st_ in ci.node.body if isinstance(st_, ast.AnnAssign) and isinstance(st_.target, ast.Name)]
                                vals = dict(zip(fields, n.value.args))
                                vals.update({k.arg: k.value for k in n.value.keywords if k.arg})
                                if n.attr in vals:
                                    return vals[n.attr]
                        return n
                return norm(_RF().visit(e))
            fins = [(o, f, w, g, record_fields(pth), ch) for o, f, w, g, pth, ch in fins]

            def after(lit: str):
                return [h for h in fins if any(x.left.rstrip(' (').endswith(lit) or x.left.rstrip().endswith(lit) for x in h[5])]

            def judge(cons: str, lit: str, want_path: str, need_wrapper: Optional[str], ok_msg: str, what: str, hits=None):
                hits = after(lit) if hits is None else hits
                if lit not in closure_text:
                    col.bad('C04-roles', cons, f'{gname} never emits `{lit}` (neither itself nor through the helpers it calls)', node=fi.node, file=fi.file)
                    return
                if not hits:
                    col.unk('C04-roles', cons, f'{gname}: cannot see what follows `{lit}`', node=fi.node, file=fi.file)
                    return
                good = [h for h in hits if h[4] == want_path and (need_wrapper is None or need_wrapper in h[2])]
                if good:
                    col.ok('C04-roles', cons, ok_msg, node=good[0][1].node, file=good[0][1].fn.file)
                else:
                    h = hits[0]
                    col.bad('C04-roles', cons, f'{gname}: {what} comes from `{h[4]}` (via {h[2] or "nothing"}), expected {need_wrapper + "(" if need_wrapper else ""}{want_path}'
                            f'{")" if need_wrapper else ""}', node=h[1].node, file=h[1].fn.file)
            judge(f'{gname}:FOREIGN KEY', 'FOREIGN KEY', 'source_col', 'col_names', 'FOREIGN KEY lists the source side\'s columns', 'the column list after FOREIGN KEY')
            judge(f'{gname}:REFERENCES-table', 'REFERENCES', 'ref_col[0].table', 'get_full_name_for_sql', 'REFERENCES names the referenced side\'s table, qualified',
                  'the table after REFERENCES')
            rt = after('REFERENCES')
            if rt:
                nxt = [h for h in fins if any(x.left.endswith(' (') for x in h[5]) and h[4] == 'ref_col' and 'col_names' in h[2]]
                col.check(bool(nxt), 'C04-roles', f'{gname}:REFERENCES-columns', 'REFERENCES lists the referenced side\'s columns',
                          f'{gname}: the column list after the referenced table does not come from col_names(ref_col)', node=rt[0][1].node, file=rt[0][1].fn.file)
            if gname == 'generate_not_inline_sql':
                judge(f'{gname}:ALTER TABLE', 'ALTER TABLE', 'source_col[0].table', 'get_full_name_for_sql', 'ALTER TABLE names the key-holding (source) table, qualified',
                      'the table after ALTER TABLE')
            for attr, kw in (('on_update', 'ON UPDATE'), ('on_delete', 'ON DELETE')):
                hits = after(kw)
                cons = f'{gname}:{kw}'
                if kw not in closure_text:
                    col.bad('C04-roles', cons, f'{gname} never emits `{kw}`: the {attr} action of a reference is lost', node=fi.node, file=fi.file)
                elif not hits:
                    col.unk('C04-roles', cons, f'{gname}: cannot see what follows `{kw}`', node=fi.node, file=fi.file)
                else:
                    def _okp(h_):
                        return h_[4] == f'{m}.{attr}' or h_[4].endswith(f'.{attr}')

                    def _okg(h_):
                        return any(t.endswith(f'.{attr}') and pol for t, pol in h_[3])
                    # the place that writes the keyword with its value under the test (a helper of the generator counts: the other hits are the same text passed on)
                    h = next((h_ for h_ in hits if _okp(h_) and _okg(h_)), hits[0])
                    okp, okg = _okp(h), _okg(h)
                    col.check(okp and okg, 'C04-roles', cons, f'{kw} <{attr}> is emitted when {attr} is set',
                              f'{gname}: after `{kw}` comes `{h[4]}` under {[t for t, _ in h[3]]}; expected {m}.{attr} under a test of that attribute',
                              node=h[1].node, file=h[1].fn.file)
            # the constraint placeholder stands before FOREIGN KEY
            import re as _re
            all_texts = [x.template for h in fins for x in h[5]] + texts
            adjacent = any(_re.search(r'\{c\}\s*FOREIGN KEY', t_) for t_ in all_texts)
            cons_c = f'{gname}:constraint-placeholder'
            if adjacent:
                col.ok('C04-roles', cons_c, 'the CONSTRAINT placeholder stands right before FOREIGN KEY', node=fi.node, file=fi.file)
            elif not any('{c}' in t_ for t_ in all_texts):
                col.bad('C04-roles', cons_c, f'{gname} has no `{{c}}` placeholder before FOREIGN KEY', node=fi.node, file=fi.file)
            else:
                col.unk('C04-roles', cons_c, f'{gname} has a `{{c}}` placeholder, but not in one piece of text with FOREIGN KEY: its position is not established', node=fi.node, file=fi.file)
        # col_names keeps the order of the side
        cn = idx.func(REFMOD, 'col_names')
        p = [a.arg for a in cn.node.args.args][0]
        comps = [n for n in ast.walk(cn.node) if isinstance(n, (ast.GeneratorExp, ast.ListComp))]
        okc = len(comps) == 1 and norm(comps[0].generators[0].iter) == p and not comps[0].generators[0].ifs
        col.check(okc, 'C04-roles', 'col_names:order', 'composite references keep their column order', f'col_names iterates `{norm(comps[0].generators[0].iter) if comps else "?"}`'
                  f'{" with a filter" if comps and comps[0].generators[0].ifs else ""} instead of the side as given', node=cn.node, file=cn.file)
        # the parser keeps the column order written in the reference
        rb0 = idx.func('pydbml.parser.blueprints', 'ReferenceBlueprint.build')
        from ..inline import inlined_info
        rb = inlined_info(idx, rb0, 2, keep={'locate_table', 'Reference'})
        rcall = [c for c in ast.walk(rb.node) if isinstance(c, ast.Call) and norm(c.func) == 'Reference']
        if not rcall:
            raise Unrecognised('ReferenceBlueprint.build does not construct Reference', rb.node)
        for kwd in rcall[0].keywords:
            if kwd.arg not in ('col1', 'col2'):
                continue
            side = kwd.arg[-1]
            val = kwd.value
            for _ in range(4):
                if not isinstance(val, ast.Name):
                    break
                asg = [n for n in walk_no_nested(rb.node) if isinstance(n, ast.Assign) and norm(n.targets[0]) == val.id]
                if len(asg) != 1:
                    break
                val = asg[-1].value
            verdict, why = composite_order(idx, rb, val, side)
            cons = f'ReferenceBlueprint.build:{kwd.arg}:written-order'
            if verdict == 'ok':
                col.ok('C04-roles', cons, f'{kwd.arg} lists the columns in the order written in the reference', node=kwd.value, file=rb.file)
            elif verdict == 'bad':
                col.bad('C04-roles', cons, f'ReferenceBlueprint.build builds {kwd.arg} as `{norm(val)[:70]}`: {why} - a composite reference no longer pairs '
                        f'its columns in the order written, so the FOREIGN KEY pairs the wrong columns', node=kwd.value, file=rb.file)
            else:
                col.unk('C04-roles', cons, f'cannot see how {kwd.arg} is ordered (`{norm(val)[:70]}`): {why}', node=kwd.value, file=rb.file)
        # CONSTRAINT "name" iff model.name
        rr = idx.func(REFMOD, 'render_reference')
        m = [a.arg for a in rr.node.args.args][0]
        cs = [n for n in walk_no_nested(rr.node) if isinstance(n, ast.Assign) and isinstance(n.value, ast.IfExp) and norm(n.value.test) == f'{m}.name']
        okn = False
        if cs:
            ie = cs[0].value
            okn = isinstance(ie.body, ast.JoinedStr) and 'CONSTRAINT "' in ''.join(c.value for c in ie.body.values if isinstance(c, ast.Constant)) \
                and any(isinstance(v, ast.FormattedValue) and norm(v.value) == f'{m}.name' for v in ie.body.values) \
                and isinstance(ie.orelse, ast.Constant) and ie.orelse.value == ''
            var = norm(cs[0].targets[0])
            okn = okn and any(isinstance(c, ast.Call) and isinstance(c.func, ast.Attribute) and c.func.attr == 'format'
                              and any(k.arg == 'c' and norm(k.value) == var for k in c.keywords) for c in ast.walk(rr.node))
        col.check(okn, 'C04-roles', 'render_reference:constraint-name', 'CONSTRAINT "name" is substituted exactly when the reference has a name',
                  'render_reference does not substitute `CONSTRAINT "<name>" ` for the placeholder iff model.name', node=rr.node, file=rr.file)
    guarded(col, 'C04-roles', 'template-roles', roles)

    # ---------------------------------------------------------------- C04-join
    def join():
        ref = idx.cls('pydbml._classes.reference', 'Reference')
        jt = idx.lookup_prop(ref.id, 'join_table')
        if jt is None:
            raise AnchorMissing('Reference.join_table')
        rets = [n for n in walk_no_nested(jt.node) if isinstance(n, ast.Return) and n.value is not None and not (isinstance(n.value, ast.Constant) and n.value.value is None)]
        stores = [n for n in ast.walk(jt.node) if isinstance(n, ast.Assign) and isinstance(n.targets[0], ast.Attribute) and norm(n.targets[0].value) == 'self']
        col.check(not stores, 'C04-join', 'join_table:no-memo', 'join_table stores nothing on the reference',
                  f'join_table memoises on the reference (`{norm(stores[0])[:60] if stores else ""}`): after the first access the join table no longer follows '
                  f'edits of the referenced tables and columns', node=stores[0] if stores else jt.node, file=jt.file)
        cached = [r for r in rets if origin(r.value, jt.node)[0] == 'attr']
        for r in cached:
            col.bad('C04-join', 'join_table:built-on-access', f'Reference.join_table returns the stored object `{norm(r.value)}`: a cached join table does not follow '
                    f'later edits of the referenced tables and columns', node=r, file=jt.file)
        rets = [r for r in rets if r not in cached]
        if len(rets) != 1:
            raise Unrecognised(f'join_table has {len(rets)} returns that build a table', jt.node)
        tag = origin(rets[0].value, jt.node)
        if not cached:
            col.check(tag[0] == 'fresh' and tag[1].startswith('Table('), 'C04-join', 'join_table:built-on-access',
                      'the join table is built from the current columns on every access',
                      f'Reference.join_table returns `{norm(rets[0].value)[:60]}` ({tag[0]}): not a table built from the current state', node=rets[0], file=jt.file)
        call = rets[0].value
        if isinstance(call, ast.Name):
            for n in walk_no_nested(jt.node):
                if isinstance(n, ast.Assign) and norm(n.targets[0]) == call.id and isinstance(n.value, ast.Call):
                    call = n.value
        if isinstance(call, ast.Attribute):
            for n in ast.walk(jt.node):
                if isinstance(n, ast.Assign) and norm(n.targets[0]) == norm(call) and isinstance(n.value, ast.Call):
                    call = n.value
        if not (isinstance(call, ast.Call) and norm(call.func) == 'Table'):
            raise Unrecognised('join_table does not return Table(...)', rets[0])
        kw = {k.arg: k.value for k in call.keywords}
        # a local that holds `self.table1` / `self.table2` (read once, e.g. through an assignment expression) stands for that attribute
        held = {}
        for n in ast.walk(jt.node):
            if isinstance(n, (ast.Assign, ast.NamedExpr)):
                tg = n.targets[0] if isinstance(n, ast.Assign) and len(n.targets) == 1 else (n.target if isinstance(n, ast.NamedExpr) else None)
                if isinstance(tg, ast.Name) and norm(n.value) in ('self.table1', 'self.table2'):
                    held.setdefault(tg.id, set()).add(norm(n.value))
        held = {k_: next(iter(v_)) for k_, v_ in held.items() if len(v_) == 1}
        if held:
            import copy as _cp

            class _H(ast.NodeTransformer):
                def visit_Name(self_, n):
                    if isinstance(n.ctx, ast.Load) and n.id in held:
                        return ast.copy_location(ast.parse(held[n.id], mode='eval').body, n)
                    return n
            kw = {k_: _H().visit(_cp.deepcopy(v_)) for k_, v_ in kw.items()}
        nm = kw.get('name')
        okn = isinstance(nm, ast.JoinedStr) and [norm(v.value) if isinstance(v, ast.FormattedValue) else v.value for v in nm.values] == ['self.table1.name', '_', 'self.table2.name']
        col.check(okn, 'C04-join', 'join_table:name', 'named <left>_<right>', f'join table name is `{norm(nm) if nm is not None else "?"}`, expected f"{{self.table1.name}}_{{self.table2.name}}"',
                  node=call, file=jt.file)
        col.check('schema' in kw and norm(kw['schema']) == 'self.table1.schema', 'C04-join', 'join_table:schema', 'lives in the left table\'s schema',
                  f'join table schema is `{norm(kw["schema"]) if "schema" in kw else "default"}`, expected self.table1.schema', node=call, file=jt.file)
        col.check('abstract' in kw and isinstance(kw['abstract'], ast.Constant) and kw['abstract'].value is True, 'C04-join', 'join_table:abstract',
                  'marked abstract (hosts no inline references)', 'join table is not created with abstract=True', node=call, file=jt.file)
        cols = kw.get('columns')
        okcols = False
        why = ''
        if isinstance(cols, (ast.GeneratorExp, ast.ListComp)) and len(cols.generators) == 1:
            g = cols.generators[0]
            cv = norm(g.target)
            it = norm(g.iter).replace(' ', '')
            elt = cols.elt
            ekw = {k.arg: k.value for k in elt.keywords} if isinstance(elt, ast.Call) else {}
            okcols = (it in ('chain(self.col1,self.col2)', '(*self.col1,*self.col2)', '[*self.col1,*self.col2]', 'self.col1+self.col2') and not g.ifs
                      and isinstance(elt, ast.Call) and norm(elt.func) == 'Column'
                      and norm(ekw.get('type')) == f'{cv}.type'
                      and isinstance(ekw.get('not_null'), ast.Constant) and ekw['not_null'].value is True
                      and isinstance(ekw.get('pk'), ast.Constant) and ekw['pk'].value is True)
            why = f'iter={it} elt={norm(elt)[:80]}'
        col.check(okcols, 'C04-join', 'join_table:columns', 'one NOT NULL primary-key column per column of col1 then col2, typed like it',
                  f'join table columns are built as {why or norm(cols) if cols is not None else "?"}; expected Column(type=c.type, not_null=True, pk=True) for c in col1 then col2',
                  node=call, file=jt.file)
        # the two ALTER statements
        gm2 = idx.func(REFMOD, 'generate_many_to_many_sql')
        m = [a.arg for a in gm2.node.args.args][0]
        calls = [c for c in ast.walk(gm2.node) if isinstance(c, ast.Call) and norm(c.func) == 'generate_not_inline_sql']
        nvar = None
        for n in walk_no_nested(gm2.node):
            if isinstance(n, ast.Assign) and norm(n.value) == f'len({m}.col1)':
                nvar = norm(n.targets[0])
        jv = None
        for n in walk_no_nested(gm2.node):
            if isinstance(n, ast.Assign) and norm(n.value) == f'{m}.join_table':
                jv = norm(n.targets[0])
        got = sorted((norm(c.args[1]) if len(c.args) > 1 else '', norm(c.args[2]) if len(c.args) > 2 else '') for c in calls)
        want = sorted([(f'{jv}.columns[:{nvar}]', f'{m}.col1'), (f'{jv}.columns[{nvar}:]', f'{m}.col2')])
        col.check(got == want, 'C04-join', 'generate_many_to_many_sql:two-foreign-keys', 'two foreign keys from the join table back to the two sides',
                  f'generate_many_to_many_sql builds its foreign keys from {got}; expected {want}', node=gm2.node, file=gm2.file)
        # the join table's own SQL is part of the output
        col.check(any(isinstance(n, ast.Attribute) and n.attr == 'sql' and norm(n.value) == jv for n in ast.walk(gm2.node)), 'C04-join',
                  'generate_many_to_many_sql:creates-table', 'the join table itself is created', 'generate_many_to_many_sql does not emit the join table\'s CREATE TABLE',
                  node=gm2.node, file=gm2.file)
    guarded(col, 'C04-join', 'join-table', join)


def composite_order(idx, rb: FuncInfo, val: ast.AST, side: str, depth: int = 0) -> Tuple[str, str]:
    """Is the endpoint list built by walking the NAMES written in the reference (in order), looking each up in the table?"""
    if isinstance(val, (ast.ListComp, ast.GeneratorExp)) or (isinstance(val, ast.Call) and norm(val.func) in ('list', 'tuple') and val.args
                                                             and isinstance(val.args[0], (ast.ListComp, ast.GeneratorExp))):
        comp = val if isinstance(val, (ast.ListComp, ast.GeneratorExp)) else val.args[0]
        if len(comp.generators) != 1:
            return 'unknown', 'nested comprehension'
        g = comp.generators[0]
        it = g.iter
        src = norm(it)
        # what does the iterable derive from?
        if isinstance(it, ast.Name):
            asg = [n for n in walk_no_nested(rb.node) if isinstance(n, ast.Assign) and norm(n.targets[0]) == it.id]
            src = norm(asg[-1].value) if asg else src
        if '.columns' in norm(it) or '.columns' in src and f'self.col{side}' not in src:
            return 'bad', f'it walks the columns of the table (`{norm(it)}`) and keeps those that are named, i.e. the table\'s declaration order'
        if g.ifs:
            return 'bad', f'names are filtered by `{norm(g.ifs[0])}`'
        if any(w in src for w in ('sorted(', 'set(', 'reversed(')):
            return 'bad', f'the name list is reordered (`{src[:50]}`)'
        if f'self.col{side}' in src or (rb.node.args.args and any(a.arg in src for a in rb.node.args.args[1:])):
            if isinstance(comp.elt, ast.Subscript) and norm(comp.elt.slice) == norm(g.target):
                return 'ok', ''
            # ... or of the name tidied up on the spot (`table[name.strip('() ')]`): a per-element function of the loop variable alone
            if isinstance(comp.elt, ast.Subscript) and isinstance(g.target, ast.Name) and {x.id for x in ast.walk(comp.elt.slice) if isinstance(x, ast.Name)} == {g.target.id} \
                    and isinstance(comp.elt.slice, ast.Call) and isinstance(comp.elt.slice.func, ast.Attribute) and norm(comp.elt.slice.func.value) == g.target.id:
                return 'ok', ''
            return 'unknown', f'element `{norm(comp.elt)}` is not a lookup of the name in the table'
        return 'unknown', f'iterates `{src[:50]}`'
    if isinstance(val, ast.Call) and isinstance(val.func, ast.Attribute) and norm(val.func.value) == 'self' and depth < 2:
        ci = idx.classes.get(rb.cls)
        helper = ci.methods.get(val.func.attr) if ci else None
        if helper is not None:
            rets = [n.value for n in walk_no_nested(helper.node) if isinstance(n, ast.Return) and n.value is not None]
            hp = [a.arg for a in helper.node.args.args][1:]
            verdicts = []
            for r in rets:
                if isinstance(r, ast.Name):
                    asg = [n for n in walk_no_nested(helper.node) if isinstance(n, ast.Assign) and norm(n.targets[0]) == r.id]
                    r = asg[-1].value if asg else r
                # inside the helper the written names arrive through a parameter
                v, w = composite_order(idx, helper, r, side, depth + 1)
                verdicts.append((v, w))
            if any(v == 'bad' for v, _ in verdicts):
                return [x for x in verdicts if x[0] == 'bad'][0]
            if verdicts and all(v == 'ok' for v, _ in verdicts):
                return 'ok', ''
            return 'unknown', f'helper {helper.qualname}'
    return 'unknown', 'not a comprehension over the written names'
