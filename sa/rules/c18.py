"""C18 - SQL creates a table before any table that references it inline (partial: structural
necessary conditions only)."""
from __future__ import annotations

import ast
from typing import Dict, List, Optional, Set, Tuple

from ..core import Collector, guarded, norm, Unrecognised, AnchorMissing
from ..pyindex import walk_no_nested, access_path, FuncInfo
from .common import paths_of

EXPLANATION = (
    'Permutation/determinism clause: reorder_tables_for_sql returns an order-only transformation (sorted/list/slice/plain '
    'comprehension) of its tables parameter - not a list rebuilt from a mapping keyed by a non-unique attribute and not a '
    'filtered list; the sort key reads only the model and a local counter; render_db applies the reordering exactly once and '
    'renders exactly that list (no second regrouping/sorting, db.tables not rendered directly). Direction clause (necessary '
    'condition only): for each reference kind whose inline references are counted, the table whose count is raised and the '
    'sort direction must move the REFERENCED table towards the front (count the referenced side and sort descending, or count '
    'the key-holding side and sort ascending); the key-holding side per kind is taken from the sibling dispatch in '
    'renderer/sql/default/reference.py; only inline references are counted.')
RULE_TEXT = 'one obligation per return form, key function, call site, post-processing step and counted reference kind'
ASSUMPTIONS = ['topological correctness for arbitrary acyclic graphs is not decided (a per-table counter cannot order chains of length 3 whatever its direction)',
               'a future rewrite as a real topological sort is reported as ANALYSIS-ERROR (unrecognised shape) for the direction rule, never as a violation']
ENGINES = ['pyindex', 'paths', 'peval']
TECHNIQUE = 'static analysis (ast): return-form and dataflow rules on reorder_tables_for_sql and render_db; dispatch-table evaluation of the counted side per reference kind against the sibling FOREIGN KEY dispatch; partial evaluation per kind; counting idioms (dict, Counter, generators) canonicalised before reading'

UTILS = 'pydbml.renderer.sql.default.utils'
RENDERER = 'pydbml.renderer.sql.default.renderer'
REFMOD = 'pydbml.renderer.sql.default.reference'


def const_names(ctx) -> Dict[str, str]:
    cm = ctx.idx.module('pydbml.constants')
    out = {}
    for st in cm.tree.body:
        if isinstance(st, ast.Assign) and isinstance(st.value, ast.Constant) and isinstance(st.targets[0], ast.Name) and isinstance(st.value.value, str) \
                and st.value.value and set(st.value.value) <= set('<>-'):
            out[st.targets[0].id] = st.value.value          # the relation kinds are the constants spelled with the operator characters; other constants may live here too
    return out


def kinds_of_test(t: ast.AST, var: str) -> Optional[Set[str]]:
    """Constant names K such that the test contains `<var>.type == K` / `<var>.type in (K, ..)` as a conjunct."""
    conj = t.values if isinstance(t, ast.BoolOp) and isinstance(t.op, ast.And) else [t]
    for c in conj:
        if isinstance(c, ast.Compare) and len(c.ops) == 1 and norm(c.left) == f'{var}.type':
            r = c.comparators[0]
            if isinstance(c.ops[0], ast.Eq) and isinstance(r, ast.Name):
                return {r.id}
            if isinstance(c.ops[0], ast.In) and isinstance(r, (ast.Tuple, ast.List, ast.Set)) and all(isinstance(e, ast.Name) for e in r.elts):
                return {e.id for e in r.elts}
    return None


def fk_dispatch(ctx):
    """How render_reference dispatches on the reference kind: ({kind: [(source side, referenced side)]}, kinds whose sides could not be
    resolved, whether `<>` goes to the join-table generator, the function).  Sides are 'col1'/'col2'.
    The function (small helpers read in place) is partially evaluated once per kind constant with every test on `<model>.type` decided by that kind
    (sa/peval.py): if/elif chains, early returns, flags, conditional expressions, tuple selections and swapped branches all give the same answer."""
    from ..inline import inlined_info
    from ..peval import run
    fi0 = ctx.idx.func(REFMOD, 'render_reference')
    fi = inlined_info(ctx.idx, fi0, depth=2, keep={'generate_inline_sql', 'generate_not_inline_sql', 'generate_many_to_many_sql', 'validate_for_sql', 'escape_braces'})
    p = [a.arg for a in fi.node.args.args][0]
    seen: Dict[str, List[Tuple[str, str]]] = {}
    unresolved: List[str] = []
    m2m = False
    for k in sorted(const_names(ctx)):
        tr = run(fi.node, f'{p}.type', k)
        gens = []
        for c in tr.calls:
            kw = {x.arg: x.value for x in c.keywords}
            if 'source_col' in kw and 'ref_col' in kw:
                gens.append((kw['source_col'], kw['ref_col']))
            elif len(c.args) >= 3 and norm(c.args[0]) == p and isinstance(c.func, (ast.Name, ast.IfExp)) and 'generate' in norm(c.func):
                gens.append((c.args[1], c.args[2]))
            if 'generate_many_to_many_sql' in norm(c.func):
                if k == 'MANY_TO_MANY':
                    m2m = True
        for se, re_ in gens:
            a = norm(se).replace(f'{p}.', '') if norm(se) in (f'{p}.col1', f'{p}.col2') else None
            b_ = norm(re_).replace(f'{p}.', '') if norm(re_) in (f'{p}.col1', f'{p}.col2') else None
            if a and b_:
                if (a, b_) not in seen.get(k, []):
                    seen.setdefault(k, []).append((a, b_))
            else:
                unresolved.append(k)
    return seen, unresolved, m2m, fi0


def holder_sides(ctx) -> Dict[str, str]:
    """kind constant -> side ('1'/'2') whose columns carry the FOREIGN KEY, read from render_reference."""
    seen, unresolved, _, _ = fk_dispatch(ctx)
    if unresolved:
        raise Unrecognised(f'the FOREIGN KEY dispatch of render_reference cannot be resolved for {sorted(set(unresolved))}')
    out: Dict[str, str] = {}
    for k, pairs in seen.items():
        sides = {a for a, _ in pairs}
        if len(sides) == 1:
            out[k] = next(iter(sides))[-1]
    return out


def run(ctx, col: Collector):
    idx = ctx.idx

    def permutation():
        fi = idx.func(UTILS, 'reorder_tables_for_sql')
        params = [a.arg for a in fi.node.args.args]
        if len(params) < 2:
            raise Unrecognised('reorder_tables_for_sql does not take (tables, refs)', fi.node)
        tp = params[0]
        rets = [n for n in walk_no_nested(fi.node) if isinstance(n, ast.Return)]
        if not rets:
            raise Unrecognised('reorder_tables_for_sql has no return', fi.node)
        # local aliases that are order-only copies of the parameter
        copies = {tp}
        for n in walk_no_nested(fi.node):
            if isinstance(n, ast.Assign) and len(n.targets) == 1 and isinstance(n.targets[0], ast.Name):
                if order_only(n.value, copies)[0] == 'perm':
                    copies.add(n.targets[0].id)
        # dicts keyed by an attribute of the elements
        keyed: Dict[str, str] = {}
        for n in walk_no_nested(fi.node):
            tgt = n.targets[0] if isinstance(n, ast.Assign) and len(n.targets) == 1 else (n.target if isinstance(n, ast.AnnAssign) else None)
            if isinstance(tgt, ast.Name) and isinstance(getattr(n, 'value', None), ast.DictComp):
                dc = n.value
                g = dc.generators[0]
                if norm(g.iter) in copies and isinstance(g.target, ast.Name) and norm(dc.value) == g.target.id \
                        and isinstance(dc.key, ast.Attribute) and norm(dc.key.value) == g.target.id:
                    keyed[tgt.id] = dc.key.attr
        env1: Dict[str, ast.AST] = {}
        cnt1: Dict[str, int] = {}
        for n in walk_no_nested(fi.node):
            if isinstance(n, ast.Assign) and len(n.targets) == 1 and isinstance(n.targets[0], ast.Name):
                cnt1[n.targets[0].id] = cnt1.get(n.targets[0].id, 0) + 1
                env1[n.targets[0].id] = n.value
        env1 = {k: v for k, v in env1.items() if cnt1.get(k) == 1 and k not in copies}
        for r in rets:
            kind, why = order_only(r.value, copies, keyed, env1)
            cons = f'reorder_tables_for_sql:return@{norm(r.value)[:50]}'
            if kind == 'perm':
                col.ok('C18-permutation', cons, f'the result is an order-only transformation of `{tp}` ({why})', node=r, file=fi.file)
            elif kind == 'notperm':
                col.bad('C18-permutation', cons, f'reorder_tables_for_sql returns `{norm(r.value)[:80]}`: {why} - the result is not a permutation of the '
                        f'database\'s tables (tables are dropped or duplicated in the script)', node=r, file=fi.file)
            else:
                col.unk('C18-permutation', cons, f'return form `{norm(r.value)[:80]}` is not a recognised order-only transformation of `{tp}`', node=r, file=fi.file)
            # key function
            if isinstance(r.value, ast.Call) and norm(r.value.func) == 'sorted':
                key = next((k.value for k in r.value.keywords if k.arg == 'key'), None)
                if key is not None:
                    bad = [norm(x) for x in ast.walk(key) if isinstance(x, ast.Call) and norm(x.func) in ('id', 'hash', 'random.random', 'random')]
                    reads_outer = set()
                    if isinstance(key, ast.Lambda):
                        lp = {a.arg for a in key.args.args}
                        locs = {t.id for n in walk_no_nested(fi.node) if isinstance(n, (ast.Assign, ast.AnnAssign))
                                for t in ([n.target] if isinstance(n, ast.AnnAssign) else n.targets) if isinstance(t, ast.Name)} | set(params)
                        for x in ast.walk(key.body):
                            if isinstance(x, ast.Name) and x.id not in lp and x.id not in locs and x.id not in dir(__builtins__):
                                reads_outer.add(x.id)
                    col.check(not bad and not reads_outer, 'C18-permutation', 'reorder_tables_for_sql:key-deterministic',
                              'the sort key reads only the table and the local counter (sorted() is stable)',
                              f'the sort key uses {bad or sorted(reads_outer)}: the order does not depend only on the model', node=key, file=fi.file)
        # the parameter itself is not mutated (db.tables is passed in)
        muts = [n for n in walk_no_nested(fi.node) if isinstance(n, ast.Call) and isinstance(n.func, ast.Attribute)
                and norm(n.func.value) == tp and n.func.attr in ('sort', 'reverse', 'pop', 'remove', 'append', 'insert', 'clear', 'extend')]
        col.check(not muts, 'C18-permutation', 'reorder_tables_for_sql:input-untouched', 'the database\'s own table list is not modified',
                  f'reorder_tables_for_sql mutates its input `{norm(muts[0]) if muts else ""}` (this is db.tables)', node=muts[0] if muts else fi.node, file=fi.file)
    guarded(col, 'C18-permutation', 'permutation', permutation)

    def once():
        rc = idx.cls(RENDERER, 'DefaultSQLRenderer')
        rd = rc.methods.get('render_db')
        if rd is None:
            raise AnchorMissing('DefaultSQLRenderer.render_db')
        from .common import expanded
        rd = expanded(ctx, rd.module, rd.qualname, keep_extra=('render', 'reorder_tables_for_sql'))
        dbp = [a.arg for a in rd.node.args.args][1]
        calls = [n for n in walk_no_nested(rd.node) if isinstance(n, ast.Call) and norm(n.func).split('.')[-1] == 'reorder_tables_for_sql']
        col.check(len(calls) == 1, 'C18-once', 'render_db:reorder-call', 'the reordering is applied exactly once',
                  f'render_db calls reorder_tables_for_sql {len(calls)} times', node=rd.node, file=rd.file)
        if len(calls) != 1:
            return
        call = calls[0]
        col.check(len(call.args) >= 2 and norm(call.args[0]) == f'{dbp}.tables' and norm(call.args[1]) == f'{dbp}.refs', 'C18-once',
                  'render_db:reorder-args', 'all tables and all references of the database are passed',
                  f'reorder_tables_for_sql is called with `{", ".join(norm(a) for a in call.args)}`, not with ({dbp}.tables, {dbp}.refs)', node=call, file=rd.file)
        # variable holding the result
        var = None
        stmts = rd.node.body
        pos = None
        for i, st in enumerate(stmts):
            if isinstance(st, ast.Assign) and st.value is call and isinstance(st.targets[0], ast.Name):
                var, pos = st.targets[0].id, i
        if var is None:
            raise Unrecognised('the result of reorder_tables_for_sql is not assigned to a local variable', call)
        later = stmts[pos + 1:]
        reassigned = [st for st in later for n in ast.walk(st) if isinstance(n, ast.Name) and n.id == var and isinstance(n.ctx, ast.Store)]
        mutated = [n for st in later for n in ast.walk(st) if isinstance(n, ast.Call) and isinstance(n.func, ast.Attribute) and norm(n.func.value) == var
                   and n.func.attr in ('sort', 'reverse', 'pop', 'remove', 'insert', 'append', 'extend', 'clear')]
        col.check(not reassigned and not mutated, 'C18-once', 'render_db:no-post-processing',
                  'the ordered list is rendered as returned (no regrouping, sorting or filtering afterwards)',
                  f'render_db changes the ordered list after reorder_tables_for_sql (`{norm((reassigned or mutated or [rd.node])[0])[:80]}`): a later regrouping/sorting '
                  f'ignores the dependency order, a filter drops tables', node=(reassigned or mutated)[0] if (reassigned or mutated) else rd.node, file=rd.file)
        uses = [n for st in later for n in ast.walk(st) if isinstance(n, ast.Name) and n.id == var and isinstance(n.ctx, ast.Load)]
        direct = [n for st in later for n in ast.walk(st) if isinstance(n, ast.Attribute) and norm(n) == f'{dbp}.tables']
        col.check(len(uses) == 1 and not direct, 'C18-once', 'render_db:renders-ordered-list',
                  'exactly the ordered list is rendered, once', f'the ordered list is used {len(uses)} times and {dbp}.tables is rendered directly '
                  f'{len(direct)} times: tables appear twice / in declaration order', node=rd.node, file=rd.file)
    guarded(col, 'C18-once', 'applied-once', once)

    def direction():
        from ..inline import inlined_info
        fi = inlined_info(idx, idx.func(UTILS, 'reorder_tables_for_sql'), depth=2)
        params = [a.arg for a in fi.node.args.args]
        consts = const_names(ctx)
        holders = holder_sides(ctx)
        if len(holders) < 3:
            raise Unrecognised(f'could not read the key-holder side per kind from render_reference ({holders})')
        loops = [n for n in walk_no_nested(fi.node) if isinstance(n, ast.For) and norm(n.iter) == params[1]]
        # the sort: `return sorted(tables, key=K, reverse=R)` or `xs = list(tables); xs.sort(key=K, reverse=R); return xs`
        sort_calls = [c for c in walk_no_nested(fi.node) if isinstance(c, ast.Call) and (
            (isinstance(c.func, ast.Name) and c.func.id == 'sorted') or (isinstance(c.func, ast.Attribute) and c.func.attr == 'sort'))]
        if len(loops) != 1 or len(sort_calls) != 1:
            raise Unrecognised('reorder_tables_for_sql is not `count per table in one loop over refs, then one sort`', fi.node)
        loop = loops[0]
        rv = norm(loop.target)
        sc = sort_calls[0]
        rev = next((k.value for k in sc.keywords if k.arg == 'reverse'), None)
        if rev is not None and not isinstance(rev, ast.Constant):
            raise Unrecognised('reverse= is not a constant', sc)
        keyx = next((k.value for k in sc.keywords if k.arg == 'key'), None)
        if keyx is None:
            raise Unrecognised('the sort has no key function', sc)
        kbody = None
        if isinstance(keyx, ast.Lambda):
            kbody = keyx.body
        elif isinstance(keyx, ast.Name):
            defs = [n for n in ast.walk(fi.node) if isinstance(n, ast.FunctionDef) and n is not fi.node and n.name == keyx.id]
            if len(defs) == 1:
                from ..grammar import action_value, Action
                kbody = action_value(Action('func', fi.module, keyx.id, defs[0]))
        if kbody is None:
            raise Unrecognised(f'the sort key `{norm(keyx)[:40]}` is not a lambda or a local function this rule can read', sc)
        negated = False
        while isinstance(kbody, ast.UnaryOp) and isinstance(kbody.op, ast.USub):
            negated = not negated
            kbody = kbody.operand
        if isinstance(kbody, ast.IfExp):      # `d[k] if k in d else 0`
            kbody = kbody.body if not (isinstance(kbody.body, ast.Constant)) else kbody.orelse
        if not any(isinstance(x, (ast.Subscript, ast.Call)) for x in ast.walk(kbody)):
            raise Unrecognised(f'the sort key `{norm(kbody)[:40]}` is not a lookup of the per-table count', sc)
        descending = (bool(rev.value) if rev is not None else False) != negated
        # the key must be the counter looked up by what the loop counted
        counted: Dict[str, Tuple[str, ast.AST]] = {}
        # every path that raises a counter has established `ref.inline` (path semantics: nesting, guard clauses and elif chains alike)
        from ..paths import function_paths
        from ..cond import term as _term, conjuncts as _conj
        n_count = n_gated = 0
        for path in function_paths(fi.node, unroll=1):
            lits = []
            is_none: Set[str] = set()      # locals known to hold None on this path (constant propagation: prunes infeasible paths)
            feasible = True
            for ev in path:
                if not feasible:
                    break
                if ev.kind == 'test':
                    new = _conj(_term(ev.node, ev.outcome))
                    for l in new:
                        if l[0] == 'not' and isinstance(l[1], tuple) and l[1][0] in ('none',) and l[1][1] in is_none:
                            feasible = False
                        if l[0] == 'truthy' and l[1] in is_none:
                            feasible = False
                    lits.extend(new)
                elif ev.kind == 'stmt' and isinstance(ev.node, (ast.Assign, ast.AugAssign)):
                    if isinstance(ev.node, ast.Assign) and len(ev.node.targets) == 1 and isinstance(ev.node.targets[0], ast.Name):
                        v_ = ev.node.value
                        nm_ = ev.node.targets[0].id
                        if (isinstance(v_, ast.Constant) and v_.value is None) or (isinstance(v_, ast.Name) and v_.id in is_none):
                            is_none.add(nm_)
                        else:
                            is_none.discard(nm_)
                    t = ev.node.targets[0] if isinstance(ev.node, ast.Assign) else ev.node.target
                    if isinstance(t, ast.Subscript) and any(x is ev.node for x in ast.walk(loop)):
                        n_count += 1
                        if ('truthy', f'{rv}.inline') in lits:
                            n_gated += 1
        if n_count == 0:
            raise Unrecognised('no counter update found in the loop over the references', loop)
        inline_only = n_gated == n_count
        def scan(node: ast.If):
            ks = kinds_of_test(node.test, rv)
            if ks:
                for s in node.body:
                    for a in ast.walk(s):
                        if isinstance(a, ast.Assign) and isinstance(a.value, ast.Attribute):
                            src = norm(a.value)
                            for side in ('1', '2'):
                                if src.startswith(f'{rv}.table{side}.') or src == f'{rv}.table{side}':
                                    for k in ks:
                                        counted[k] = (side, a)
        for n in ast.walk(loop):
            if isinstance(n, ast.If):
                scan(n)
        # the same question asked semantically: the loop body evaluated once per kind (tests on the kind decided, locals followed) - which table's name indexes the
        # counter that is raised?  Covers conditional expressions, helper functions read in place, flags and early `continue`s.
        from ..peval import run as _prun
        for K in sorted(consts):
            tr = _prun(fi.node, f'{rv}.type', K, inside=loop.body)
            sides = set()
            for tgt, _val, _conds in tr.stores:
                if isinstance(tgt, ast.Subscript):
                    src = norm(tgt.slice)
                    for side in ('1', '2'):
                        if src.startswith(f'{rv}.table{side}.') or src == f'{rv}.table{side}':
                            sides.add(side)
            if len(sides) == 1 and K not in counted:
                counted[K] = (next(iter(sides)), loop)
        if not counted:
            raise Unrecognised('no `if ref.type == KIND: <name> = ref.tableN...` branch found in the counting loop', loop)
        col.check(inline_only, 'C18-direction', 'reorder_tables_for_sql:inline-only', 'only inline references influence the order',
                  'references that are not inline are counted too (they are emitted after all tables and need no ordering)', node=loop, file=fi.file)
        for k in sorted(counted):
            side, node = counted[k]
            if k not in holders:
                raise Unrecognised(f'kind {k} is counted but render_reference has no FOREIGN KEY dispatch for it')
            holder = holders[k]
            counts_holder = side == holder
            good = (counts_holder and not descending) or ((not counts_holder) and descending)
            sym = consts.get(k, k)
            col.check(good, 'C18-direction', f'reorder_tables_for_sql:{k}:{"holder" if counts_holder else "referenced"}-{"descending" if descending else "ascending"}',
                      f'inline `{sym}` references move the referenced table towards the front',
                      f'for inline `{sym}` references the counter is raised for table{side} - the table that '
                      f'{"HOLDS the foreign key" if counts_holder else "is referenced"} - and tables are sorted {"descending" if descending else "ascending"} by it: the '
                      f'{"referencing" if counts_holder == descending else "referenced"} table is emitted first: the table whose CREATE TABLE contains the FOREIGN KEY clause '
                      f'comes before the table that clause references', node=node, file=fi.file)
        col.floor('C18-direction', 'counted kinds', len(counted), 2)
    guarded(col, 'C18-direction', 'direction', direction)

    def holders():
        # "each referenced table first" is about the tables whose CREATE TABLE really contains the FOREIGN KEY clause: a reference must be assigned to the table
        # that holds it and to no namesake (selection by object, not by name) - obligations shared with C05-owner
        sub = ctx.sub('c05', col.prop)
        n = 0
        for o in sub.obs:
            if o.rule == 'C05-owner' and o.construct.startswith('get_references_for_sql:'):
                n += 1
                col.obs.append(type(o)(col.prop, 'C18-holder', o.construct, o.status, o.msg, o.file, o.line, o.extra))
        col.floor('C18-holder', 'key-holder obligations', n, 3)
    guarded(col, 'C18-holder', 'holders', holders)


def order_only(e: Optional[ast.AST], copies: Set[str], keyed: Optional[Dict[str, str]] = None, env: Optional[Dict[str, ast.AST]] = None, depth: int = 0) -> Tuple[str, str]:
    """('perm', how) / ('notperm', why) / ('unknown', '')."""
    keyed = keyed or {}
    env = env or {}
    if e is None:
        return 'notperm', 'nothing is returned'
    if isinstance(e, ast.Name) and e.id in copies:
        return 'perm', 'the list itself'
    if isinstance(e, ast.Name) and e.id in env and depth < 4:
        return order_only(env[e.id], copies, keyed, env, depth + 1)
    if isinstance(e, ast.BinOp) and isinstance(e.op, ast.Add):
        # a concatenation of parts: one part that loses elements makes the whole lose them
        for part in (e.left, e.right):
            k, w = order_only(part, copies, keyed, env, depth + 1)
            if k == 'notperm':
                return k, w
        return 'unknown', ''
    if isinstance(e, ast.Call) and isinstance(e.func, ast.Name) and e.func.id in ('sorted', 'list', 'tuple', 'reversed') and e.args and depth < 4:
        k0, w0 = order_only(e.args[0], copies, keyed, env, depth + 1)
        if k0 == 'notperm':
            return k0, w0
    if isinstance(e, ast.Call) and isinstance(e.func, ast.Name) and e.func.id in ('sorted', 'list', 'tuple', 'reversed') and e.args:
        k, w = order_only(e.args[0], copies, keyed)
        return (k, f'{e.func.id}({w})') if k == 'perm' else (k, w)
    if isinstance(e, ast.Subscript) and isinstance(e.slice, ast.Slice) and e.slice.lower is None and e.slice.upper is None:
        k, w = order_only(e.value, copies, keyed)
        return (k, f'{w}[:]') if k == 'perm' else (k, w)
    if isinstance(e, (ast.ListComp, ast.GeneratorExp)) and len(e.generators) == 1:
        g = e.generators[0]
        if isinstance(g.target, ast.Name) and norm(e.elt) == g.target.id:
            k, w = order_only(g.iter, copies, keyed)
            if k == 'perm':
                if g.ifs:
                    return 'notperm', f'tables are filtered by `{norm(g.ifs[0])}`'
                return 'perm', f'[t for t in {w}]'
        # elements looked up in a mapping keyed by an attribute
        for n in ast.walk(e.elt):
            if isinstance(n, ast.Subscript) and isinstance(n.value, ast.Name) and n.value.id in keyed:
                attr = keyed[n.value.id]
                if attr not in ('full_name',):
                    return 'notperm', (f'the result is rebuilt from the mapping `{n.value.id}` keyed by `.{attr}`, which is not unique '
                                       f'(tables of different schemas may share a {attr})')
    if isinstance(e, ast.Call) and isinstance(e.func, ast.Attribute) and e.func.attr == 'values' and isinstance(e.func.value, ast.Name) \
            and e.func.value.id in keyed and keyed[e.func.value.id] != 'full_name':
        return 'notperm', f'the result is the values of a mapping keyed by `.{keyed[e.func.value.id]}`, which is not unique'
    return 'unknown', ''
