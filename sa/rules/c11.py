"""C11 - parsing is deterministic, history-independent and re-entrant."""
from __future__ import annotations

import ast
from typing import Dict, List, Optional, Set, Tuple

from ..core import Collector, guarded, acquire_grammar, norm, Unrecognised, AnchorMissing
from ..grammar import G, walk, top_shape
from ..pyindex import walk_no_nested, access_path, root_name, FuncInfo
from .common import get_cg, CACHE_DECORATORS
from .c07 import _N

EXPLANATION = (
    'No state survives a parse or is shared between parses: (a) on the grammar IR, after evaluating _set_syntax for both '
    'option values, no module-level grammar element (nor anything reachable from one) carries an instance-bound parse '
    'action, and every top-level alternative of the instance syntax carries exactly one - i.e. the instance action is '
    'attached to per-instance copies only; (b) no function body in the package writes to a module-level object or to a '
    'class-level attribute (stores, deletes, mutating method calls, `global`), the only exception being the import-time '
    'renderer registration decorator; no mutable default arguments; class-level mutable attributes other than the renderer '
    'registries are never mutated; (c) PyDBMLParser.__init__ and Database.__init__ bind every collection to a fresh '
    'display, and dict-valued constructor arguments that come from a blueprint are created per parse; (d) no '
    'nondeterminism or retention sources on the parse/render closure: random/time/uuid/secrets/os.environ/id()/hash(), '
    'iteration over sets, memoising decorators, packrat or left-recursion caches.')
RULE_TEXT = 'one obligation per module-level grammar element group, per top-level alternative, per function (shared-state writes), per default argument, per class-level mutable attribute, per constructor collection, per nondeterminism source'
ASSUMPTIONS = ['pyparsing\'s matcher is re-entrant for non-packrat grammars (assumed, not analysed)',
               'reclamation by the garbage collector follows from the absence of retained references; it is not observed']
ENGINES = ['pyindex', 'grammar', 'effects']
TECHNIQUE = 'static analysis (ast): copy-vs-in-place semantics on the grammar IR; shared-state write analysis over every function body; constructor freshness; nondeterminism-source scan over the call-graph closure'

MUTATORS = {'append', 'extend', 'insert', 'pop', 'remove', 'clear', 'update', 'setdefault', 'sort', 'reverse', 'add', 'discard', 'popitem',
            '__setitem__', '__delitem__', 'appendleft'}
NONDET_MODULES = {'random', 'time', 'uuid', 'secrets', 'datetime', 'threading', 'tempfile'}

CONTROL = '''
CACHE = {}
class K:
    table = {}
    def m(self, x, acc=[]):
        global CACHE
        CACHE[x] = 1
        self.table[x] = 2
        K.table.update(a=1)
        acc.append(x)
'''


def is_mutable_display(v: Optional[ast.AST]) -> bool:
    if v is None:
        return False
    if isinstance(v, (ast.List, ast.Dict, ast.Set, ast.ListComp, ast.DictComp, ast.SetComp)):
        return True
    if isinstance(v, ast.Call) and isinstance(v.func, ast.Name) and v.func.id in ('list', 'dict', 'set', 'defaultdict', 'OrderedDict', 'Counter', 'deque', 'bytearray'):
        return True
    if isinstance(v, ast.Call) and isinstance(v.func, ast.Attribute) and v.func.attr in ('defaultdict', 'OrderedDict', 'Counter', 'deque'):
        return True
    return False


def local_names(fn: ast.AST) -> Set[str]:
    """Names bound inside the function (parameters, assignment targets, loop/with/except/comprehension variables)."""
    out: Set[str] = set()
    a = fn.args
    for x in list(a.posonlyargs) + list(a.args) + list(a.kwonlyargs):
        out.add(x.arg)
    if a.vararg:
        out.add(a.vararg.arg)
    if a.kwarg:
        out.add(a.kwarg.arg)
    globs: Set[str] = set()
    for n in walk_no_nested(fn):
        if isinstance(n, ast.Global):
            globs |= set(n.names)
    for n in ast.walk(fn):
        if isinstance(n, ast.Name) and isinstance(n.ctx, (ast.Store, ast.Del)):
            out.add(n.id)
        elif isinstance(n, (ast.FunctionDef, ast.ClassDef)) and n is not fn:
            out.add(n.name)
        elif isinstance(n, ast.ExceptHandler) and n.name:
            out.add(n.name)
        elif isinstance(n, (ast.Import, ast.ImportFrom)):
            for al in n.names:
                out.add((al.asname or al.name).split('.')[0])
    return out - globs


def shared_writes(idx, modname: str, tree: ast.AST, module_syms: Dict[str, str], class_mut_attrs: Dict[str, Set[str]]):
    """Yield (function node, offending node, description) for writes to module-level or class-level state
    from inside function bodies of one module.  module_syms: name -> kind ('assign'|'class'|'import'|'func')."""
    out = []

    def visit_fn(fn: ast.AST, cls: Optional[str], enclosing_locals: Set[str]):
        locs = local_names(fn) | enclosing_locals
        first = fn.args.args[0].arg if fn.args.args else None
        # a local that is only ever bound to a module-level mutable object is another name for it: `xs = TABLE; xs[0] = ...` writes TABLE
        bound: Dict[str, List[ast.AST]] = {}
        for n in walk_no_nested(fn):
            if isinstance(n, ast.Name) and isinstance(n.ctx, ast.Store):
                bound.setdefault(n.id, [])
            if isinstance(n, ast.Assign) and len(n.targets) == 1 and isinstance(n.targets[0], ast.Name):
                bound.setdefault(n.targets[0].id, []).append(n.value)
        stores_n = {}
        for n in walk_no_nested(fn):
            if isinstance(n, ast.Name) and isinstance(n.ctx, ast.Store):
                stores_n[n.id] = stores_n.get(n.id, 0) + 1
        aliases.clear()
        for v, vals in bound.items():
            if vals and len(vals) == stores_n.get(v, 0) and all(isinstance(x, ast.Name) and x.id not in locs and module_syms.get(x.id) == 'assign' for x in vals) \
                    and len({x.id for x in vals}) == 1:
                aliases[v] = vals[0].id
        for n in walk_no_nested(fn):
            if isinstance(n, ast.Global):
                out.append((fn, n, f'declares `global {", ".join(n.names)}`'))
            tgts: List[ast.AST] = []
            if isinstance(n, ast.Assign):
                tgts = list(n.targets)
            elif isinstance(n, (ast.AugAssign, ast.AnnAssign)):
                tgts = [n.target]
            elif isinstance(n, ast.Delete):
                tgts = list(n.targets)
            for t in tgts:
                for tt in (t.elts if isinstance(t, (ast.Tuple, ast.List)) else [t]):
                    if isinstance(tt, (ast.Attribute, ast.Subscript)):
                        why = shared_target(tt, locs, first, cls)
                        if why:
                            out.append((fn, n, f'stores into {why} (`{norm(tt)}`)'))
            if isinstance(n, ast.Call) and isinstance(n.func, ast.Attribute) and n.func.attr in MUTATORS:
                why = shared_target(n.func.value, locs, first, cls, receiver=True)
                if why:
                    out.append((fn, n, f'mutates {why} (`{norm(n)[:60]}`)'))
        for n in ast.iter_child_nodes(fn):
            pass
        for n in ast.walk(fn):
            if isinstance(n, (ast.FunctionDef, ast.Lambda)) and n is not fn and isinstance(n, ast.FunctionDef):
                # nested defs: analysed with the enclosing locals visible
                if any(n is c for c in ast.walk(fn)):
                    pass
        for n in walk_no_nested(fn):
            if isinstance(n, ast.FunctionDef) and n is not fn:
                visit_fn(n, cls, locs)

    def shared_target(e: ast.AST, locs: Set[str], first: Optional[str], cls: Optional[str], receiver: bool = False) -> Optional[str]:
        """Is the object designated by e (the container of an attribute/subscript store, or a method receiver)
        module-level or class-level state?"""
        obj = e if receiver else e.value
        # strip subscripts: X[...][...]
        base = obj
        while isinstance(base, ast.Subscript):
            base = base.value
        if isinstance(base, ast.Name):
            if base.id in aliases:
                return f'the module-level object `{aliases[base.id]}` (through the local name `{base.id}`)'
            if base.id in locs:
                return None
            kind = module_syms.get(base.id)
            if kind == 'assign':
                return f'the module-level object `{base.id}`'
            if kind == 'class' and not receiver and isinstance(e, ast.Attribute) and e.value is base:
                return f'the class attribute `{base.id}.{e.attr}`'
            return None
        if isinstance(base, ast.Attribute):
            r = base.value
            # ClassName.attr... / cls.attr... / self.<class-level mutable attr>...
            if isinstance(r, ast.Name):
                if r.id not in locs and module_syms.get(r.id) == 'class':
                    return f'the class-level object `{r.id}.{base.attr}`'
                if r.id == first and cls is not None:
                    if fn_kind.get(id(cur_fn[0])) == 'classmethod' or r.id == 'cls':
                        return f'the class-level object `{r.id}.{base.attr}`'
                    if base.attr in class_mut_attrs.get(cls, set()) and (receiver or obj is not base or isinstance(e, ast.Subscript)):
                        return f'the class-level mutable attribute `{cls}.{base.attr}` (through `{r.id}`)'
                if isinstance(r, ast.Name) and r.id not in locs and module_syms.get(r.id) == 'assign':
                    return f'the module-level object `{r.id}`'
        return None

    fn_kind: Dict[int, str] = {}
    cur_fn: List[ast.AST] = [None]
    aliases: Dict[str, str] = {}

    def walk_body(body, cls: Optional[str]):
        for st in body:
            if isinstance(st, ast.FunctionDef):
                decs = [norm(d) for d in st.decorator_list]
                fn_kind[id(st)] = 'classmethod' if 'classmethod' in decs else 'function'
                for sub in ast.walk(st):
                    if isinstance(sub, ast.FunctionDef):
                        fn_kind.setdefault(id(sub), fn_kind[id(st)])
                cur_fn[0] = st
                visit_fn(st, cls, set())
            elif isinstance(st, ast.ClassDef):
                walk_body(st.body, st.name)
            elif isinstance(st, (ast.If, ast.Try)):
                walk_body(st.body, cls)
                walk_body(getattr(st, 'orelse', []), cls)
    walk_body(tree.body, None)
    return out


def run(ctx, col: Collector):
    idx = ctx.idx
    gm = acquire_grammar(ctx, col, 'C11-grammar')

    # ---------------------------------------------------------------- C11-copy
    def copies():
        # module-level elements = everything bound in a definition module or reachable from such a binding
        seen: Set[int] = set()
        n_mod = 0
        offenders: List[Tuple[str, str, G]] = []
        for modname, env in gm.ev.envs.items():
            for var, v in env.items():
                if isinstance(v, G):
                    n_mod += 1
                    for g in walk(v, seen):
                        for a in g.actions:
                            if a.kind == 'method':
                                offenders.append((modname, var, g))
        col.floor('C11-copy', 'module-level grammar variables', n_mod, 80)
        col.stat('module_level_grammar_nodes', len(seen))
        for modname, var, g in offenders:
            col.bad('C11-copy', f'{modname.split(".")[-1]}.{g.var or var}:instance-action',
                    f'the module-level grammar element `{g.var or var}` ({g.file}:{g.line}) carries the instance-bound action '
                    f'{[a.name for a in g.actions if a.kind == "method"]}: _set_syntax attached it to the shared element itself (no pyparsing .copy(), or a shallow copy.copy() that keeps the original\'s action list), so every parse adds '
                    f'another parser (and its database) to the shared grammar', node=_N(g), file=g.file)
        col.check(not offenders, 'C11-copy', 'module-level-grammar:no-instance-actions',
                  f'none of the {len(seen)} grammar nodes reachable from module-level variables carries an instance-bound action',
                  f'{len(offenders)} module-level elements carry instance-bound actions')
        for flag in (False, True):
            for alt in top_shape(gm.configs[flag])['alts']:
                k = sum(1 for a in alt.actions if a.kind == 'method')
                cons_k = f'allow_properties={flag}:{alt.var}:one-instance-action'
                if k == 1:
                    col.ok('C11-copy', cons_k, 'exactly one instance action on this parser\'s copy', node=_N(alt), file=alt.file)
                elif k > 1:
                    col.bad('C11-copy', cons_k, f'top-level alternative `{alt.var}` carries {k} instance-bound actions after _set_syntax ran for both option values: actions '
                            f'accumulate on a shared element from parse to parse', node=_N(alt), file=alt.file)
                else:
                    col.unk('C11-copy', cons_k, f'top-level alternative `{alt.var}` carries no action bound to the parser instance: the matched elements are collected by some '
                            f'other mechanism, which this rule does not follow', node=_N(alt), file=alt.file)
        # the instance syntax is stored on the instance, not on the class or a module-level name
        ss = gm.set_syntax
        tg = [n for n in walk_no_nested(ss.node) if isinstance(n, ast.Assign) and any('_syntax' in norm(t) for t in n.targets)]
        def on_self(t) -> bool:
            if isinstance(t, (ast.Tuple, ast.List)):
                return all(on_self(x) for x in t.elts if '_syntax' in norm(x))
            return norm(t).startswith('self.')
        col.check(bool(tg) and all(on_self(t) for n in tg for t in n.targets), 'C11-copy', '_set_syntax:instance-syntax',
                  'the assembled syntax is stored on the parser instance', 'the assembled syntax is not stored on `self`', node=ss.node, file=ss.file)
    guarded(col, 'C11-copy', 'per-instance-copies', copies)

    # ---------------------------------------------------------------- C11-shared
    def shared():
        n_fn = 0
        hits = 0
        # class-level mutable attributes
        class_mut: Dict[str, Set[str]] = {}
        registries: Set[Tuple[str, str]] = set()
        for ci in idx.classes.values():
            for a, v in ci.class_attrs.items():
                if is_mutable_display(v):
                    class_mut.setdefault(ci.name, set()).add(a)
        base = idx.cls('pydbml.renderer.base', 'BaseRenderer')
        renderer_names = {c.name for c in [base] + idx.subclasses(base.id)}
        for modname, mod in sorted(idx.modules.items()):
            syms = {k: s.kind for k, s in mod.symbols.items()}
            for s in mod.symbols.values():
                if s.kind == 'import':
                    r = idx.resolve(modname, s.name)
                    if r is not None and r.kind in ('class', 'assign') and r.module in idx.modules:
                        syms[s.name] = r.kind if r.kind == 'class' or is_mutable_display(r.node) else 'import'
                elif s.kind == 'assign' and not is_mutable_display(s.node) and not isinstance(s.node, ast.Call):
                    syms[s.name] = 'const'
            n_fn += sum(1 for n in ast.walk(mod.tree) if isinstance(n, ast.FunctionDef))
            for fn, node, what in shared_writes(idx, modname, mod.tree, syms, class_mut):
                # import-time registration decorator: BaseRenderer.renderer_for.<locals>.decorator writes cls.model_renderers
                if modname == 'pydbml.renderer.base' and 'model_renderers' in norm(node) and fn.name in ('decorator', 'renderer_for'):
                    col.ok('C11-shared', f'{modname}:{fn.name}:registry-write', 'the renderer registration decorator writes the per-class registry '
                           '(import time only, checked below)', node=node, file=mod.relpath)
                    continue
                hits += 1
                col.bad('C11-shared', f'{modname}:{fn.name}:{norm(node)[:50]}', f'{mod.relpath}:{node.lineno} {fn.name} {what}: state shared by all '
                        f'parses/databases is changed at run time, so results depend on what was parsed before', node=node, file=mod.relpath)
        # the registration decorator is only used as a decorator at module level
        uses = 0
        for modname, mod in idx.modules.items():
            for n in ast.walk(mod.tree):
                if isinstance(n, ast.Call) and isinstance(n.func, ast.Attribute) and n.func.attr == 'renderer_for':
                    uses += 1
                    dec_ok = any(isinstance(f, ast.FunctionDef) and any(d is n for d in f.decorator_list) for f in mod.tree.body)
                    if not dec_ok:
                        hits += 1
                        col.bad('C11-shared', f'{modname}:renderer_for@runtime', f'{mod.relpath}:{n.lineno} calls renderer_for outside a module-level '
                                f'decorator: the shared registry is changed at run time', node=n, file=mod.relpath)
        col.floor('C11-shared', 'registration decorator uses', uses, 19)
        # mutable defaults
        for fi in idx.all_funcs():
            a = fi.node.args
            for d in list(a.defaults) + [x for x in a.kw_defaults if x is not None]:
                if is_mutable_display(d):
                    hits += 1
                    col.bad('C11-shared', f'{fi.id}:mutable-default', f'{fi.qualname} has the mutable default argument `{norm(d)}`: one object shared by '
                            f'all calls', node=d, file=fi.file)
        # class-level mutable attributes other than the registries must not exist (or never be mutated: shared_writes covers mutation)
        for cname, attrs in sorted(class_mut.items()):
            for a in sorted(attrs):
                if cname in renderer_names and a == 'model_renderers':
                    col.ok('C11-shared', f'{cname}.{a}:registry', 'per-renderer registry filled at import time', file='')
                else:
                    col.ok('C11-shared', f'{cname}.{a}:class-level-mutable', f'class-level mutable attribute {cname}.{a} is never mutated through an '
                           f'instance or the class (checked by the write scan)', file='')
        # each concrete renderer owns its registry
        for c in idx.subclasses(base.id):
            col.check('model_renderers' in c.class_attrs, 'C11-shared', f'{c.name}:own-registry', f'{c.name} defines its own model_renderers',
                      f'{c.name} does not define its own model_renderers: registrations land in a registry shared with other renderers',
                      node=c.node, file=c.module.replace('.', '/') + '.py')
        # positive control
        ctl = ast.parse(CONTROL)
        got = shared_writes(idx, 'control', ctl, {'CACHE': 'assign', 'K': 'class'}, {'K': {'table'}})
        if len(got) < 4:
            col.unk('C11-shared', 'control', f'positive control matched {len(got)} of 4 shared-state writes')
        col.stat('functions_scanned', n_fn)
        col.check(hits == 0, 'C11-shared', 'package:no-shared-state-writes',
                  f'no function body among {n_fn} writes module-level or class-level state (control: {len(got)} hits)',
                  f'{hits} shared-state writes / mutable defaults')
    guarded(col, 'C11-shared', 'shared-state', shared)

    # ---------------------------------------------------------------- C11-fresh
    def fresh():
        for mod, cname, floor in (('pydbml.parser.parser', 'PyDBMLParser', 6), ('pydbml.database', 'Database', 6)):
            ci = idx.cls(mod, cname)
            init = ci.methods['__init__']
            params = {a.arg for a in init.node.args.args}
            n = 0
            for st in walk_no_nested(init.node):
                tgt = val = None
                if isinstance(st, ast.Assign) and len(st.targets) == 1:
                    tgt, val = st.targets[0], st.value
                elif isinstance(st, ast.AnnAssign):
                    tgt, val = st.target, st.value
                if tgt is None or val is None or not (isinstance(tgt, ast.Attribute) and norm(tgt.value) == 'self'):
                    continue
                ann = norm(st.annotation) if isinstance(st, ast.AnnAssign) else ''
                is_coll = isinstance(val, (ast.List, ast.Dict, ast.Set)) or ann.startswith(('List', 'Dict', 'Set', 'list', 'dict', 'set'))
                if not is_coll:
                    # a collection attribute bound to something that is not a display: module-level or parameter object
                    if isinstance(val, ast.Name) and val.id not in params and val.id not in ('None', 'True', 'False'):
                        col.bad('C11-fresh', f'{cname}.__init__:{tgt.attr}', f'{cname}.__init__ binds self.{tgt.attr} to the shared object `{val.id}`',
                                node=st, file=init.file)
                    continue
                n += 1
                col.check(isinstance(val, (ast.List, ast.Dict, ast.Set)) and not (getattr(val, 'elts', None) or getattr(val, 'keys', None)),
                          'C11-fresh', f'{cname}.__init__:{tgt.attr}', f'self.{tgt.attr} starts as a fresh empty collection',
                          f'{cname}.__init__ binds the collection self.{tgt.attr} to `{norm(val)}` instead of a fresh empty display: state of an earlier '
                          f'parse can leak into this one', node=st, file=init.file)
            col.floor('C11-fresh', f'{cname} collections', n, floor)
        # build_database creates a new Database per parse
        bd = idx.func('pydbml.parser.parser', 'PyDBMLParser.build_database')
        news = [n for n in walk_no_nested(bd.node) if isinstance(n, ast.Assign) and norm(n.targets[0]) == 'self.database'
                and isinstance(n.value, ast.Call) and norm(n.value.func) == 'Database']
        col.check(len(news) == 1, 'C11-fresh', 'build_database:new-database', 'every parse builds into a new Database()',
                  'build_database does not create a new Database for this parse', node=bd.node, file=bd.file)
        # PyDBML.parse / parse_file create a new parser per call
        creates: Dict[str, bool] = {}
        for fname in ('PyDBML.parse', 'PyDBML.parse_file'):
            from ..inline import inlined_info
            fi = inlined_info(idx, idx.func('pydbml.parser.parser', fname), depth=2, keep={'remove_bom', 'parse', 'parse_file'})
            news = [n for n in walk_no_nested(fi.node) if isinstance(n, ast.Call) and norm(n.func) == 'PyDBMLParser']
            # the other route of the same class, called on the class itself: `return PyDBML.parse(text)`
            via = [c.func.attr for c in walk_no_nested(fi.node) if isinstance(c, ast.Call) and isinstance(c.func, ast.Attribute) and norm(c.func.value) in ('cls', 'PyDBML')
                   and f'PyDBML.{c.func.attr}' != fname and creates.get(f'PyDBML.{c.func.attr}')]
            creates[fname] = bool(news)
            if news:
                col.ok('C11-fresh', f'{fname}:new-parser', 'a new PyDBMLParser per call', node=fi.node, file=fi.file)
            elif via:
                creates[fname] = True
                col.ok('C11-fresh', f'{fname}:new-parser', f'parses through PyDBML.{via[0]}, which creates a new PyDBMLParser per call', node=fi.node, file=fi.file)
            else:
                # delegation to something this rule did not read is no evidence; a `.parse()` on a name that is not created in the call is
                calls_out = [c for c in walk_no_nested(fi.node) if isinstance(c, ast.Call) and isinstance(c.func, ast.Name) and idx.resolve(fi.module, c.func.id) is not None
                             and idx.resolve(fi.module, c.func.id).kind == 'func']
                shared = [c for c in walk_no_nested(fi.node) if isinstance(c, ast.Call) and isinstance(c.func, ast.Attribute) and c.func.attr == 'parse'
                          and isinstance(c.func.value, (ast.Name, ast.Attribute)) and norm(c.func.value) not in ('cls', 'PyDBML')]
                if shared and not calls_out:
                    col.bad('C11-fresh', f'{fname}:new-parser', f'{fname} parses with `{norm(shared[0].func.value)}`, an object that is not created in the call: parser state is '
                            f'shared between calls', node=fi.node, file=fi.file)
                else:
                    col.unk('C11-fresh', f'{fname}:new-parser', f'{fname}: no PyDBMLParser(...) construction found in the function or the helpers read in place', node=fi.node,
                            file=fi.file)
        # dict-valued data reaching model objects is created per parse
        gmn = gm.nodes_with_action('parse_table', True) + gm.nodes_with_action('parse_column_settings', True) + gm.nodes_with_action('parse_project')
        seen_a = set()
        for g in gmn:
            for a in g.actions:
                if a.kind != 'func' or a.name in seen_a:
                    continue
                seen_a.add(a.name)
                for n in ast.walk(a.node):
                    if isinstance(n, ast.Assign) and len(n.targets) == 1 and isinstance(n.targets[0], ast.Name) and isinstance(n.value, ast.Name) \
                            and n.value.id not in local_names(a.node) and n.value.id not in ('None',):
                        col.bad('C11-fresh', f'{a.name}:{n.targets[0].id}', f'{a.name} starts from the module-level object `{n.value.id}`',
                                node=n, file=a.module.replace('.', '/') + '.py')
                loc = local_names(a.node)
                dicts = [n for n in ast.walk(a.node) if isinstance(n, ast.Assign) and isinstance(n.value, (ast.Dict, ast.DictComp))]
                col.check(bool(dicts), 'C11-fresh', f'{a.name}:fresh-dicts', f'{a.name} builds its result dicts per call ({len(dicts)} displays)',
                          f'{a.name} builds no dict per call', node=a.node, file=a.module.replace('.', '/') + '.py')
    guarded(col, 'C11-fresh', 'fresh-state', fresh)

    # ---------------------------------------------------------------- C11-nondet
    def nondet():
        hits = 0
        n_mod = 0
        for modname, mod in sorted(idx.modules.items()):
            n_mod += 1
            for n in ast.walk(mod.tree):
                if isinstance(n, ast.Import):
                    for a in n.names:
                        if a.name.split('.')[0] in NONDET_MODULES:
                            hits += 1
                            col.bad('C11-nondet', f'{modname}:import:{a.name}', f'{mod.relpath}:{n.lineno} imports `{a.name}`', node=n, file=mod.relpath)
                if isinstance(n, ast.ImportFrom) and (n.module or '').split('.')[0] in NONDET_MODULES:
                    hits += 1
                    col.bad('C11-nondet', f'{modname}:import:{n.module}', f'{mod.relpath}:{n.lineno} imports from `{n.module}`', node=n, file=mod.relpath)
                if isinstance(n, ast.Call) and isinstance(n.func, ast.Name) and n.func.id in ('id', 'hash') and n.args:
                    hits += 1
                    col.bad('C11-nondet', f'{modname}:{n.func.id}()', f'{mod.relpath}:{n.lineno} uses `{norm(n)}` (address/hash dependent result)',
                            node=n, file=mod.relpath)
                if isinstance(n, ast.Attribute) and norm(n) in ('os.environ',):
                    hits += 1
                    col.bad('C11-nondet', f'{modname}:os.environ', f'{mod.relpath}:{n.lineno} reads the process environment', node=n, file=mod.relpath)
                if isinstance(n, (ast.For, ast.comprehension)):
                    it = n.iter
                    if isinstance(it, (ast.Set, ast.SetComp)) or (isinstance(it, ast.Call) and isinstance(it.func, ast.Name) and it.func.id in ('set', 'frozenset')):
                        hits += 1
                        col.bad('C11-nondet', f'{modname}:set-iteration@{getattr(n, "lineno", it.lineno)}', f'{mod.relpath}:{it.lineno} iterates over a set '
                                f'(`{norm(it)[:40]}`): the order depends on hashing', node=it, file=mod.relpath)
                if isinstance(n, ast.FunctionDef):
                    for dec in n.decorator_list:
                        d = norm(dec.func if isinstance(dec, ast.Call) else dec)
                        if d in CACHE_DECORATORS or d.split('.')[-1] in ('lru_cache', 'cache', 'cached_property'):
                            hits += 1
                            col.bad('C11-nondet', f'{modname}:{n.name}:cache', f'{mod.relpath}:{n.lineno} {n.name} is memoised with @{d}: results of earlier '
                                    f'parses are retained by the library', node=n, file=mod.relpath)
        for m, line, what in gm.ev.ws_sets:
            if what.startswith('!'):
                hits += 1
                col.bad('C11-nondet', f'{m}:{what[1:]}', f'{m}:{line} enables a pyparsing memo cache ({what[1:]}): parse results of earlier documents are '
                        f'retained and shared between threads', file=m.replace('.', '/') + '.py')
        col.check(hits == 0, 'C11-nondet', 'package:no-nondeterminism-sources',
                  f'{n_mod} modules: no random/time/uuid/environ/id()/hash()/set iteration/memoisation/packrat', f'{hits} nondeterminism or retention sources')
        # default whitespace is set identically wherever it is set (global pyparsing state)
        vals = {w for _, _, w in gm.ev.ws_sets if not w.startswith('!')}
        col.check(len(vals) == 1, 'C11-nondet', 'default-whitespace:single-value', f'all {len(gm.ev.ws_sets)} settings of the global default whitespace agree ({vals})',
                  f'the global default whitespace characters are set to different values {vals}: the grammar built depends on import order',
                  file='pydbml/definitions/common.py')
    guarded(col, 'C11-nondet', 'nondeterminism', nondet)
