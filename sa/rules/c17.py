"""C17 - inconsistent models are refused at render time, not rendered as bogus output."""
from __future__ import annotations

import ast
from typing import List, Set

from ..core import Collector, guarded, norm, Unrecognised, AnchorMissing
from ..pyindex import walk_no_nested, access_path, FuncInfo
from ..paths import function_paths, walk_event, Ev
from ..cond import term, conjuncts
from .common import (guard_obligation, must_call_before, is_normal_return, resolve_exc, paths_of, event_calls,
                     calls_named)

EXPLANATION = (
    'Required-attribute tables of the model classes are supersets of the attributes the property lists; the generic '
    'check raises the attribute-missing error for each None attribute (loop over the table, is-None test, raise, all '
    'paths); the SQL renderer calls it before dispatch on every path and no registered SQL handler is invoked directly '
    '(bypass). Endpoint validation: both render_reference functions call their validator before touching the model; '
    'the validators scan every column of both sides; table1/table2 validate before returning; composite inline DBML and '
    'join_table raise. Detached lookups: the three get-refs functions raise on the path where the owner is absent and '
    'never return normally from such a path. Each guard is checked for presence, exception class on the failing branch '
    'and dominance over the protected use (path enumeration).')
RULE_TEXT = 'one obligation per required attribute, per guard clause (present / raises / dominates / scans), per must-call site'
ASSUMPTIONS = ['guards are unconditional statements of the functions, so reachability through editing histories adds nothing once dominance is shown',
               'decides presence/class/dominance of the guards, not every way of constructing an inconsistent model']
ENGINES = ['pyindex', 'paths', 'effects']
TECHNIQUE = 'static analysis (ast): guard obligations (presence, exception class, dominance) by path enumeration; must-call-before; class-constant tables; owner-link clearing obligations of the delete operations'

EXC = 'pydbml.exceptions:'
REQUIRED = {
    ('pydbml._classes.table', 'Table'): {'name'},
    ('pydbml._classes.column', 'Column'): {'name', 'type'},
    ('pydbml._classes.enum', 'Enum'): {'name', 'schema'},
    ('pydbml._classes.enum', 'EnumItem'): {'name'},
    ('pydbml._classes.index', 'Index'): {'table'},
}


# (container class, collection) whose elements are rendered inside the container's own SQL statement
CONTAINED = {('Table', 'columns'), ('Table', 'indexes'), ('Enum', 'items')}


def run(ctx, col: Collector):
    idx = ctx.idx

    # ---------------------------------------------------------------- C17-a
    def required():
        for (mod, cls), need in REQUIRED.items():
            ci = idx.cls(mod, cls)
            val = idx.class_attr(ci.id, 'required_attributes')
            tup = idx.const_tuple(val)
            if tup is None:
                raise Unrecognised(f'{cls}.required_attributes is not a tuple of string literals', val or ci.node)
            attrs = idx.init_attrs(ci.id)
            for a in sorted(need):
                col.check(a in tup, 'C17-required', f'{cls}.required_attributes:{a}', f'{cls} requires `{a}` for SQL',
                          f'{cls}.required_attributes = {tup} lacks `{a}`: rendering SQL without it gives bogus output '
                          f'instead of the attribute-missing error', node=val, file=mod.replace('.', '/') + '.py')
            for a in tup:
                col.check(a in attrs or idx.lookup_prop(ci.id, a) is not None, 'C17-required', f'{cls}.required_attributes:exists:{a}',
                          f'required attribute `{a}` exists on {cls}',
                          f'{cls}.required_attributes names `{a}`, which {cls}.__init__ never sets (getattr would raise AttributeError)',
                          node=val, file=mod.replace('.', '/') + '.py')
    guarded(col, 'C17-required', 'tables', required)

    def check_fn():
        fi = idx.func('pydbml._classes.base', 'SQLObject.check_attributes_for_sql')
        guard_obligation(ctx, col, 'C17-check', fi, 'attr-is-none',
                         lambda lits, n: any(l[0] == 'none' and l[1].startswith('getattr(self,') for l in lits),
                         [EXC + 'AttributeMissingError'], protect=is_normal_return, what='getattr(self, attr) is None',
                         require_loop_over='self.required_attributes')
        # no subclass overrides it with something weaker
        base = idx.cls('pydbml._classes.base', 'SQLObject')
        for sub in idx.subclasses(base.id):
            col.check('check_attributes_for_sql' not in sub.methods, 'C17-check', f'{sub.name}:no-override',
                      f'{sub.name} inherits the generic check',
                      f'{sub.name} overrides check_attributes_for_sql', node=sub.node, file=sub.module.replace('.', '/') + '.py')
    guarded(col, 'C17-check', 'check_attributes_for_sql', check_fn)

    def before_dispatch():
        rc = idx.cls('pydbml.renderer.sql.default.renderer', 'DefaultSQLRenderer')
        m = rc.methods.get('render')
        if m is None:
            col.bad('C17-dispatch', 'DefaultSQLRenderer.render:override', 'DefaultSQLRenderer no longer overrides render: '
                    'the required-attribute check is not run before SQL dispatch', node=rc.node, file='pydbml/renderer/sql/default/renderer.py')
            return
        p = [a.arg for a in m.node.args.args][1]

        def is_dispatch(ev: Ev) -> bool:
            for c in event_calls(ev):
                f = c.func
                if isinstance(f, ast.Attribute) and f.attr == 'render' and isinstance(f.value, ast.Call) and norm(f.value.func) == 'super':
                    return True
                if isinstance(f, ast.Call) or (isinstance(f, ast.Attribute) and f.attr == 'get'):
                    return True
            return ev.kind == 'return'
        must_call_before(ctx, col, 'C17-dispatch', m, 'check-first', 'check_attributes_for_sql', is_dispatch,
                         arg_check=lambda c: isinstance(c.func, ast.Attribute) and norm(c.func.value) == p)
        # bypass: registered SQL handlers called directly by name
        sqlreg = idx.registry.get(rc.id, {})
        handlers = {f.id: f for fs in sqlreg.values() for f in fs}
        col.floor('C17-dispatch', 'registered SQL handlers', len(handlers), 8)
        nb = 0
        for fi in idx.all_funcs():
            for n in walk_no_nested(fi.node):
                if isinstance(n, ast.Call) and isinstance(n.func, ast.Name):
                    sym = idx.resolve(fi.module, n.func.id)
                    if sym is not None and sym.kind == 'func' and f'{sym.module}:{sym.name}' in handlers:
                        nb += 1
                        col.bad('C17-dispatch', f'{fi.qualname}:direct:{n.func.id}', f'{fi.qualname} calls the registered SQL handler '
                                f'{n.func.id} directly, bypassing DefaultSQLRenderer.render and its required-attribute check',
                                node=n, file=fi.file)
        col.check(nb == 0, 'C17-dispatch', 'no-direct-handler-calls', 'no registered SQL handler is called directly',
                  f'{nb} direct handler calls')
    guarded(col, 'C17-dispatch', 'DefaultSQLRenderer.render', before_dispatch)

    def children_through_dispatcher():
        """The required-attribute check lives in the dispatcher, so a container must render the child elements that have required attributes (enum items,
        columns, indexes) THROUGH it; formatting a child's attributes by hand skips the check and writes `None` into the script."""
        from .common import collect_filters, annotation_element_classes, expanded
        from ..strctx import ANCHOR_HELPERS
        rc = idx.cls('pydbml.renderer.sql.default.renderer', 'DefaultSQLRenderer')
        sqlreg = idx.registry.get(rc.id, {})
        required: Dict[str, List[str]] = {}
        for ci in idx.classes.values():
            ra = idx.const_tuple(idx.class_attr(ci.id, 'required_attributes')) if idx.class_attr(ci.id, 'required_attributes') is not None else None
            if ra:
                required[ci.name] = list(ra)
        n = 0
        for mid, fns in sorted(sqlreg.items()):
            mcls = idx.classes[mid]
            init = idx.lookup_method(mid, '__init__')
            if init is None:
                continue
            for a in init.node.args.args[1:]:
                elems = annotation_element_classes(a.annotation) or set()
                kids = sorted(e for e in elems if e in required and any(idx.classes[k].name == e for k in sqlreg))
                if not kids:
                    continue
                coll = a.arg
                # only elements that are PART of the container's statement (its columns, indexes, items); collections that merely refer to elements owned
                # elsewhere (index subjects, reference endpoints) are written by name and are not the element being rendered
                if (mcls.name, coll) not in CONTAINED:
                    continue
                # every function of the handler's module that iterates <model>.<coll>
                mods = {f.module for f in fns}
                rendered = handmade = None
                for fi in idx.all_funcs():
                    if fi.module not in mods or not isinstance(fi.node, ast.FunctionDef) or not fi.node.args.args:
                        continue
                    p0 = fi.node.args.args[0].arg
                    # read with the helpers it calls expanded in place (a generator of the body elements, a per-line helper)
                    fx = expanded(ctx, fi.module, fi.qualname, keep_extra=tuple(sorted(ANCHOR_HELPERS - {'create_body', 'create_components'})))
                    for flt in collect_filters(fx.node):
                        if flt['iter'] != f'{p0}.{coll}':
                            continue
                        v = flt['var']
                        elt = flt['elt']
                        if ('.render(' in elt and f'({v})' in elt.replace(' ', '')) or f'{v}.sql' in elt:
                            rendered = rendered or (fi, flt)
                        elif any(f'{v}.{r}' in elt for k in kids for r in required[k]) or (elt != v and v in elt and '.render(' not in elt):
                            handmade = handmade or (fi, flt)
                n += 1
                cons = f'{mcls.name}.{coll}:through-dispatcher'
                if rendered:
                    col.ok('C17-dispatch', cons, f'{rendered[0].qualname} renders the {"/".join(kids)} elements of {mcls.name}.{coll} through the dispatcher',
                           node=rendered[0].node, file=rendered[0].file)
                elif handmade:
                    fi, flt = handmade
                    col.bad('C17-dispatch', cons, f'{fi.qualname} formats the elements of {mcls.name}.{coll} itself (`{flt["elt"][:60]}`) instead of rendering them through '
                            f'DefaultSQLRenderer.render / .sql: the required-attribute check ({", ".join(required[kids[0]])}) is skipped for them, so e.g. a nameless '
                            f'{kids[0]} is written as None instead of raising AttributeMissingError', node=fi.node, file=fi.file)
                else:
                    col.unk('C17-dispatch', cons, f'how the {mcls.name} renderer renders its {coll} is not recognised', node=fns[0].node, file=fns[0].file)
        col.floor('C17-dispatch', 'child collections with required attributes', n, 3)
    guarded(col, 'C17-dispatch', 'children', children_through_dispatcher)

    # ---------------------------------------------------------------- C17-b
    def endpoint_validation():
        for mod, validator in (('pydbml.renderer.sql.default.reference', 'validate_for_sql'),
                               ('pydbml.renderer.dbml.default.reference', 'validate_for_dbml')):
            rr = idx.func(mod, 'render_reference')
            p = [a.arg for a in rr.node.args.args][0]

            def uses_model(ev: Ev, p=p, validator=validator) -> bool:
                if calls_named(ev, validator):
                    return False
                for n in walk_event(ev):
                    if isinstance(n, ast.Name) and n.id == p and isinstance(n.ctx, ast.Load):
                        return True
                return ev.kind == 'return'
            must_call_before(ctx, col, 'C17-endpoint', rr, f'{validator}-first', validator, uses_model,
                             arg_check=lambda c, p=p: len(c.args) >= 1 and norm(c.args[0]) == p)
            vf = idx.func(mod, validator)
            vp = [a.arg for a in vf.node.args.args][0]
            guard_obligation(ctx, col, 'C17-endpoint', vf, 'col.table-is-none',
                             lambda lits, n: any(l[0] == 'none' and l[1].endswith('.table') for l in lits)
                             or any(l == ('not', ('truthy', x)) for l in lits for x in [l[1][1]] if l[0] == 'not' and l[1][0] == 'truthy' and l[1][1].endswith('.table')),
                             [EXC + 'TableNotFoundError'], protect=is_normal_return, what='<column>.table is None')
            # the scan covers every column of both sides
            from ..inline import inlined_info
            vfi = inlined_info(idx, vf, depth=2)
            loops = [n for n in walk_no_nested(vfi.node) if isinstance(n, (ast.For, ast.comprehension))]
            opaque_calls = [c for c in walk_no_nested(vfi.node) if isinstance(c, ast.Call) and any(access_path(a) == vp for a in c.args)]
            covered: Set[str] = set()
            for l in loops:
                it = l.iter
                for sub in ast.walk(it):
                    ap = access_path(sub)
                    if ap in (f'{vp}.col1', f'{vp}.col2'):
                        # a subscripted read (model.col1[0]) covers only one column
                        sliced = any(isinstance(s, ast.Subscript) and s.value is sub for s in ast.walk(it))
                        if not sliced:
                            covered.add(ap.split('.')[1])
            for side in ('col1', 'col2'):
                if side not in covered and opaque_calls:
                    col.unk('C17-endpoint', f'{validator}:scans:{side}', f'{validator} hands the reference to `{norm(opaque_calls[0].func)}`, which this rule cannot read; '
                            f'whether every column of {side} is inspected is not established', node=vf.node, file=vf.file)
                    continue
                col.check(side in covered, 'C17-endpoint', f'{validator}:scans:{side}',
                          f'{validator} inspects every column of {side}',
                          f'{validator} does not iterate over all of {vp}.{side}: a detached non-first column is rendered into '
                          f'a bogus statement instead of raising table-not-found', node=vf.node, file=vf.file)
        # Reference.table1 / table2 validate first
        ref = idx.cls('pydbml._classes.reference', 'Reference')
        for name in ('table1', 'table2'):
            p = idx.lookup_prop(ref.id, name)
            if p is None:
                raise AnchorMissing(f'Reference.{name}')
            from ..inline import inlined_info as _ii
            px = _ii(idx, p, 2, keep={'_validate'})
            if getattr(px.node, '_inlined_any', False):
                p = px           # a shared helper (`_table_of(side)`) read in place
            must_call_before(ctx, col, 'C17-endpoint', p, 'validate-first', '_validate', is_normal_return,
                             arg_check=lambda c: isinstance(c.func, ast.Attribute) and norm(c.func.value) == 'self')
        v = idx.lookup_method(ref.id, '_validate')
        if v is None:
            raise AnchorMissing('Reference._validate')
        for side in ('col1', 'col2'):
            def mixed(lits, n, side=side):
                # `any(c.table != t for c in self.colN)` or (canonical form) the same test inside a loop over self.colN
                if '.table' not in norm(n):
                    return False
                if f'self.{side}' in norm(n):
                    return True
                from .common import enclosing_loops
                from ..cond import copy_subst
                fnode = getattr(ctx, 'current_fn', None) or v.node

                def preorder(node, acc):
                    acc.append(node)
                    for ch in ast.iter_child_nodes(node):
                        preorder(ch, acc)
                    return acc
                order = preorder(fnode, [])
                for l in enclosing_loops(fnode, n):
                    if isinstance(l, ast.For):
                        # the assignments that precede this loop (in program text order) decide what its iterable is
                        k = next((i for i, x in enumerate(order) if x is l), len(order))
                        sub = copy_subst([s for s in order[:k] if isinstance(s, ast.Assign)])
                        it = norm(l.iter)
                        it = sub.get(it, it)
                        if it == f'self.{side}' or f'self.{side}' in it:
                            return True
                return False
            guard_obligation(ctx, col, 'C17-endpoint', v, f'mixed-tables-{side}', mixed,
                             [EXC + 'DBMLError'], protect=is_normal_return, what=f'columns of {side} belong to different tables')
        # the stand-alone DBML form of a reference names one table per side: it must go through the validating accessors (`model.table1` / `model.table2`, which
        # call _validate first, or _validate itself) on every path that produces text - taking the table from the first column of a side renders a mixed side
        from .common import expanded as _expanded
        # (read on the registered renderer with its helpers in place, so that it does not matter which of them does the validation)
        rn = _expanded(ctx, 'pydbml.renderer.dbml.default.reference', 'render_reference', keep_extra=('_validate',))
        mp = [a.arg for a in rn.node.args.args][0]
        n_ret = 0
        unvalidated = None
        for path in function_paths(rn.node, unroll=1):
            if path[-1].kind != 'return':
                continue
            lits = [c for ev in path if ev.kind == 'test' for c in conjuncts(term(ev.node, ev.outcome))]
            if ('truthy', f'{mp}.inline') in lits:
                continue            # the inline form names one column of one table
            n_ret += 1
            ok_ = False
            for ev in path:
                for x in walk_event(ev):
                    if isinstance(x, ast.Attribute) and x.attr in ('table1', 'table2', 'join_table') and norm(x.value) == mp and isinstance(x.ctx, ast.Load):
                        ok_ = True
                    if isinstance(x, ast.Call) and isinstance(x.func, ast.Attribute) and x.func.attr == '_validate' and norm(x.func.value) == mp:
                        ok_ = True
            if not ok_:
                unvalidated = unvalidated or path[-1]
        cons_v = 'render_not_inline_reference:validates-sides'
        if n_ret == 0:
            col.unk('C17-endpoint', cons_v, 'the DBML render_reference has no returning path for the stand-alone form that this rule can follow', node=rn.node, file=rn.file)
        elif unvalidated is None:
            col.ok('C17-endpoint', cons_v, f'every path of the stand-alone DBML form reads {mp}.table1 / {mp}.table2 (validated accessors) ({n_ret} paths)', node=rn.node, file=rn.file)
        else:
            uses_first = any(isinstance(x, ast.Attribute) and x.attr == 'table' and isinstance(x.value, ast.Subscript) for x in ast.walk(rn.node))
            col.bad('C17-endpoint', cons_v, f'the stand-alone DBML form of a reference is returned on a path that never reads {mp}.table1 / {mp}.table2 (nor calls _validate)'
                    f'{": it takes the table from the first column of a side" if uses_first else ""} - a reference whose side mixes columns of different tables is '
                    f'rendered as if it were consistent instead of raising DBMLError', node=unvalidated.node if unvalidated.node is not None else rn.node, file=rn.file)
        # composite inline DBML
        ri = idx.func('pydbml.renderer.dbml.default.reference', 'render_inline_reference')
        rp = [a.arg for a in ri.node.args.args][0]
        guard_obligation(ctx, col, 'C17-endpoint', ri, 'composite-inline',
                         lambda lits, n: any(l[0] == 'cmp' and f'len({rp}.col2)' in (l[2], l[3]) for l in lits)
                         or any(l == ('not', ('eq', "1", f'len({rp}.col2)')) or l == ('not', ('eq', f'len({rp}.col2)', '1')) for l in lits),
                         [EXC + 'DBMLError'], protect=is_normal_return, what='len(col2) > 1')
        # the inline branch of the DBML render_reference goes through render_inline_reference
        jt = idx.lookup_prop(ref.id, 'join_table')
        if jt is None:
            raise AnchorMissing('Reference.join_table')

        def builds_table(ev: Ev) -> bool:
            return any(isinstance(c.func, ast.Name) and c.func.id == 'Table' for c in event_calls(ev))
        for side in ('table1', 'table2'):
            guard_obligation(ctx, col, 'C17-endpoint', jt, f'{side}-unknown',
                             lambda lits, n, side=side: ('none', f'self.{side}') in lits or ('not', ('truthy', f'self.{side}')) in lits,
                             [EXC + 'TableNotFoundError'], protect=builds_table, what=f'self.{side} is None')
    guarded(col, 'C17-endpoint', 'endpoint-validation', endpoint_validation)

    # ---------------------------------------------------------------- C17-c
    def detached():
        rows = [
            (idx.func('pydbml._classes.table', 'Table.get_refs'), 'self.database', EXC + 'UnknownDatabaseError', 'refs'),
            (idx.func('pydbml._classes.column', 'Column.get_refs'), 'self.table', EXC + 'TableNotFoundError', 'get_refs'),
            (idx.func('pydbml.renderer.sql.default.table', 'get_references_for_sql'), None, EXC + 'UnknownDatabaseError', 'refs'),
        ]
        for fi, owner, exc, use in rows:
            if owner is None:
                owner = f'{[a.arg for a in fi.node.args.args][0]}.database'

            def absent(lits, n, owner=owner):
                return ('none', owner) in lits or ('not', ('truthy', owner)) in lits

            def uses(ev: Ev, use=use) -> bool:
                for n in walk_event(ev):
                    if isinstance(n, ast.Attribute) and n.attr == use and isinstance(n.ctx, ast.Load):
                        return True
                return False
            guard_obligation(ctx, col, 'C17-detached', fi, f'{owner}-absent', absent, [exc], protect=uses,
                             what=f'{owner} is not set')
            # no normal return from a path that established absence of an owner link
            owners = ('self.database', 'self.table', 'self.table.database', owner)
            bad = None
            npaths = 0
            for path in paths_of(fi, 1):
                lits = [c for ev in path if ev.kind == 'test' for c in conjuncts(term(ev.node, ev.outcome))]
                if any(l == ('none', o) or l == ('not', ('truthy', o)) for l in lits for o in owners):
                    npaths += 1
                    if path[-1].kind != 'raise':
                        bad = bad or path[-1]
            col.check(bad is None, 'C17-detached', f'{fi.qualname}:no-silent-empty',
                      f'every path that finds the owner link absent raises ({npaths} paths)',
                      f'{fi.qualname} returns normally (`{norm(bad.node) if bad is not None and bad.node is not None else ""}`) on a path '
                      f'where the owner link is absent: a detached element yields a result instead of the error',
                      node=bad.node if bad is not None and bad.node is not None else fi.node, file=fi.file)
    guarded(col, 'C17-detached', 'detached-lookups', detached)

    def detaching():
        # "detached" is read off the owner link: the error is raised for an element taken out of its database / table only if the delete operation
        # cleared the link of the element that was actually removed (obligations shared with C09-backptr)
        sub = ctx.sub('c09', col.prop)
        n = 0
        for o in sub.obs:
            if o.rule == 'C09-backptr' and o.construct in ('Database.delete_table:clears-owner', 'Table.delete_column:detaches-removed',
                                                           'Table.delete_index:detaches-removed'):
                n += 1
                col.obs.append(type(o)(col.prop, 'C17-detached', 'detaching:' + o.construct, o.status, o.msg, o.file, o.line, o.extra))
        col.floor('C17-detached', 'delete operations clearing the owner link', n, 3)
    guarded(col, 'C17-detached', 'detaching', detaching)
