"""C03 - SQL DDL states exactly the model: types, tables, columns, keys, indexes, notes."""
from __future__ import annotations

import ast
from typing import Dict, List, Optional, Set, Tuple

from ..inline import inlined_info
from ..core import Collector, guarded, norm, Unrecognised, AnchorMissing
from ..pyindex import walk_no_nested, access_path, FuncInfo
from ..cond import term, conjuncts
from ..strctx import sinks_of, Sink, TemplateIndex, flatten_concat

EXPLANATION = (
    'Keyword table: in the SQL column renderer each of PRIMARY KEY, AUTOINCREMENT, UNIQUE, NOT NULL is appended under a test '
    'of exactly its own attribute (pk additionally "not composite"), DEFAULT under `default is not None` (so 0, False and the empty '
    'string are emitted); an Expression default goes through the expression renderer, whose every return encloses the text in '
    'parentheses. Index statement: UNIQUE, the quoted name, ON <qualified table>, USING <TYPE> each under their own attribute, '
    'keys in subject order; pk indexes become PRIMARY KEY (...) inside the table. Partitions: the table body takes '
    '`model.indexes if i.pk`, the statements after the table `model.indexes if not i.pk` (complementary filters over the same '
    'list); columns are rendered by one unfiltered pass over model.columns. Composite primary key: the column-level clause is '
    'suppressed under the same predicate under which the table adds the table-level clause, the predicate is "more than one pk '
    'column", the clause is added under that predicate alone and lists the pk columns. Qualification: every table or enum '
    'identifier written in SQL goes through get_full_name_for_sql (schema elided only for the default schema); a directly '
    'interpolated <table>.name is refuted. Notes: a table note and each column note become COMMENT ON statements addressed with '
    'the same qualifying helper. Database level: enums, the (reordered) tables and non-inline references, each collection once.')
RULE_TEXT = 'one obligation per attribute/keyword pair, per filter, per predicate pairing, per table-identifier sink, per note statement, per collection'
ASSUMPTIONS = ['decides the structural composition of the DDL; the text as a whole and "nothing else appears" are not decided']
ENGINES = ['pyindex', 'paths', 'strctx', 'strval', 'effects']
TECHNIQUE = 'static analysis (ast): guard/keyword pairing by condition normal forms, complementary-filter and predicate-pairing rules, string-template hole provenance for identifier qualification; abstract string evaluation against the SQL statement forms; constructor dataflow for note ownership'

SQLD = 'pydbml.renderer.sql.default'


def appended_constants(body: List[ast.stmt], target: Optional[str] = None) -> List[Tuple[str, ast.AST]]:
    out = []
    for s in body:
        for n in ast.walk(s):
            if isinstance(n, ast.Call) and isinstance(n.func, ast.Attribute) and n.func.attr in ('append', 'extend') and n.args:
                a = n.args[0]
                if isinstance(a, ast.Constant) and isinstance(a.value, str):
                    out.append((a.value, n))
                elif isinstance(a, (ast.JoinedStr, ast.BinOp)):
                    lit = ''.join(c.value for c in flatten_concat(a) if isinstance(c, ast.Constant) and isinstance(c.value, str))
                    out.append((lit, n))
            if isinstance(n, ast.AugAssign) and isinstance(n.op, ast.Add):
                ps = flatten_concat(n.value)
                lit = ''.join(p.value for p in ps if isinstance(p, ast.Constant) and isinstance(p.value, str))
                if lit:
                    out.append((lit, n))
    return out


ANCHOR_HELPERS = {'get_full_name_for_sql', 'comment_to_sql', 'prepare_text_for_sql', 'escape_braces', 'get_references_for_sql', 'get_inline_references_for_sql',
                  'create_body', 'create_components', 'render_column_notes', 'reorder_tables_for_sql', 'render_pk', 'create_keys'}


def run(ctx, col: Collector):
    idx = ctx.idx

    # ---------------------------------------------------------------- C03-column
    def column():
        fi = idx.func(f'{SQLD}.column', 'render_column')
        # small helpers extracted from the renderer are read in place; the helpers the rules name stay calls
        fi = inlined_info(idx, fi, depth=2, keep=ANCHOR_HELPERS)
        m = [a.arg for a in fi.node.args.args][0]
        # local copy propagation for the composite flag
        comp_var = None
        comp_ok = False
        for n in walk_no_nested(fi.node):
            if isinstance(n, ast.Assign) and isinstance(n.targets[0], ast.Name) and '_has_composite_pk' in norm(n.value):
                comp_var = n.targets[0].id
                v = n.value
                comp_ok = isinstance(v, ast.IfExp) and norm(v.test) == f'{m}.table' and norm(v.body) == f'{m}.table._has_composite_pk()' \
                    and isinstance(v.orelse, ast.Constant) and v.orelse.value is False
        want = {'PRIMARY KEY': {('truthy', f'{m}.pk'), ('not', ('truthy', comp_var or '?'))}, 'AUTOINCREMENT': {('truthy', f'{m}.autoinc')},
                'UNIQUE': {('truthy', f'{m}.unique')}, 'NOT NULL': {('truthy', f'{m}.not_null')}}
        for kw, lits in want.items():
            hits = keyword_guard(fi.node, kw)
            attr = sorted(l[1] for l in lits if l[0] == 'truthy')[0]
            cons = f'render_column:{kw}'
            if not hits:
                col.bad('C03-column', cons, f'render_column never emits `{kw}` (the keyword occurs in no string of the function): columns with {attr} set lose it in the DDL',
                        node=fi.node, file=fi.file)
            elif any(h[0] == frozenset(lits) for h in hits):
                col.ok('C03-column', cons, f'{kw} is emitted exactly when {attr} is set', node=hits[0][1], file=fi.file)
            else:
                got = sorted(map(str, hits[0][0]))
                col.bad('C03-column', cons, f'render_column emits `{kw}` under {got or "no condition"}; expected exactly {sorted(map(str, lits))}: the keyword appears for the wrong '
                        f'columns', node=hits[0][1], file=fi.file)
        found = {}
        dh = keyword_guard(fi.node, 'DEFAULT')
        if dh:
            found['DEFAULT'] = set(dh[0][0])
        col.check(comp_ok, 'C03-column', 'render_column:composite-flag', 'the composite flag is the owning table\'s "several pk columns" predicate (False for a detached column)',
                  'render_column does not take the composite-pk flag from model.table._has_composite_pk()', node=fi.node, file=fi.file)
        # DEFAULT may be written in several places (one per kind of default): the emission condition is the disjunction of their guards; guards that differ in
        # one complementary literal merge (`not None and isinstance(..)` or `not None and not isinstance(..)` = `not None`)
        gsets = [set(h[0]) for h in dh]
        merged = True
        while merged and len(gsets) > 1:
            merged = False
            for i_ in range(len(gsets)):
                for j_ in range(i_ + 1, len(gsets)):
                    a_, b_ = gsets[i_], gsets[j_]
                    da, db = a_ - b_, b_ - a_
                    if len(da) == 1 and len(db) == 1 and _neg(next(iter(da))) == next(iter(db)):
                        gsets = [g_ for k_, g_ in enumerate(gsets) if k_ not in (i_, j_)] + [a_ & b_]
                        merged = True
                        break
                if merged:
                    break
        want_d = {('not', ('none', f'{m}.default'))}
        d = gsets[0] if len(gsets) == 1 else None
        if d == want_d:
            col.ok('C03-column', 'render_column:DEFAULT-guard', 'DEFAULT is emitted whenever default is not None (0, False and the empty string included)', node=fi.node, file=fi.file)
        elif any(('truthy', f'{m}.default') in g_ for g_ in gsets) or not gsets:
            col.bad('C03-column', 'render_column:DEFAULT-guard', f'DEFAULT is emitted under {[sorted(map(str, g_)) for g_ in gsets] or "no recognised test"}; a truthiness test drops '
                    f'the defaults 0, False and \'\'', node=fi.node, file=fi.file)
        elif len(gsets) == 1 and (('none', f'{m}.default') in gsets[0] or any(
                isinstance(a_, tuple) and ((a_[0] == 'eq' and f'{m}.default' in a_[1:]) or (a_[0] == 'not' and isinstance(a_[1], tuple) and a_[1][0] == 'eq'
                                                                                           and f'{m}.default' in a_[1][1:])) for a_ in gsets[0])):
            # the one place that writes DEFAULT is reached only when there is no default, or depends on the VALUE of the default
            col.bad('C03-column', 'render_column:DEFAULT-guard', f'DEFAULT is emitted under {sorted(map(str, gsets[0]))}: the only place that writes the clause is '
                    f'{"reached when the column has NO default" if ("none", m + ".default") in gsets[0] else "selected by the value of the default, so some defaults are not written"}',
                    node=fi.node, file=fi.file)
        else:
            col.unk('C03-column', 'render_column:DEFAULT-guard', f'DEFAULT is emitted under {[sorted(map(str, g_)) for g_ in gsets]}; cannot reduce that to "default is not None"',
                    node=fi.node, file=fi.file)
        # expression defaults are rendered by the expression renderer
        dflt = {f'{m}.default'} | {norm(a.targets[0]) for a in ast.walk(fi.node) if isinstance(a, ast.Assign) and len(a.targets) == 1
                                   and isinstance(a.targets[0], ast.Name) and norm(a.value) == f'{m}.default'}

        def is_expr_test(t):
            return isinstance(t, ast.Call) and isinstance(t.func, ast.Name) and t.func.id == 'isinstance' and len(t.args) == 2 and norm(t.args[0]) in dflt \
                and 'Expression' in norm(t.args[1])

        def renders(nodes):
            for s_ in nodes:
                for c in ast.walk(s_):
                    if isinstance(c, ast.Call) and isinstance(c.func, ast.Attribute) and c.func.attr == 'render' and c.args and norm(c.args[0]) in dflt:
                        return True
                    if isinstance(c, ast.Attribute) and c.attr == 'sql' and norm(c.value) in dflt:
                        return True
            return False
        branches = [(n.body, n.orelse) for n in ast.walk(fi.node) if isinstance(n, ast.If) and is_expr_test(n.test)] + \
                   [([ast.Expr(value=n.body)], [ast.Expr(value=n.orelse)]) for n in ast.walk(fi.node) if isinstance(n, ast.IfExp) and is_expr_test(n.test)]
        cons_e = 'render_column:expression-default'
        if any(renders(b) for b, _ in branches):
            col.ok('C03-column', cons_e, 'an Expression default is rendered by the expression renderer', node=fi.node, file=fi.file)
        elif any(renders(o) for _, o in branches):
            col.bad('C03-column', cons_e, 'the expression renderer is applied on the branch where the default is NOT an Expression', node=fi.node, file=fi.file)
        elif not any(is_expr_test(t) for t in ast.walk(fi.node)) and not renders(fi.node.body):
            col.bad('C03-column', cons_e, 'render_column never distinguishes an Expression default and never passes it to the renderer: its text is emitted without parentheses',
                    node=fi.node, file=fi.file)
        else:
            col.unk('C03-column', cons_e, 'how render_column writes an Expression default is not recognised', node=fi.node, file=fi.file)
        # type: enum by qualified name
        def is_enum_test(t):
            return isinstance(t, ast.Call) and isinstance(t.func, ast.Name) and t.func.id == 'isinstance' and len(t.args) == 2 and norm(t.args[0]) == f'{m}.type' \
                and 'Enum' in norm(t.args[1])

        def qualifies(nodes):
            for c in ast.walk(ast.Module(body=list(nodes), type_ignores=[])):
                if isinstance(c, ast.Call) and isinstance(c.func, ast.Name) and c.args and norm(c.args[0]) == f'{m}.type':
                    sym = idx.resolve(fi.module, c.func.id)
                    if sym is not None and sym.kind == 'func' and sym.name == 'get_full_name_for_sql':
                        return True
                    if sym is not None and sym.kind == 'import' and sym.target_name == 'get_full_name_for_sql':      # imported under another name
                        return True
            return False
        tb = [(n.body, n.orelse) for n in ast.walk(fi.node) if isinstance(n, ast.If) and is_enum_test(n.test)] + \
             [([ast.Expr(value=n.body)], [ast.Expr(value=n.orelse)]) for n in ast.walk(fi.node) if isinstance(n, ast.IfExp) and is_enum_test(n.test)]
        cons = 'render_column:enum-type-qualified'
        if tb and any(qualifies(b) for b, _ in tb):
            col.ok('C03-column', cons, 'an enum-typed column names the enum by its qualified name', node=fi.node, file=fi.file)
        elif tb and any(qualifies(o) for _, o in tb):
            col.bad('C03-column', cons, 'render_column applies get_full_name_for_sql to the type on the branch where it is NOT an Enum and writes an Enum type raw',
                    node=fi.node, file=fi.file)
        elif not any(is_enum_test(t) for t in ast.walk(fi.node)) and not qualifies(fi.node.body):
            col.bad('C03-column', cons, f'render_column never distinguishes an Enum type and never calls get_full_name_for_sql({m}.type): an enum outside schema public is '
                    f'named without its schema', node=fi.node, file=fi.file)
        else:
            col.unk('C03-column', cons, 'the way render_column writes an Enum type is not recognised', node=fi.node, file=fi.file)
        # name first, quoted
        ss = [s for s in sinks_of(fi) if s.source == ('attr', f'{m}.name')]
        col.check(len(ss) == 1 and ss[0].quote == '"', 'C03-column', 'render_column:name-quoted', 'the column name is written double-quoted',
                  'the column name is not written as "<name>"', node=fi.node, file=fi.file)
        # the expression renderer always parenthesises
        ex = idx.func(f'{SQLD}.expression', 'render_expression')
        em = [a.arg for a in ex.node.args.args][0]
        rets = [n for n in walk_no_nested(ex.node) if isinstance(n, ast.Return)]
        bad = None
        for r in rets:
            ps = flatten_concat(r.value) if r.value is not None else []
            lits = [p for p in ps if isinstance(p, ast.Constant)]
            holes = [p for p in ps if not isinstance(p, ast.Constant)]
            ok = (len(ps) >= 3 and isinstance(ps[0], ast.Constant) and str(ps[0].value).endswith('(') and isinstance(ps[-1], ast.Constant)
                  and str(ps[-1].value).startswith(')') and len(holes) == 1 and derives_from(ex.node, holes[0], f'{em}.text'))
            if not ok:
                bad = bad or r
        col.check(bad is None and bool(rets), 'C03-column', 'render_expression:parenthesised', 'every return of the SQL expression renderer is (<text>)',
                  f'render_expression has a return `{norm(bad.value)[:60] if bad is not None and bad.value is not None else ""}` that does not enclose the '
                  f'expression text in parentheses: e.g. `(a) || (b)` or `(1 + 2) * 3` would be emitted bare', node=bad or ex.node, file=ex.file)
    guarded(col, 'C03-column', 'column', column)

    # ---------------------------------------------------------------- C03-form
    def forms():
        from .forms import form_obligation
        keep = ANCHOR_HELPERS | {'render_expression', 'generate_comment_on'}
        specs = [
            (f'{SQLD}.column', 'render_column', r'(◦ ?)?"◦" ◦( PRIMARY KEY)?( AUTOINCREMENT)?( UNIQUE)?( NOT NULL)?( DEFAULT ◦)?',
             '["comment"] "name" type [PRIMARY KEY] [AUTOINCREMENT] [UNIQUE] [NOT NULL] [DEFAULT value]'),
            (f'{SQLD}.enum', 'render_enum', r'(◦ ?)?CREATE TYPE ◦ AS ENUM \( ?(◦\*?[ ,]*)* ?\) ?;', 'CREATE TYPE name AS ENUM (items);'),
            (f'{SQLD}.enum', 'render_enum_item', r"(◦ ?)?'◦',?", "'item',"),
            (f'{SQLD}.index', 'create_components', r'(◦ ?)?CREATE (UNIQUE )?INDEX ("◦" )?(ON ◦ )?(USING ◦ )?\(◦\) ?;',
             'CREATE [UNIQUE] INDEX ["name"] ON table [USING type] (keys);'),
            (f'{SQLD}.index', 'render_pk', r'(◦ ?)?PRIMARY KEY \(◦\)', 'PRIMARY KEY (keys)'),
            (f'{SQLD}.table', 'create_components', r'(◦ ?)?CREATE TABLE ◦ \( ?◦ ?\) ?;( ?◦\*?)*', 'CREATE TABLE name (body); [index statements]'),
            (f'{SQLD}.table', 'create_body', r'(◦\*?(, ?◦\*?)*)?(,? ?PRIMARY KEY \((◦\*?[ ,]*)*\))?', 'columns, pk indexes, inline references[, PRIMARY KEY (pk columns)]'),
            (f'{SQLD}.expression', 'render_expression', r'\(◦\)', '(expression text)'),
        ]
        for mod_, fn_, pat, what in specs:
            guarded(col, 'C03-form', fn_, lambda mod_=mod_, fn_=fn_, pat=pat, what=what: form_obligation(ctx, col, 'C03-form', mod_, fn_, pat, what, keep=keep))
        CN = r""" ?COMMENT ON COLUMN ◦\."◦" IS '◦';"""
        guarded(col, 'C03-form', 'render_column_notes', lambda: form_obligation(
            ctx, col, 'C03-form', f'{SQLD}.table', 'render_column_notes', f'({CN})*|◦\\*?', """COMMENT ON COLUMN table."column" IS 'text';""", keep=keep,
            require_some=f'({CN})+|◦\\*'))

        def lit_eq_public(lits):
            for l in lits:
                if l[0] == 'eq' and "'public'" in l[1:]:
                    return True
                if l[0] == 'not' and isinstance(l[1], tuple) and l[1][0] == 'eq' and "'public'" in l[1][1:]:
                    return False
            return None

        def not_public(lits):
            v = lit_eq_public(lits)
            return None if v is None else (not v)
        CO = r"""COMMENT ON ◦ ("◦"\.)?"◦" IS '◦';"""
        guarded(col, 'C03-form', 'generate_comment_on', lambda: form_obligation(
            ctx, col, 'C03-form', f'{SQLD}.note', 'generate_comment_on', CO, """COMMENT ON <kind> ["schema".]"name" IS 'text';""", keep=keep,
            pairs=[('schema-qualified', r'"◦"\."◦"', not_public, True,
                    'the schema-qualified name is written for the default schema / the bare name for another schema: COMMENT ON addresses the wrong object')]))

        def parent_is(cls):
            def pred(lits):
                for l in lits:
                    if l[0] == 'isinstance' and str(l[1]).endswith('.parent') and cls in str(l[2]):
                        return True
                    if l[0] == 'not' and isinstance(l[1], tuple) and l[1][0] == 'isinstance' and str(l[1][1]).endswith('.parent') and cls in str(l[1][2]):
                        return False
                return None
            return pred

        def has_text(lits):
            for l in lits:
                if l[0] == 'truthy' and str(l[1]).endswith('.text'):
                    return True
                if l[0] == 'not' and isinstance(l[1], tuple) and l[1][0] == 'truthy' and str(l[1][1]).endswith('.text'):
                    return False
            return None
        keep_note = (ANCHOR_HELPERS | {'render_expression'}) - {'generate_comment_on'}
        RN = r"""COMMENT ON (TABLE|COLUMN) ("◦"\.)?"◦" IS '◦';|◦\*?|"""
        guarded(col, 'C03-form', 'render_note', lambda: form_obligation(
            ctx, col, 'C03-form', f'{SQLD}.note', 'render_note', RN, """COMMENT ON TABLE|COLUMN ["schema".]"name" IS 'text'; (or a plain comment)""",
            keep=keep_note, require_some=r'COMMENT ON TABLE .*',
            pairs=[('table-note', r'COMMENT ON TABLE', parent_is('Table'), False, 'COMMENT ON TABLE is written for a note whose parent is not a Table'),
                   ('column-note', r'COMMENT ON COLUMN', parent_is('Column'), False, 'COMMENT ON COLUMN is written for a note whose parent is not a Column'),
                   ('has-text', r'COMMENT ON', has_text, False, 'a COMMENT ON statement is written for a note that has no text')]))
    forms()

    # ---------------------------------------------------------------- C03-table
    def table():
        mod = f'{SQLD}.table'
        from .common import select_filter, collect_filters, expanded
        cb = expanded(ctx, mod, 'create_body', keep_extra=tuple(sorted(ANCHOR_HELPERS | {'_has_composite_pk'})))
        m = [a.arg for a in cb.node.args.args][0]
        fs = [f for f in collect_filters(cb.node) if f['iter'] == f'{m}.columns' and 'render' in f['elt']]
        col.check(len(fs) == 1 and not fs[0]['conds'], 'C03-table', 'create_body:columns', 'every column is rendered once, in order',
                  f'create_body renders columns with {[(f["elt"][:40], f["conds"]) for f in fs]} (expected one unfiltered pass over {m}.columns)', node=cb.node, file=cb.file)
        st, f = select_filter(cb.node, f'{m}.indexes', [('truthy', 'VAR.pk')], elt_is_var=False, elt_pred=lambda f: 'render' in f['elt'])
        (col.ok if st == 'ok' else col.bad if st == 'bad' else col.unk)(
            'C03-table', 'create_body:pk-indexes',
            'exactly the pk indexes are rendered inside the table' if st == 'ok' else
            (f'create_body selects indexes under {f["conds"]}; expected `for i in {m}.indexes if i.pk`' if st == 'bad' else f'create_body does not iterate {m}.indexes in a recognised form'),
            node=cb.node, file=cb.file)
        cc = expanded(ctx, mod, 'create_components', keep_extra=tuple(sorted(ANCHOR_HELPERS | {'_has_composite_pk'})))
        m2 = [a.arg for a in cc.node.args.args][0]
        st, f = select_filter(cc.node, f'{m2}.indexes', [('not', ('truthy', 'VAR.pk'))], elt_is_var=False, elt_pred=lambda f: 'render' in f['elt'])
        (col.ok if st == 'ok' else col.bad if st == 'bad' else col.unk)(
            'C03-table', 'create_components:non-pk-indexes',
            'exactly the other indexes become statements after the table' if st == 'ok' else
            (f'create_components selects indexes under {f["conds"]}; expected `for i in {m2}.indexes if not i.pk`: an index is rendered twice or not at all' if st == 'bad'
             else f'create_components does not iterate {m2}.indexes in a recognised form'), node=cc.node, file=cc.file)
        # composite pk clause
        ifs = [n for n in walk_no_nested(cb.node) if isinstance(n, ast.If) and '_has_composite_pk' in norm(n.test)]
        okc = False
        why = 'no `if model._has_composite_pk():` in create_body'
        if ifs:
            n = ifs[0]
            top_level = n in cb.node.body
            single = norm(n.test) == f'{m}._has_composite_pk()'
            text = ' '.join(c.value for b in n.body for c in ast.walk(b) if isinstance(c, ast.Constant) and isinstance(c.value, str))
            lists = [f for f in collect_filters(cb.node) if f['iter'] == f'{m}.columns' and f['conds'] == [f'{f["var"]}.pk']]
            okc = top_level and single and 'PRIMARY KEY' in text and bool(lists)
            why = (f'test=`{norm(n.test)}` (must be the composite predicate alone), nested={not top_level}, lists pk columns={bool(lists)}')
        col.check(okc, 'C03-table', 'create_body:composite-pk-clause', 'the table-level PRIMARY KEY clause is added exactly when the table has several pk columns',
                  f'the table-level PRIMARY KEY clause is not added under the composite-pk predicate alone ({why}): the column renderer suppresses the column-level '
                  f'PRIMARY KEY under that predicate, so pk columns would be declared nowhere', node=ifs[0] if ifs else cb.node, file=cb.file)
        hp = idx.func('pydbml._classes.table', 'Table._has_composite_pk')
        rets = [n.value for n in walk_no_nested(hp.node) if isinstance(n, ast.Return) and n.value is not None]
        st, why = _composite_predicate(hp.node, rets)
        (col.ok if st == 'ok' else col.bad if st == 'bad' else col.unk)(
            'C03-table', '_has_composite_pk:predicate',
            'composite = more than one pk column' if st == 'ok' else f'Table._has_composite_pk {why}', node=hp.node, file=hp.file)
        # CREATE TABLE name
        ss = [s for s in sinks_of(cc) if s.left.rstrip().endswith('CREATE TABLE')]
        col.check(len(ss) == 1 and 'get_full_name_for_sql' in ss[0].wrappers and ss[0].source == ('param', m2), 'C03-table', 'create_components:table-name',
                  'CREATE TABLE names the table through the qualifying helper', 'CREATE TABLE does not use get_full_name_for_sql(model)', node=cc.node, file=cc.file)
        # notes
        rt = idx.func(mod, 'render_table')
        m3 = [a.arg for a in rt.node.args.args][0]
        note_if = [n for n in walk_no_nested(rt.node) if isinstance(n, ast.If) and norm(n.test) == f'{m3}.note']
        okn = bool(note_if) and any(isinstance(x, ast.Attribute) and norm(x) == f'{m3}.note.sql' for s in note_if[0].body for x in ast.walk(s))
        col.check(okn, 'C03-table', 'render_table:table-note', 'a table note becomes a COMMENT ON statement after the table', 'render_table does not append model.note.sql when the table has a note',
                  node=rt.node, file=rt.file)
        col.check(any(isinstance(c, ast.Call) and norm(c.func) == 'render_column_notes' and norm(c.args[0]) == m3 for c in ast.walk(rt.node)), 'C03-table',
                  'render_table:column-notes', 'column notes are appended', 'render_table does not call render_column_notes(model)', node=rt.node, file=rt.file)
        rn = inlined_info(idx, idx.func(mod, 'render_column_notes'), depth=2, keep=ANCHOR_HELPERS)
        m4 = [a.arg for a in rn.node.args.args][0]
        fs = [f for f in collect_filters(rn.node) if f['iter'] == f'{m4}.columns']
        loops = [n for n in walk_no_nested(rn.node) if isinstance(n, ast.For) and norm(n.iter) == f'{m4}.columns']
        noted = any(f['conds'] == [f'{f["var"]}.note'] for f in fs) or any(isinstance(x, ast.If) and norm(x.test) == f'{norm(l.target)}.note' for l in loops for x in l.body)
        has_kw = any('COMMENT ON COLUMN' in c.value for c in ast.walk(rn.node) if isinstance(c, ast.Constant) and isinstance(c.value, str))
        qualified = any(isinstance(c, ast.Call) and norm(c.func) == 'get_full_name_for_sql' and c.args and norm(c.args[0]) == m4 for c in ast.walk(rn.node))
        direct = [s_ for s_ in sinks_of(rn) if s_.source == ('attr', f'{m4}.name')]
        calls_out = [c for c in ast.walk(rn.node) if isinstance(c, ast.Call) and isinstance(c.func, ast.Name) and idx.resolve(rn.module, c.func.id) is not None
                     and idx.resolve(rn.module, c.func.id).kind == 'func' and c.func.id not in ANCHOR_HELPERS]
        if not has_kw and calls_out:
            col.unk('C03-table', 'render_column_notes:qualified', f'render_column_notes builds its statements in `{calls_out[0].func.id}`, which this rule could not read in place',
                    node=rn.node, file=rn.file)
        elif not has_kw:
            col.bad('C03-table', 'render_column_notes:qualified', 'render_column_notes emits no COMMENT ON COLUMN statement', node=rn.node, file=rn.file)
        elif direct or not qualified:
            col.bad('C03-table', 'render_column_notes:qualified', 'render_column_notes does not address the column through get_full_name_for_sql(model): a table outside the default '
                    'schema is addressed by its bare name', node=rn.node, file=rn.file)
        elif not noted:
            col.unk('C03-table', 'render_column_notes:qualified', 'cannot see that every column with a note gets a statement', node=rn.node, file=rn.file)
        else:
            col.ok('C03-table', 'render_column_notes:qualified', 'each column note is a COMMENT ON COLUMN <qualified table>."column"', node=rn.node, file=rn.file)
    guarded(col, 'C03-table', 'table', table)

    def partitions():
        from .common import lossy_groupings
        n = 0
        bad = 0
        for fid, fi in sorted(idx.funcs.items()):
            if not fi.module.startswith(SQLD):
                continue
            n += 1
            for node, why in lossy_groupings(idx, fi):
                bad += 1
                col.bad('C03-table', f'{fi.qualname}:partition-lossless', f'{fi.qualname}: {why} - elements of the model are missing from the DDL', node=node, file=fi.file)
        if not bad:
            col.ok('C03-table', 'sql-renderers:partition-lossless', f'no lossy grouping in {n} SQL renderer functions', file='pydbml/renderer/sql/default/table.py')
    guarded(col, 'C03-table', 'partitions', partitions)

    # ---------------------------------------------------------------- C03-index
    def index():
        mod = f'{SQLD}.index'
        cc = idx.func(mod, 'create_components')
        m = [a.arg for a in cc.node.args.args][0]
        want = {'UNIQUE': {('truthy', f'{m}.unique')}, 'ON': {('truthy', f'{m}.table')}, 'USING': {('truthy', f'{m}.type')}}
        for kw, lits in want.items():
            hits = keyword_guard(cc.node, kw)
            cons = f'create_components:{kw}'
            if not hits:
                col.bad('C03-index', cons, f'the index statement never contains `{kw}`', node=cc.node, file=cc.file)
            elif any(h[0] == frozenset(lits) for h in hits):
                col.ok('C03-index', cons, f'{kw} is emitted exactly under {sorted(map(str, lits))}', node=hits[0][1], file=cc.file)
            else:
                col.bad('C03-index', cons, f'index statement: `{kw}` is emitted under {sorted(map(str, hits[0][0])) or "no condition"}; expected {sorted(map(str, lits))}',
                        node=hits[0][1], file=cc.file)
        for kw in ('CREATE', 'INDEX'):
            hits = keyword_guard(cc.node, kw)
            sets = [h[0] for h in hits]
            uncond = any(not g for g in sets) or any(len(g) == 1 and frozenset({_neg(next(iter(g)))}) in sets for g in sets)
            col.check(uncond, 'C03-index', f'create_components:{kw}', f'{kw} is unconditional',
                      f'`{kw}` is {"missing from" if not hits else "conditional in"} the index statement', node=cc.node, file=cc.file)
        from ..inline import inline_fragments
        from ..strctx import ANCHOR_HELPERS
        ss = sinks_of(inline_fragments(idx, cc, keep=ANCHOR_HELPERS))       # small quoting helpers read in place
        nm = [s for s in ss if s.source == ('attr', f'{m}.name')]
        col.check(len(nm) == 1 and nm[0].quote == '"' and (f'{m}.name', True) in nm[0].guards, 'C03-index', 'create_components:name', 'the index name is written quoted when set',
                  'the index name is not written as "<name>" under `if model.name`', node=cc.node, file=cc.file)
        on = [s for s in ss if s.left.endswith('ON ')]
        col.check(len(on) == 1 and 'get_full_name_for_sql' in on[0].wrappers and on[0].source == ('attr', f'{m}.table'), 'C03-index', 'create_components:ON-qualified',
                  'the statement names the table as qualified as in its CREATE TABLE',
                  f'after ON comes `{norm(on[0].node) if on else "nothing"}`: the table must be written with get_full_name_for_sql(model.table), not by its bare name',
                  node=on[0].node if on else cc.node, file=cc.file)
        ri = idx.func(mod, 'render_index')
        m2 = [a.arg for a in ri.node.args.args][0]
        keys = [n for n in ast.walk(ri.node) if isinstance(n, (ast.GeneratorExp, ast.ListComp)) and norm(n.generators[0].iter) == f'{m2}.subjects']
        col.check(len(keys) == 1 and not keys[0].generators[0].ifs, 'C03-index', 'render_index:subjects-in-order', 'all subjects, in order',
                  'render_index does not render every subject of model.subjects in order', node=ri.node, file=ri.file)
        pk = [n for n in walk_no_nested(ri.node) if isinstance(n, ast.If) and norm(n.test) == f'{m2}.pk']
        okp = bool(pk) and any(isinstance(c, ast.Call) and norm(c.func) == 'render_pk' for s in pk[0].body for c in ast.walk(s))
        col.check(okp, 'C03-index', 'render_index:pk-dispatch', 'a pk index becomes a PRIMARY KEY clause', 'render_index does not dispatch pk indexes to render_pk', node=ri.node, file=ri.file)
    guarded(col, 'C03-index', 'index', index)

    # ---------------------------------------------------------------- C03-qualify
    def qualify():
        ti = TemplateIndex(idx, ('pydbml.renderer.sql.',))
        n = 0
        bad = 0
        for fid, ss in sorted(ti.sinks.items()):
            fi = ti.funcs[fid]
            if fi.qualname in ('get_full_name_for_sql',):
                continue
            ann = {a.arg: norm(a.annotation) if a.annotation is not None else '' for a in fi.node.args.args}
            for s in ss:
                if s.source[0] != 'attr' or not s.source[1].endswith('.name'):
                    continue
                obj = s.source[1][:-len('.name')]
                root = obj.split('.')[0].split('[')[0]
                is_table = (obj == root and 'Table' in ann.get(root, '') and 'Column' not in ann.get(root, '')) or obj.endswith(('.table', '.table1', '.table2'))
                is_enum = obj == root and ann.get(root, '') in ('Enum', "'Enum'")
                if not (is_table or is_enum):
                    continue
                # a name used as a lookup key / counted / compared is not text in the script
                if any(w in ('get', 'setdefault', 'pop', 'index', 'count', 'len', 'hash', 'sorted') for w in s.wrappers) and not (s.left or s.right or s.quote):
                    continue
                n += 1
                bad += 1
                col.bad('C03-qualify', f'{fi.qualname}:{s.source[1]}', f'{fi.qualname} ({s.where}) writes the table/enum identifier `{s.source[1]}` directly '
                        f'(template `{s.template[:60]}`): a table outside the default schema is addressed by its bare name, unlike its CREATE TABLE',
                        node=s.node, file=fi.file)
            for s in ss:
                if 'get_full_name_for_sql' in s.wrappers or 'get_full_name_for_sql_enum' in s.wrappers:
                    n += 1
                    col.ok('C03-qualify', f'{fi.qualname}:{s.source[1]}:qualified', f'{s.source[1]} is written through the qualifying helper', node=s.node, file=fi.file)
        col.floor('C03-qualify', 'table/enum identifier sinks', n, 6)
        # the helper itself: schema elided only for the default schema, both parts quoted
        gf = idx.func(f'{SQLD}.utils', 'get_full_name_for_sql')
        from .common import qualified_name_obligation
        qualified_name_obligation(ctx, col, 'C03-qualify', 'get_full_name_for_sql:shape', gf)
    guarded(col, 'C03-qualify', 'qualification', qualify)

    # ---------------------------------------------------------------- C03-enum / C03-db
    def enum_db():
        re_ = idx.func(f'{SQLD}.enum', 'render_enum')
        m = [a.arg for a in re_.node.args.args][0]
        ss = [s for s in sinks_of(re_) if s.left.rstrip().endswith('CREATE TYPE')]
        col.check(len(ss) == 1 and 'get_full_name_for_sql' in ss[0].wrappers, 'C03-enum', 'render_enum:type-name', 'CREATE TYPE names the enum through the qualifying helper',
                  'CREATE TYPE does not use get_full_name_for_sql(model)', node=re_.node, file=re_.file)
        gens = [n for n in ast.walk(re_.node) if isinstance(n, (ast.GeneratorExp, ast.ListComp)) and norm(n.generators[0].iter) == f'{m}.items']
        col.check(len(gens) == 1 and not gens[0].generators[0].ifs, 'C03-enum', 'render_enum:items-in-order', 'every item, in order',
                  'render_enum does not render every item of model.items in order', node=re_.node, file=re_.file)
        from .common import expanded
        rd = expanded(ctx, f'{SQLD}.renderer', 'DefaultSQLRenderer.render_db', keep_extra=('render', 'reorder_tables_for_sql'))
        dbp = [a.arg for a in rd.node.args.args][1]
        reads_enums = sum(1 for x in ast.walk(rd.node) if isinstance(x, ast.Attribute) and norm(x) == f'{dbp}.enums')
        reads_tables = sum(1 for x in ast.walk(rd.node) if isinstance(x, ast.Attribute) and norm(x) == f'{dbp}.tables')
        reads_refs = sum(1 for x in ast.walk(rd.node) if isinstance(x, ast.Attribute) and norm(x) == f'{dbp}.refs')
        col.check(reads_enums == 1, 'C03-db', 'render_db:enums-once', 'the enums are rendered once', f'render_db reads {dbp}.enums {reads_enums} times', node=rd.node, file=rd.file)
        col.check(reads_tables == 1, 'C03-db', 'render_db:tables-once', 'the tables are taken once (through the ordering helper)',
                  f'render_db reads {dbp}.tables {reads_tables} times: tables are rendered twice or never', node=rd.node, file=rd.file)
        col.check(reads_refs >= 1, 'C03-db', 'render_db:refs', 'the references are rendered', f'render_db never reads {dbp}.refs', node=rd.node, file=rd.file)
        col.check(any(isinstance(c, ast.Call) and isinstance(c.func, ast.Attribute) and c.func.attr == 'render' and norm(c.func.value) == 'cls' for c in ast.walk(rd.node)),
                  'C03-db', 'render_db:renders-each', 'every element is rendered through the renderer', 'render_db does not call cls.render on the elements', node=rd.node, file=rd.file)
    guarded(col, 'C03-enum', 'enum-and-db', enum_db)

    def ordering_keeps_all():
        # "one CREATE TABLE per table": the ordering helper render_db passes the tables through must hand back every table exactly once (rule shared with C18)
        sub = ctx.sub('c18', col.prop)
        n = 0
        for o in sub.obs:
            if o.rule in ('C18-permutation', 'C18-once'):
                n += 1
                col.obs.append(type(o)(col.prop, 'C03-db', 'ordering:' + o.construct, o.status, o.msg, o.file, o.line, o.extra))
        col.floor('C03-db', 'ordering obligations', n, 3)
        # "every table appears exactly once": the table list the script is written from holds a table object at most once - add_table refuses an object it already
        # holds whatever its current name is (guard shared with C09-guard / C06-unique)
        sub9 = ctx.sub('c09', col.prop)
        m = 0
        for o in sub9.obs:
            if o.rule == 'C09-guard' and o.construct.startswith('Database.add_table:same-object'):
                m += 1
                col.obs.append(type(o)(col.prop, 'C03-db', 'tables-once:' + o.construct, o.status, o.msg, o.file, o.line, o.extra))
        col.floor('C03-db', 'same-object guard obligations', m, 1)
    guarded(col, 'C03-db', 'ordering', ordering_keeps_all)

    def note_owner():
        # "table and column notes become COMMENT ON statements addressing the same qualified table": render_note takes the addressed element from note.parent,
        # and the note setter re-points `parent`.  The elements whose parent decides a COMMENT ON target must therefore hold a Note of their own: a constructor
        # that stores the caller's Note object lets a second element re-point the note of the first.
        rn = idx.func('pydbml.renderer.sql.default.note', 'render_note')
        model = [a.arg for a in rn.node.args.args][0]
        owners = []
        for n in ast.walk(rn.node):
            if isinstance(n, ast.Call) and norm(n.func) == 'isinstance' and len(n.args) == 2 and norm(n.args[0]) == f'{model}.parent':
                cs = n.args[1].elts if isinstance(n.args[1], (ast.Tuple, ast.List)) else [n.args[1]]
                owners += [norm(c).split('.')[-1] for c in cs]
        owners = sorted(set(owners))
        col.floor('C03-note-owner', 'element kinds whose note names them in COMMENT ON', len(owners), 2)
        for cname in owners:
            ci = next((c for c in idx.classes.values() if c.name == cname and c.module.startswith('pydbml._classes')), None)
            if ci is None:
                col.unk('C03-note-owner', f'{cname}:class', f'class {cname} not found')
                continue
            init = ci.methods.get('__init__')
            file = ci.module.replace('.', '/') + '.py'
            via = [n for n in walk_no_nested(init.node) if isinstance(n, ast.Assign) and norm(n.targets[0]) in ('self.note', 'self._note')] if init else []
            if not via:
                col.unk('C03-note-owner', f'{cname}.__init__:note-of-its-own', f'{cname}.__init__ does not assign self.note', node=ci.node, file=file)
                continue
            params = {a.arg for a in init.node.args.args[1:]} | {a.arg for a in init.node.args.kwonlyargs}
            single: Dict[str, list] = {}
            for n in walk_no_nested(init.node):
                if isinstance(n, ast.Assign) and len(n.targets) == 1 and isinstance(n.targets[0], ast.Name):
                    single.setdefault(n.targets[0].id, []).append(n.value)

            def arms(e, depth=0):
                if isinstance(e, ast.IfExp):
                    return arms(e.body, depth) + arms(e.orelse, depth)
                if isinstance(e, ast.BoolOp) and isinstance(e.op, ast.Or):
                    return [a for v in e.values for a in arms(v, depth)]
                if isinstance(e, ast.Name) and e.id not in params and len(single.get(e.id, [])) == 1 and depth < 3:
                    return arms(single[e.id][0], depth + 1)
                return [e]
            for a_ in via:
                verdicts = []
                for arm in arms(a_.value):
                    if isinstance(arm, ast.Call) and norm(arm.func).split('.')[-1] == 'Note':
                        verdicts.append('ok')
                    elif isinstance(arm, ast.Name) and arm.id in params:
                        verdicts.append('bad')
                    else:
                        verdicts.append('unk')
                cons2 = f'{cname}.__init__:note-of-its-own'
                if 'bad' in verdicts:
                    col.bad('C03-note-owner', cons2, f'{cname}.__init__ can store the very Note object it was given (`{norm(a_.value)}`): the setter re-points its parent, so a '
                            f'{cname} constructed earlier with the same Note emits COMMENT ON for the other element and none for itself', node=a_, file=file)
                elif 'unk' in verdicts:
                    col.unk('C03-note-owner', cons2, f'{cname}.__init__ stores `{norm(a_.value)}` as its note; cannot tell whether that is a Note created here', node=a_, file=file)
                else:
                    col.ok('C03-note-owner', cons2, f'{cname}.__init__ wraps the given note in a Note of its own (`{norm(a_.value)}`)', node=a_, file=file)
    guarded(col, 'C03-note-owner', 'note-owner', note_owner)


def derives_from(fn: ast.AST, e: ast.AST, path: str, depth: int = 0) -> bool:
    """Does the value of e come from the access path (directly, through str methods, or through single-assignment locals)?"""
    if depth > 4:
        return False
    for x in ast.walk(e):
        if isinstance(x, ast.Attribute) and norm(x) == path:
            return True
        if isinstance(x, ast.Name) and isinstance(x.ctx, ast.Load):
            asg = [n for n in walk_no_nested(fn) if isinstance(n, ast.Assign) and len(n.targets) == 1 and norm(n.targets[0]) == x.id]
            if asg and all(derives_from(fn, a.value, path, depth + 1) for a in asg):
                return True
    return False


def guarded_constants(fn: ast.AST) -> List[Tuple[str, frozenset, ast.AST]]:
    """Every string constant in fn (f-string pieces included) with the condition literals that enclose it
    (If statements and conditional expressions, with polarity)."""
    from ..strctx import enclosing_tests
    out = []
    for n in walk_no_nested(fn):
        if isinstance(n, ast.Constant) and isinstance(n.value, str) and n.value.strip():
            lits = set()
            for t, pol in enclosing_tests(fn, n):
                try:
                    tt = term(ast.parse(t, mode='eval').body, pol)
                except SyntaxError:
                    continue
                lits |= set(conjuncts(tt))
            out.append((n.value, frozenset(lits), n))
    return out


def keyword_guard(fn: ast.AST, keyword: str):
    """(found, set of guard-literal sets under which a constant containing the keyword as a word sequence occurs)."""
    hits = []
    for text, lits, node in guarded_constants(fn):
        words = ' ' + ' '.join(text.split()) + ' '
        if f' {keyword} ' in words.replace('(', ' ( '):
            hits.append((lits, node))
    return hits


def _neg(t):
    from ..cond import neg
    return neg(t)


def _pk_count(e: ast.AST, self_name: str) -> bool:
    """`e` counts the pk columns of self.columns: sum(c.pk for c in cols) / sum(1 for c in cols if c.pk) / len([c for c in cols if c.pk])."""
    if not (isinstance(e, ast.Call) and isinstance(e.func, ast.Name) and len(e.args) == 1 and not e.keywords):
        return False
    a = e.args[0]
    if not isinstance(a, (ast.GeneratorExp, ast.ListComp)) or len(a.generators) != 1:
        return False
    g = a.generators[0]
    if norm(g.iter) != f'{self_name}.columns' or not isinstance(g.target, ast.Name):
        return False
    v = g.target.id
    conds = [norm(c) for c in g.ifs]
    if e.func.id == 'sum':
        if norm(a.elt) in (f'{v}.pk', f'bool({v}.pk)', f'int({v}.pk)') and not conds:
            return True
        return isinstance(a.elt, ast.Constant) and a.elt.value == 1 and conds == [f'{v}.pk']
    if e.func.id == 'len':
        return isinstance(a, ast.ListComp) and conds == [f'{v}.pk']
    return False


def _composite_predicate(fn: ast.FunctionDef, rets):
    """('ok'|'bad'|'unk', why) for Table._has_composite_pk: the number of pk columns compared with "more than one"."""
    self_name = fn.args.args[0].arg if fn.args.args else 'self'
    if len(rets) != 1:
        return 'unk', f'has {len(rets)} return statements; the predicate is not read'
    e = rets[0]
    # resolve a single-assignment local (count = sum(...); return count > 1)
    binds = {n.targets[0].id: n.value for n in walk_no_nested(fn) if isinstance(n, ast.Assign) and len(n.targets) == 1 and isinstance(n.targets[0], ast.Name)}
    def res(x):
        return binds[x.id] if isinstance(x, ast.Name) and x.id in binds else x
    e = res(e)
    if not (isinstance(e, ast.Compare) and len(e.ops) == 1):
        return 'unk', f'returns `{norm(e)}`, not a comparison of a count'
    l, r, op = res(e.left), res(e.comparators[0]), e.ops[0]
    if isinstance(l, ast.Constant) and not isinstance(r, ast.Constant):
        l, r = r, l
        op = {ast.Gt: ast.Lt, ast.Lt: ast.Gt, ast.GtE: ast.LtE, ast.LtE: ast.GtE}.get(type(op), type(op))()
    if not _pk_count(l, self_name) or not (isinstance(r, ast.Constant) and isinstance(r.value, int)):
        return 'unk', f'returns `{norm(e)}`; the counted quantity is not recognised as the number of pk columns'
    k = r.value
    if (isinstance(op, ast.Gt) and k == 1) or (isinstance(op, ast.GtE) and k == 2):
        return 'ok', ''
    return 'bad', (f'returns `{norm(e)}`: the table counts as having a composite primary key for a pk-column count other than "more than one", so a single pk column loses '
                   f'its column-level PRIMARY KEY or several keep theirs')
