"""C02 - DBML round trip: parse(render(db)) equals db and rendering is a fixpoint (structural part)."""
from __future__ import annotations

import ast
from typing import Dict, List, Optional, Set, Tuple

from ..core import Collector, guarded, acquire_grammar, norm, Unrecognised, AnchorMissing
from ..grammar import G, named_nodes, value_action, walk, flatten_and, flatten_alt, top_shape
from .. import gtools as gt
from ..pyindex import walk_no_nested, access_path, FuncInfo
from ..cond import term, conjuncts
from ..strctx import TemplateIndex, Sink, sinks_of, flatten_concat
from .. import flows

EXPLANATION = (
    'Writer/reader agreement between the DBML renderer and the grammar. Coverage: for each of the registered DBML render '
    'functions every content attribute of its class (constructor parameters minus owner links) is read on the function\'s local '
    'call closure. Identifier sinks: an attribute the grammar feeds from the identifier token (bare word or double-quoted) must be '
    'written double-quoted (or through a helper that quotes when needed), because the expressible domain includes names with '
    'spaces, dots, punctuation and reserved words; a bare write is refuted. Keyword agreement: the constant the renderer emits '
    'under the test of attribute A is (caseless) one of the literals whose results name the parse action maps back to A, with the '
    'truth value the action gives it; keyed options (`default:`, `note:`, `name:`, `type:`, `update:`, `delete:`, `headercolor:`, '
    '`color:`, `ref:`) use the reader\'s keyword; element keywords agree. Falsy guards: an attribute with meaningful falsy values '
    '(Column.default) is emitted under `is not None`. Composition: render_db renders project, enums, tables, non-inline '
    'references, groups and sticky notes, inline references are emitted from the column that declares them. Schema elision '
    'happens exactly for the default schema. Free text and comments: the obligations of C13 (token agreement, sanitiser, '
    're-indentation) and C14 (comment written where the reader captures it) are part of the round trip and are included.')
RULE_TEXT = 'one obligation per (class, attribute) coverage pair, per identifier sink, per keyword pair, per falsy guard, per collection, plus the shared C13/C14 obligations'
ASSUMPTIONS = ['byte-identical fixpoint, layout and indentation normalisation are not decided',
               'the DBML-expressible value domain is defined by the extracted reader tokens (DESIGN.md section 4)']
ENGINES = ['pyindex', 'grammar', 'strctx', 'paths', 'strval', 'specialise']
TECHNIQUE = 'static analysis (ast): attribute-coverage over the local call closure, string-context analysis of templates against grammar-derived token classes, keyword agreement between renderer constants and grammar literals, guard normal forms; abstract string evaluation of every renderer against the statement form; bare-name pattern vs reader token per position'

DBML = 'pydbml.renderer.dbml.'
OWNER_LINKS = {'database', 'table', 'parent'}
NOT_CONTENT = {('Table', 'abstract'): 'marks synthetic join tables, never parsed',
               ('Table', 'columns'): 'passed at construction, stored through add_column', ('Table', 'indexes'): 'stored through add_index'}


def local_closure(ti: TemplateIndex, fi: FuncInfo) -> List[FuncInfo]:
    """fi plus the package functions it calls with its model (depth 3)."""
    out = [fi]
    seen = {fi.id}
    frontier = [fi]
    for _ in range(3):
        nxt = []
        for f in frontier:
            for c in ast.walk(f.node):
                if isinstance(c, ast.Call) and isinstance(c.func, ast.Name):
                    t = ti.resolve_func(f, c.func.id)
                    if t is not None and t.id not in seen and t.module.startswith('pydbml.renderer'):
                        seen.add(t.id)
                        out.append(t)
                        nxt.append(t)
        frontier = nxt
    return out


def run(ctx, col: Collector):
    idx = ctx.idx
    gm = acquire_grammar(ctx, col, 'C02-grammar')
    state: Dict[str, object] = {}

    def setup():
        state['ti'] = TemplateIndex(idx, innermost_context=True)
        state['envs'] = flows.build_envs(ctx, ('pydbml.renderer.',))
        state['rc'] = flows.reader_classes(ctx)
        state['pairs'] = flows.pair_classes(ctx)
        reg = {}
        for rid, table in idx.registry.items():
            if '.dbml.' in idx.classes[rid].module:
                reg = table
        state['reg'] = reg
        col.floor('C02-setup', 'registered DBML renderers', len(reg), 11)
    guarded(col, 'C02-setup', 'setup', setup)

    # ---------------------------------------------------------------- C02-coverage
    def coverage():
        ti: TemplateIndex = state['ti']
        n = 0
        for mid, funcs in sorted(state['reg'].items()):
            mcls = idx.classes[mid]
            init = idx.lookup_method(mid, '__init__')
            if init is None:
                continue
            params = [a.arg for a in init.node.args.args][1:]
            for fi in funcs:
                m = [a.arg for a in fi.node.args.args][0]
                reads: Set[str] = set()
                for f in local_closure(ti, fi):
                    for x in ast.walk(f.node):
                        if isinstance(x, ast.Attribute) and isinstance(x.ctx, ast.Load):
                            reads.add(x.attr)
                for p in params:
                    if p in OWNER_LINKS or (mcls.name, p) in NOT_CONTENT and p not in ('columns', 'indexes'):
                        continue
                    n += 1
                    col.check(p in reads, 'C02-coverage', f'{mcls.name}.{p}', f'{fi.qualname} (or a helper it calls) reads {mcls.name}.{p}',
                              f'the DBML renderer of {mcls.name} ({fi.qualname}) never reads `{p}`: whatever the model holds there is missing from the rendered '
                              f'document, so parse(render(db)) loses it', node=fi.node, file=fi.file)
        col.floor('C02-coverage', 'content attributes', n, 45)
    guarded(col, 'C02-coverage', 'coverage', coverage)

    # ---------------------------------------------------------------- C02-ident
    def identifiers():
        ti: TemplateIndex = state['ti']
        envs = state['envs']
        rc = state['rc']
        pairs = state['pairs']
        n = 0
        seen: Set[str] = set()

        def quoting_helper(fn: FuncInfo, name: str) -> bool:
            """The helper returns its argument between double quotes - always, or on every path except the one on which the
            argument fully matches a pattern over the reader's bare-word alphabet."""
            t = ti.resolve_func(fn, name)
            if t is None or isinstance(t.node, ast.Lambda):
                return False
            from ..paths import function_paths
            p0 = [a.arg for a in t.node.args.args][0] if t.node.args.args else None
            quoted_any = False
            for path in function_paths(t.node, unroll=1):
                last = path[-1]
                if last.kind != 'return' or last.node is None or last.node.value is None:
                    if last.kind == 'raise':
                        continue
                    return False
                r = last.node.value
                if isinstance(r, ast.Name):
                    asg = [n for n in walk_no_nested(t.node) if isinstance(n, ast.Assign) and norm(n.targets[0]) == r.id]
                    r2 = asg[-1].value if asg else r
                else:
                    r2 = r
                ps = flatten_concat(r2)
                lits = [p.value for p in ps if isinstance(p, ast.Constant) and isinstance(p.value, str)]
                if lits and lits[0].startswith('"') and lits[-1].endswith('"') and len(ps) >= 3:
                    quoted_any = True
                    continue
                # a bare return is allowed only under a full match against the bare-word alphabet
                if isinstance(r, ast.Name) and r.id == p0:
                    okbare = False
                    for ev in path:
                        if ev.kind == 'test' and ev.outcome is True:
                            for c in ast.walk(ev.node):
                                if isinstance(c, ast.Call) and norm(c.func) in ('re.fullmatch',) and len(c.args) == 2 and isinstance(c.args[0], ast.Constant) \
                                        and norm(c.args[1]) == p0:
                                    if bare_word_pattern(c.args[0].value, *reader_word):
                                        okbare = True
                                    elif bare_word_pattern(c.args[0].value):
                                        bare_mismatch.append((t.qualname, c.args[0].value))
                    if okbare:
                        continue
                return False
            return quoted_any
        words_ = [a for a in flatten_alt(gm.var('generic', 'name'), ('first', 'or')) if a.kind == 'word']
        reader_word = (words_[0].a['init'], words_[0].a['body']) if len(words_) == 1 else (None, None)
        bare_mismatch: List[Tuple[str, str]] = []
        for s in ti.all_sinks():
            if not s.fn.module.startswith(DBML):
                continue
            labels: List[str] = []
            kind, src = s.source
            if kind == 'attr':
                for cname, attr in sorted(flows.sink_attrs(ctx, s, envs)):
                    cls = rc.get((cname, attr), set())
                    if cls == {'ident'} or (cls and all(c in ('ident',) or c.startswith('mixed:combined') for c in cls) and attr in ('name', 'schema', 'alias')):
                        labels.append(f'{cname}.{attr}')
                    elif cls == {'combined'} and attr == 'type':
                        labels.append(f'{cname}.{attr}')
            elif kind == 'loop':
                var, it = src.split(' in ', 1)
                is_key = any(isinstance(nn, (ast.For, ast.comprehension)) and isinstance(nn.target, ast.Tuple) and len(nn.target.elts) == 2
                             and norm(nn.target.elts[0]) == var for nn in ast.walk(s.fn.node))
                if is_key and it.endswith('.properties.items()') and pairs.get('property', ('', ''))[0] == 'ident':
                    labels.append('property key')
                elif is_key and it.endswith('.items()') and s.fn.qualname == 'render_items' and pairs.get('project_item', ('', ''))[0] == 'ident':
                    labels.append('Project item key')
            for label in labels:
                finals = ti.expand(s)
                for f, wr in finals:
                    cons = f'{label}@{s.fn.qualname}' + (f'>{f.fn.qualname}' if f.fn.id != s.fn.id else '')
                    if cons in seen:
                        continue
                    seen.add(cons)
                    n += 1
                    quoted = f.quote == '"' and f.left.endswith('"') and f.right.startswith('"')
                    helper = any(not w.startswith('.') and quoting_helper(f.fn, w) for w in wr) or any(not w.startswith('.') and quoting_helper(s.fn, w) for w in wr)
                    if label.endswith('.type'):
                        # the column type is a combination of identifier parts; enum types go through the qualifying helper
                        if 'get_full_name_for_sql' in wr or 'get_full_name_for_dbml' in wr:
                            col.ok('C02-ident', cons, 'an enum type is written by its quoted qualified name', node=f.node, file=f.fn.file)
                            continue
                    if not (quoted or helper) and bare_mismatch:
                        hq, hp = bare_mismatch[0]
                        off = ''.join(sorted(c for c in 'ABCDEFGHIJKLMNOPQRSTUVWXYZabcdefghijklmnopqrstuvwxyz0123456789_' if reader_word[0] is not None and c not in (reader_word[0] & reader_word[1])))
                        col.bad('C02-ident', cons, f'{label} is written bare by {hq} whenever it matches `{hp}`, but the reader\'s bare identifier token does not accept '
                                f'{off[:20]!r} in every position (first characters {len(reader_word[0] or ())}, later characters {len(reader_word[1] or ())}): such a name is written '
                                f'without quotes and cannot be read back', node=f.node, file=f.fn.file)
                        continue
                    col.check(quoted or helper, 'C02-ident', cons, f'{label} is written double-quoted',
                              f'{label} is written bare by {f.fn.qualname} ({f.where}, template `{f.template[:50]}`): the reader takes a bare word over [A-Za-z0-9_] only, '
                              f'so a name with a space, dot or other punctuation (legal when quoted in the source) makes the rendered DBML unparseable or parse '
                              f'differently', node=f.node, file=f.fn.file)
        col.floor('C02-ident', 'identifier sinks', n, 18)
        # a helper that writes a name WITHOUT quotes when it matches a pattern: every string of that pattern must be a bare identifier for the reader
        # (each character allowed in first and in later position of the reader's bare-word token)
        from ..paths import function_paths as _fp
        nb = 0
        for hf in sorted(idx.funcs.values(), key=lambda f: f.id):
            if not hf.module.startswith(DBML) or not isinstance(hf.node, ast.FunctionDef) or not hf.node.args.args:
                continue
            p0 = hf.node.args.args[0].arg
            for path in _fp(hf.node, unroll=1):
                last = path[-1]
                if last.kind != 'return' or last.node is None or not (isinstance(last.node.value, ast.Name) and last.node.value.id == p0):
                    continue
                pats = [c.args[0] for ev in path if ev.kind == 'test' and ev.outcome is True for c in ast.walk(ev.node)
                        if isinstance(c, ast.Call) and norm(c.func) in ('re.fullmatch', 're.match') and len(c.args) == 2 and norm(c.args[1]) == p0]
                full = any(isinstance(c, ast.Call) and norm(c.func) == 're.fullmatch' for ev in path if ev.kind == 'test' and ev.outcome is True for c in ast.walk(ev.node))
                # a pattern compiled once at module level: NAME.fullmatch(p)
                from .c13 import module_patterns
                mpats = module_patterns(idx, hf.module)
                for ev in path:
                    if ev.kind == 'test' and ev.outcome is True:
                        for c in ast.walk(ev.node):
                            if isinstance(c, ast.Call) and isinstance(c.func, ast.Attribute) and c.func.attr in ('fullmatch', 'match') and isinstance(c.func.value, ast.Name) \
                                    and c.func.value.id in mpats and len(c.args) == 1 and norm(c.args[0]) == p0:
                                pats.append(ast.Constant(value=mpats[c.func.value.id]))
                                full = full or c.func.attr == 'fullmatch'
                if not pats:
                    continue
                nb += 1
                cons = f'{hf.qualname}:bare-pattern'
                pc = pats[0]
                if not (isinstance(pc, ast.Constant) and isinstance(pc.value, str)) or reader_word[0] is None:
                    col.unk('C02-ident', cons, f'{hf.qualname} returns `{p0}` unquoted under `{norm(pc)[:40]}`; the pattern or the reader\'s bare token is not readable', node=last.node, file=hf.file)
                elif full and bare_pattern_chars(pc.value)[0] and bare_pattern_chars(pc.value)[2]:
                    col.bad('C02-ident', cons, f'{hf.qualname} writes a name bare whenever it matches `{pc.value}`; {bare_pattern_chars(pc.value)[2]}, which the reader\'s bare '
                            f'identifier token does not accept: such a name is written without quotes and the rendered document cannot be parsed back', node=last.node, file=hf.file)
                elif bare_word_pattern(pc.value, *reader_word) and full:
                    col.ok('C02-ident', cons, f'{hf.qualname} writes a name bare only when it fully matches `{pc.value}`, all of which the reader takes as a bare identifier', node=last.node, file=hf.file)
                elif bare_word_pattern(pc.value) and full:
                    off = ''.join(sorted(c for c in 'ABCDEFGHIJKLMNOPQRSTUVWXYZabcdefghijklmnopqrstuvwxyz0123456789_' if c not in (reader_word[0] & reader_word[1])))
                    col.bad('C02-ident', cons, f'{hf.qualname} writes a name bare whenever it matches `{pc.value}`, but the reader\'s bare identifier token does not accept {off[:24]!r} in '
                            f'every position (e.g. as first character): such a name is written without quotes and the rendered document cannot be parsed back', node=last.node, file=hf.file)
                else:
                    col.unk('C02-ident', cons, f'{hf.qualname} returns `{p0}` unquoted under the pattern `{pc.value}`, which is not a full match of a repeated character class', node=last.node, file=hf.file)
        col.floor('C02-ident', 'bare-name helpers', nb, 1)
        # the reader's quoted-identifier token does no escape processing; if it did, the writer would have to escape too
        name_tok = gm.var('generic', 'name')
        for q in [a for a in flatten_alt(name_tok, ('first', 'or')) if a.kind == 'quoted']:
            esc = q.a.get('esc')
            col.check(not esc, 'C02-ident', 'reader:quoted-identifier:no-escape',
                      'the reader returns the text between the double quotes unchanged, as the writer writes it',
                      f'the quoted-identifier token processes the escape character {esc!r}, but the DBML renderer writes names raw between double quotes: a '
                      f'backslash in a name is dropped on re-parsing (names change on every cycle)', file=q.file)
        # table identifiers always go through the qualifying helper (the parser resolves an unqualified name in the default schema)
        nq = 0
        for s in ti.all_sinks():
            if not s.fn.module.startswith(DBML) or s.fn.qualname in ('get_full_name_for_dbml',):
                continue
            if s.source[0] != 'attr' or not s.source[1].endswith('.name'):
                continue
            owners = {c for c, a in flows.sink_attrs(ctx, s, envs)}
            if owners and owners <= {'Table'}:
                nq += 1
                col.bad('C02-ident', f'table-name-unqualified@{s.fn.qualname}:{s.source[1]}',
                        f'{s.fn.qualname} ({s.where}) writes a table name directly (`{s.template[:60]}`) instead of through get_full_name_for_dbml: the schema is '
                        f'left out although the parser resolves an unqualified table name in the default schema', node=s.node, file=s.fn.file)
        uses = [c for fi2 in ti.funcs.values() if fi2.module.startswith(DBML) for c in ast.walk(fi2.node)
                if isinstance(c, ast.Call) and isinstance(c.func, ast.Name) and c.func.id == 'get_full_name_for_dbml']
        col.check(nq == 0 and len(uses) >= 5, 'C02-ident', 'table-names:always-qualified', f'every table identifier is written through the qualifying helper ({len(uses)} uses)',
                  f'{nq} table names written without the qualifying helper')
        for fi2 in ti.funcs.values():
            if not fi2.module.startswith(DBML):
                continue
            for c in ast.walk(fi2.node):
                if isinstance(c, ast.Call) and isinstance(c.func, ast.Name) and c.func.id == 'get_full_name_for_dbml':
                    from ..strctx import enclosing_tests
                    gs = [t for t, pol in enclosing_tests(fi2.node, c) if 'schema' in t]
                    col.check(not gs, 'C02-ident', f'qualifying-helper:unconditional@{fi2.qualname}:{c.lineno - fi2.node.lineno}',
                              'the qualifying helper is applied regardless of the schema',
                              f'{fi2.qualname} uses get_full_name_for_dbml only under `{gs[0] if gs else ""}`: on the other branch the table is written without its schema',
                              node=c, file=fi2.file)
    guarded(col, 'C02-ident', 'identifiers', identifiers)

    # ---------------------------------------------------------------- C02-keyword
    def keywords():
        # reader: for each settings action, key -> [(literal text, value the action gives)]
        reader: Dict[Tuple[str, str], List[Tuple[str, object]]] = {}
        keyed: Dict[Tuple[str, str], Set[str]] = {}
        owner = {'parse_column_settings': 'Column', 'parse_index_settings': 'Index', 'parse_ref_settings': 'Reference', 'parse_table_settings': 'Table',
                 'parse_enum_settings': 'EnumItem', 'parse_table_group': 'TableGroup'}
        for fname, cname in owner.items():
            for g in gm.nodes_with_action(fname):
                act = [a for a in g.actions if a.name == fname][0]
                for key, plist in flows.action_key_sources(act).items():
                    for p in plist:
                        for x in named_nodes(g, p[0]):
                            kw = leading_keyword(x, g)
                            if kw:
                                keyed.setdefault((cname, key), set()).add(kw.lower())
                # flags: `if 'x' in tok: result['k'] = True` / tok.get('x')
                for st in ast.walk(act.node):
                    if isinstance(st, ast.If):
                        t = norm(st.test)
                        for b in st.body:
                            if isinstance(b, ast.Assign) and isinstance(b.targets[0], ast.Subscript) and isinstance(b.targets[0].slice, ast.Constant) \
                                    and isinstance(b.value, ast.Constant) and b.value.value is True:
                                key = b.targets[0].slice.value
                                nm = None
                                for x in ast.walk(st.test):
                                    if isinstance(x, ast.Constant) and isinstance(x.value, str):
                                        nm = x.value
                                if nm is None:
                                    continue
                                truthy_only = '.get(' in t
                                for xn in named_nodes(g, nm):
                                    v = gt.vocab_of(xn)
                                    if v is None:
                                        continue
                                    val: object = True
                                    lam = [a for a in xn.actions if a.kind == 'lambda']
                                    if lam and isinstance(lam[0].node.body, ast.Constant):
                                        val = lam[0].node.body.value
                                    for text, _, _ in v:
                                        if truthy_only and not val:
                                            continue
                                        reader.setdefault((cname, key), []).append((text.lower(), val))
        col.floor('C02-keyword', 'reader flag keywords', len(reader), 6)
        # writer: constants appended under a truthiness test of model.<attr>
        writer_fns = {'Column': ('pydbml.renderer.dbml.default.column', 'render_options'), 'Index': ('pydbml.renderer.dbml.default.index', 'render_options'),
                      'Reference': ('pydbml.renderer.dbml.default.reference', 'render_options')}
        n = 0
        for cname, (mod, fn) in writer_fns.items():
            fi = idx.func(mod, fn)
            m = [a.arg for a in fi.node.args.args][0]
            for st in fi.node.body:
                if not isinstance(st, ast.If):
                    continue
                lits = conjuncts(term(st.test, True))
                attrs = [l[1][len(m) + 1:] for l in lits if l[0] == 'truthy' and l[1].startswith(m + '.')]
                if len(attrs) != 1:
                    continue
                attr = attrs[0]
                for b in st.body:
                    for c in ast.walk(b):
                        if isinstance(c, ast.Call) and isinstance(c.func, ast.Attribute) and c.func.attr == 'append' and c.args:
                            a = c.args[0]
                            if isinstance(a, ast.Constant) and isinstance(a.value, str):
                                n += 1
                                want = [t for t, v in reader.get((cname, attr), []) if v]
                                col.check(a.value.lower() in want, 'C02-keyword', f'{cname}.{attr}:flag', f'`{a.value}` is what the reader maps back to {attr}',
                                          f'{fn} writes `{a.value}` when {cname}.{attr} is set, but the grammar maps {want or "no keyword"} to `{attr}` (value True): the '
                                          f'flag is lost or becomes another one on re-parsing', node=c, file=fi.file)
                            elif isinstance(a, ast.JoinedStr) and a.values and isinstance(a.values[0], ast.Constant):
                                text = a.values[0].value
                                if ':' in text:
                                    kw = text.split(':')[0].strip().lower() + ':'
                                    n += 1
                                    want = keyed.get((cname, attr), set())
                                    col.check(kw in want, 'C02-keyword', f'{cname}.{attr}:keyed', f'`{kw}` is the reader\'s keyword for {attr}',
                                              f'{fn} writes {cname}.{attr} after `{kw}`, the grammar reads it after {sorted(want) or "nothing"}', node=c, file=fi.file)
        # default: / note: / ref: in the column options
        fi = idx.func('pydbml.renderer.dbml.default.column', 'render_options')
        col_kw = keyed.get(('Column', 'default'), set())
        txt = ''.join(c.value for t in ast.walk(fi.node) if isinstance(t, ast.JoinedStr) for c in t.values if isinstance(c, ast.Constant))
        col.check('default:' in col_kw and 'default: ' in txt, 'C02-keyword', 'Column.default:keyed', 'default is written after `default:`',
                  f'column options: default keyword mismatch (reader {sorted(col_kw)})', node=fi.node, file=fi.file)
        # element keywords
        elems = [('pydbml.renderer.dbml.default.table', 'render_header', 'Table ', 'parse_table'), ('pydbml.renderer.dbml.default.enum', 'render_enum', 'Enum ', 'parse_enum'),
                 ('pydbml.renderer.dbml.default.reference', 'render_not_inline_reference', 'Ref', 'parse_ref'),
                 ('pydbml.renderer.dbml.default.table_group', 'render_table_group', 'TableGroup ', 'parse_table_group'),
                 ('pydbml.renderer.dbml.default.project', 'render_project', 'Project ', 'parse_project'),
                 ('pydbml.renderer.dbml.default.sticky_note', 'render_sticky_note', 'Note ', 'parse_sticky_note')]
        from .common import expanded as _exp
        for mod, fn, kw, action in elems:
            fi = _exp(ctx, mod, fn)          # with its helpers in place (a header helper, a comment wrapper)
            consts = [c.value for x in ast.walk(fi.node) for c in ([x] if isinstance(x, ast.Constant) else []) if isinstance(c.value, str)]
            first = [c for c in consts if c.strip() and c.strip()[0].isalpha()]
            gs = gm.nodes_with_action(action)
            rk = set()
            for g in gs:
                for t in gt.first_tokens(g):
                    if t.kind in ('lit', 'keyword') and t.a['text'].strip().isalpha():
                        rk.add(t.a['text'].lower())
            n += 1
            col.check(any(c.startswith(kw) for c in consts) and kw.strip().lower() in rk, 'C02-keyword', f'element:{kw.strip()}',
                      f'`{kw.strip()}` opens the element in both directions', f'{fn} opens the element with {[c for c in first][:2]} but the grammar expects {sorted(rk)}',
                      node=fi.node, file=fi.file)
        col.floor('C02-keyword', 'keyword pairs', n, 14)
    guarded(col, 'C02-keyword', 'keywords', keywords)

    # ---------------------------------------------------------------- C02-falsy
    def falsy():
        fi = idx.func('pydbml.renderer.dbml.default.column', 'render_options')
        m = [a.arg for a in fi.node.args.args][0]
        tests = [st for st in fi.node.body if isinstance(st, ast.If) and f'{m}.default' in norm(st.test)]
        if not tests:
            col.bad('C02-falsy', 'Column.default:emitted', 'the DBML column options never emit the default', node=fi.node, file=fi.file)
            return
        lits = set(conjuncts(term(tests[0].test, True)))
        col.check(lits == {('not', ('none', f'{m}.default'))}, 'C02-falsy', 'Column.default:is-not-None',
                  'the default is written whenever it is not None',
                  f'the DBML column renderer writes the default under `{norm(tests[0].test)}`: the defaults 0, 0.0, False and the empty string are dropped from the rendered '
                  f'document (the SQL renderer tests `is not None`)', node=tests[0], file=fi.file)
    guarded(col, 'C02-falsy', 'falsy-guards', falsy)

    # ---------------------------------------------------------------- C02-compose
    def compose():
        from .common import expanded
        rd = expanded(ctx, 'pydbml.renderer.dbml.default.renderer', 'DefaultDBMLRenderer.render_db', keep_extra=('render',))
        dbp = [a.arg for a in rd.node.args.args][1]
        reads = {x.attr for x in ast.walk(rd.node) if isinstance(x, ast.Attribute) and norm(x.value) == dbp}
        for c in ('project', 'enums', 'tables', 'refs', 'table_groups', 'sticky_notes'):
            col.check(c in reads, 'C02-compose', f'render_db:{c}', f'db.{c} is rendered', f'render_db never reads db.{c}: these elements are missing from the rendered document',
                      node=rd.node, file=rd.file)
        from .common import select_filter
        st, f = select_filter(rd.node, f'{dbp}.refs', [('not', ('truthy', 'VAR.inline'))])
        (col.ok if st == 'ok' else col.bad if st == 'bad' else col.unk)(
            'C02-compose', 'render_db:non-inline-refs',
            'standalone references are rendered at document level, inline ones are not' if st == 'ok' else
            (f'render_db selects references under {f["conds"]}; expected exactly `not ref.inline`' if st == 'bad' else 'render_db does not select from db.refs in a recognised form'),
            node=rd.node, file=rd.file)
        ro = idx.func('pydbml.renderer.dbml.default.column', 'render_options')
        m = [a.arg for a in ro.node.args.args][0]
        st, f = select_filter(ro.node, f'{m}.get_refs()', [('truthy', 'VAR.inline')], elt_is_var=False, elt_pred=lambda f: f['elt'] == f['var'] + '.dbml')
        (col.ok if st == 'ok' else col.bad if st == 'bad' else col.unk)(
            'C02-compose', 'render_options:inline-refs',
            'inline references are written as settings of the column that declares them' if st == 'ok' else
            (f'the column options select from model.get_refs() under {f["conds"]} rendering `{f["elt"]}`; expected `ref.dbml for ref in model.get_refs() if ref.inline`' if st == 'bad'
             else 'the column options do not iterate model.get_refs() in a recognised form'), node=ro.node, file=ro.file)
        # order preserved: elements joined in collection order
        j = [n for n in ast.walk(rd.node) if isinstance(n, ast.Call) and isinstance(n.func, ast.Attribute) and n.func.attr == 'join']
        col.check(bool(j) and not any(isinstance(x, ast.Call) and norm(x.func) in ('sorted', 'reversed', 'set') for x in ast.walk(rd.node)), 'C02-compose', 'render_db:order',
                  'elements are rendered in collection order', 'render_db reorders the elements', node=rd.node, file=rd.file)
        # schema elision: on every path the text is "name" when the schema is the default one and "schema"."name" otherwise (abstract string evaluation per path)
        gsym = idx.resolve('pydbml.renderer.dbml.default.table', 'get_full_name_for_dbml')
        gf = idx.funcs.get(f'{gsym.module}:{gsym.name}') if gsym is not None and gsym.kind == 'func' else None
        if gf is None:
            raise AnchorMissing('get_full_name_for_dbml')
        from .common import qualified_name_obligation
        qualified_name_obligation(ctx, col, 'C02-compose', 'get_full_name_for_dbml:schema-elision', gf)
        # every name written by the helper is addressed through it (same qualified form for tables, references, groups)
    guarded(col, 'C02-compose', 'composition', compose)

    # ---------------------------------------------------------------- C02-form
    def forms():
        """Each DBML renderer returns text of the form the reader's rule for that element accepts, and every optional part stands exactly under the
        condition on the attribute it writes (abstract string evaluation of every path, see sa/strval.py and rules/forms.py)."""
        from .forms import form_obligation
        D = 'pydbml.renderer.dbml.default.'
        keep = {'name_to_dbml', 'string_to_dbml', 'quote_string', 'note_option_to_dbml', 'comment_to_dbml', 'get_full_name_for_dbml', 'get_full_name_for_sql',
                'default_to_str', 'prepare_text_for_dbml', 'render_col', 'validate_for_dbml'}

        def has(attr):
            def pred(lits):
                for l in lits:
                    if l[0] == 'truthy' and str(l[1]).endswith('.' + attr):
                        return True
                    if l[0] == 'not' and isinstance(l[1], tuple) and l[1][0] == 'truthy' and str(l[1][1]).endswith('.' + attr):
                        return False
                    if l[0] == 'not' and isinstance(l[1], tuple) and l[1][0] == 'none' and str(l[1][1]).endswith('.' + attr):
                        return True
                    if l[0] == 'none' and str(l[1]).endswith('.' + attr):
                        return False
                return None
            return pred

        def flag(name, kw, attr, what):
            return (name, kw, has(attr), True, f'`{what}` is written although {attr} is not set, or left out although it is set: the rendered document states a different {attr}')
        W = r'(?<![a-z"◦])'
        ITEMC = r'(◦\*?|pk|increment|unique|not null|default: ◦|◦: ◦)'
        ITEMI = r'(name: ◦|pk|unique|type: ◦|◦)'
        ITEMR = r'(update: ◦|delete: ◦|◦\*?)'
        specs = [
            (D + 'column', 'render_column', rf'(◦ ?)?"◦" ◦( ?\[({ITEMC}(, ?{ITEMC})*)?\])?', '"name" type [settings]', None,
             [flag('pk', W + r'pk(?![a-z])', 'pk', 'pk'), flag('increment', W + 'increment', 'autoinc', 'increment'), flag('unique', W + 'unique', 'unique', 'unique'),
              flag('not-null', W + 'not null', 'not_null', 'not null')]),
            (D + 'enum', 'render_enum', r'(◦ ?)?Enum ◦ \{ ?(◦\*? ?)*\}', 'Enum name { items }', None, []),
            (D + 'enum', 'render_enum_item', r'(◦ ?)?"◦"( \[◦\])?', '"item" [note]', None, [flag('note', r'\[◦\]', 'note', '[note: ...]')]),
            (D + 'index', 'render_index', rf'(◦ ?)?(\(◦\*?\)|◦)( ?\[({ITEMI}(, ?{ITEMI})*)?\])?', '(subjects) [settings]', None,
             [flag('pk', W + r'pk(?![a-z])', 'pk', 'pk'), flag('unique', W + 'unique', 'unique', 'unique'), flag('name', W + 'name: ◦', 'name', 'name:'),
              flag('type', W + 'type: ◦', 'type', 'type:')]),
            (D + 'reference', 'render_not_inline_reference', rf'(◦ ?)?Ref( ◦)? \{{ ?◦\.◦ ◦ ◦\.◦( ?\[({ITEMR}(, ?{ITEMR})*)?\])? ?\}}', 'Ref [name] {{ t.c op t.c [actions] }}', None,
             [flag('update', 'update: ◦', 'on_update', 'update:'), flag('delete', 'delete: ◦', 'on_delete', 'delete:'), flag('name', r'Ref ◦ \{', 'name', 'the reference name')]),
            (D + 'reference', 'render_inline_reference', r'ref: ◦ ◦\.(◦|"◦")', 'ref: op table."column"', None, []),
            (D + 'table', 'render_table', r'(◦ ?)?Table ◦( as (◦|"◦"))?( \[headercolor: ◦\])? ?\{ ?(◦\*? ?)*(indexes \{ ?(◦\*? ?)*\} ?)?(◦\*? ?)*\}',
             'Table name [as alias] [headercolor] { columns ... [indexes { }] }', None,
             [flag('alias', r' as (◦|"◦")', 'alias', 'as alias'), flag('headercolor', 'headercolor: ◦', 'header_color', 'headercolor'), flag('indexes', r'indexes \{', 'indexes', 'indexes { }')]),
            (D + 'project', 'render_project', r'(◦ ?)?Project (◦|"◦") \{ ?((◦: ◦ ?)|(◦\*? ?))*\}', 'Project name { items note }', None, []),
            (D + 'table_group', 'render_table_group', r'(◦ ?)?TableGroup (◦|"◦")( \[color: ◦\])? \{ ?(◦\*? ?)*\}', 'TableGroup name [color] { tables note }', None,
             [flag('color', 'color: ◦', 'color', 'color:')]),
            (D + 'sticky_note', 'render_sticky_note', r'(◦ ?)?Note ◦ \{ ?◦ ?\}', 'Note name { text }', None, []),
            (D + 'note', 'render_note', r'Note \{ ?◦ ?\}', 'Note { text }', None, []),
            (D + 'expression', 'render_expression', r'`◦`', '`expression`', None, []),
        ]
        def data(name, rx, attr):
            return (name, rx, has(attr), True, f'the {name} is written although {attr} is not set, or left out although it is set')
        extra = {
            'render_column': dict(labels=[data('note', r'\.note\b', 'note')], always=[('the column name', r'\.name\b'), ('the column type', r'\.type\b')],
                                  order=[('name, type', [r'model\.name\b|\w+\.name\b', r'\.type\b'])]),
            'render_enum': dict(some=[('the enum items', r'\.items\b')]),
            'render_enum_item': dict(always=[('the item name', r'\.name\b')], labels=[data('note', r'\.note\b', 'note')]),
            'render_index': dict(labels=[data('note', r'\.note\b', 'note')]),
            'render_not_inline_reference': dict(order=[('table1.col1 <kind> table2.col2', [r'\.table1\b', r'\.col1\b', r'\.type\b', r'\.table2\b', r'\.col2\b'])],
                                                always=[('the relation kind', r'\.type\b')]),
            'render_inline_reference': dict(order=[('<kind> table.column of side 2', [r'\.type\b', r'\.col2\[0\]\.table\b', r'\.col2\[0\]\.name\b'])]),
            'render_table': dict(some=[('the columns', r'\.columns\b')], labels=[data('note', r'\.note\b', 'note'), data('indexes', r'\.indexes\b', 'indexes')]),
            'render_project': dict(always=[('the project name', r'\.name\b')], labels=[data('note', r'\.note\b', 'note')]),
            'render_table_group': dict(some=[('the member tables', r'\.items\b')], labels=[data('note', r'\.note\b', 'note')]),
            'render_sticky_note': dict(always=[('the note name', r'\.name\b'), ('the note text', r'\.text\b')]),
            'render_note': dict(always=[('the note text', r'\.text\b')]),
            'render_expression': dict(always=[('the expression text', r'\.text\b')]),
        }
        for mod_, fn_, pat, what, req, pairs in specs:
            guarded(col, 'C02-form', fn_, lambda mod_=mod_, fn_=fn_, pat=pat, what=what, req=req, pairs=pairs: form_obligation(
                ctx, col, 'C02-form', mod_, fn_, pat, what, keep=keep, require_some=req, pairs=pairs, **extra.get(fn_, {})))
    forms()

    # ---------------------------------------------------------------- shared obligations
    def shared():
        n = 0
        sub = ctx.sub('c13', col.prop)
        for o in sub.obs:
            if o.rule in ('C13-sink', 'C13-sanitiser', 'C13-indent') or (o.rule == 'C13-normalise' and o.status != 'discharged'):
                n += 1
                col.obs.append(type(o)(col.prop, o.rule.replace('C13-', 'C02-text-'), o.construct, o.status, o.msg, o.file, o.line, o.extra))
        sub = ctx.sub('c14', col.prop)
        for o in sub.obs:
            if o.rule in ('C14-roundtrip',):
                n += 1
                col.obs.append(type(o)(col.prop, 'C02-comment', o.construct, o.status, o.msg, o.file, o.line, o.extra))
        sub = ctx.sub('c10', col.prop)
        for o in sub.obs:
            if o.rule in ('C10-pure', 'C10-derived', 'C10-cache') and ('dbml' in o.construct.lower() or o.status != 'discharged' or 'Database' in o.construct):
                n += 1
                col.obs.append(type(o)(col.prop, 'C02-current', o.construct, o.status, o.msg, o.file, o.line, o.extra))
        # what the writer leaves out / writes verbatim, the reader must fill in / take verbatim in the same way:
        #  - the schema of a public enum is elided by the writer, so a bare type name must bind to the public enum (C05-enum);
        #  - names, expressions and their tokens are written verbatim, so the reader's tokens must return the text verbatim (C01-lex)
        sub = ctx.sub('c05', col.prop)
        for o in sub.obs:
            if o.rule == 'C05-enum' or (o.rule == 'C05-schema'):
                n += 1
                col.obs.append(type(o)(col.prop, 'C02-binding', o.construct, o.status, o.msg, o.file, o.line, o.extra))
        #  - an inline reference is written by the column get_refs() attributes it to: the selection must name exactly the column that declared it
        #    (C05-owner), or a second column writes the reference again and the re-parsed database has one more reference
        inline_readers = [fi.qualname for fi in idx.funcs.values() if fi.module.startswith('pydbml.renderer.dbml.')
                          and any(isinstance(x, ast.Call) and isinstance(x.func, ast.Attribute) and x.func.attr == 'get_refs' for x in ast.walk(fi.node))]
        for o in sub.obs:
            if inline_readers and o.rule == 'C05-owner' and o.construct in ('Table.get_refs:filter', 'Column.get_refs:filter'):
                n += 1
                col.obs.append(type(o)(col.prop, 'C02-inline-owner', o.construct, o.status, o.msg + f' (read by {inline_readers})', o.file, o.line, o.extra))
        sub = ctx.sub('c01', col.prop)
        for o in sub.obs:
            if o.rule == 'C01-lex' and (o.construct.startswith(('expression', 'name:', 'string')) or o.status != 'discharged'):
                n += 1
                col.obs.append(type(o)(col.prop, 'C02-token', o.construct, o.status, o.msg, o.file, o.line, o.extra))
        col.floor('C02-text', 'shared free-text and comment obligations', n, 40)
    guarded(col, 'C02-text', 'shared', shared)


def leading_keyword(x: G, owner: G) -> Optional[str]:
    """The keyword literal that introduces a keyed setting: first literal inside the named element, or the literal
    right before it in its sequence."""
    seq = flatten_and(x) if x.kind == 'and' else [x]
    for k in seq:
        t = gt.lit_of(k)
        if t and t.strip().endswith(':'):
            return t.strip()
        if k.kind not in gt.ZERO_WIDTH and not gt.is_blank_skipper(k):
            break
    # literal before x in an enclosing sequence
    for n in walk(owner):
        if n.kind == 'and':
            sq = flatten_and(n)
            for i, k in enumerate(sq):
                if k is x or (k.kind != 'and' and any(y is x for y in walk(k))):
                    for j in range(i - 1, -1, -1):
                        t = gt.lit_of(sq[j])
                        if t and t.strip().endswith(':'):
                            return t.strip()
                        if sq[j].kind not in gt.ZERO_WIDTH and not gt.is_blank_skipper(sq[j]):
                            break
    return None


def bare_pattern_chars(pat: str):
    """For a pattern of the form `<character class>+` (or {n,}): (True, explicit characters, description of anything beyond them such as `\\w` matching non-ASCII
    letters); (False, ..) when the pattern has another shape."""
    import re._parser as sp
    import re._constants as sc
    try:
        tree = list(sp.parse(pat))
    except Exception:
        return False, set(), None
    if len(tree) != 1 or tree[0][0] not in (sc.MAX_REPEAT, sc.MIN_REPEAT):
        return False, set(), None
    lo, hi, body = tree[0][1]
    if lo < 1 or len(body) != 1:
        return False, set(), None
    items = body[0][1] if body[0][0] is sc.IN else [body[0]]
    chars = set()
    extra = None
    for op, av in items:
        if op is sc.LITERAL:
            chars.add(av)
        elif op is sc.RANGE:
            chars |= set(range(av[0], av[1] + 1))
        elif op is sc.CATEGORY and av is sc.CATEGORY_WORD:
            chars |= set(map(ord, 'ABCDEFGHIJKLMNOPQRSTUVWXYZabcdefghijklmnopqrstuvwxyz0123456789_'))
            extra = '`\\w` also matches letters and digits outside ASCII (é, ß, я, ٣ ...)'
        elif op is sc.CATEGORY and av is sc.CATEGORY_DIGIT:
            chars |= set(map(ord, '0123456789'))
            extra = extra or '`\\d` also matches digits outside ASCII'
        else:
            return False, set(), None
    return True, chars, extra


def bare_word_pattern(pat: str, first: Optional[frozenset] = None, rest: Optional[frozenset] = None) -> bool:
    """The pattern matches only non-empty strings the reader's bare identifier token accepts: a repeated character class whose characters are all
    allowed in first position and in later positions (default: [A-Za-z0-9_])."""
    shape, chars, extra = bare_pattern_chars(pat)
    if not shape or extra:
        return False
    allowed = set(map(ord, 'ABCDEFGHIJKLMNOPQRSTUVWXYZabcdefghijklmnopqrstuvwxyz0123456789_'))
    if first is not None and rest is not None:
        allowed = set(map(ord, first & rest))
    return chars <= allowed
