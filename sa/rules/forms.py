"""Statement-form obligations (shared by C03, C04, C02): the text a renderer returns, evaluated abstractly on every path
(sa/strval.py), has the form of the statement the property describes - keywords spelt and ordered as in the statement,
data only in the holes.  The comparison is layout-insensitive (runs of white space count as one blank) and, for SQL,
case-insensitive; it is also insensitive to HOW the text is assembled (+=, list + join, f-string, helper)."""
from __future__ import annotations

import ast
import re
from typing import Dict, Iterable, List, Optional, Tuple

from ..core import Collector, norm, AnchorMissing
from ..inline import inlined_info
from ..strval import skeletons, show, show_labelled, HOLE, STAR, UNK

H = '◦'


def _squash(s: str) -> str:
    s = re.sub(r'\s+', ' ', s)
    return s.strip()


def module_str_consts(idx, modname: str) -> Dict[str, str]:
    out: Dict[str, str] = {}
    m = idx.modules.get(modname)
    if m is None:
        return out
    for st in m.tree.body:
        if isinstance(st, ast.Assign) and len(st.targets) == 1 and isinstance(st.targets[0], ast.Name) and isinstance(st.value, ast.Constant) \
                and isinstance(st.value.value, str):
            out[st.targets[0].id] = st.value.value
    return out


def form_obligation(ctx, col: Collector, rule: str, mod: str, fname: str, pattern: str, what: str, keep: Iterable[str] = (), flags=re.I,
                    transparent: Iterable[str] = (), require_some: Optional[str] = None, pairs=(), labels=(), order=(), always=(), some=()) -> None:
    """One obligation `<fname>:form`: every skeleton of the function matches `pattern` (a regex over the squashed skeleton in which
    a data hole is written ◦ and a repeated hole ◦*)."""
    idx = ctx.idx
    try:
        fi0 = idx.func(mod, fname)
    except Exception:
        raise AnchorMissing(f'{mod}:{fname}')
    fi = inlined_info(idx, fi0, depth=4, keep=set(keep))
    cons = f'{fname}:form'
    sks = skeletons(fi.node, unroll=1, transparent=transparent, consts=module_str_consts(idx, fi.module))
    if not sks:
        col.unk(rule, cons, f'{fname} has no returning path whose text could be followed', node=fi0.node, file=fi0.file)
        return
    rx = re.compile(pattern, flags)
    shown = sorted({_squash(show(s)) for _, s in sks})
    bad = [s for s in shown if not rx.fullmatch(s)]
    col.stat(f'skeletons_{fname}', len(shown))
    # (b) condition pairing: a text form that contains <regex> is emitted only on paths on which <literal predicate> holds, and vice versa when `iff`
    for pname, prx, pred, iff, pmsg in pairs:
        prc = re.compile(prx, flags)
        viol = None
        nhit = 0
        for lits, sk in sks:
            txt = _squash(show(sk))
            has = bool(prc.search(txt))
            holds = pred(lits)
            if has:
                nhit += 1
            if has and holds is False:
                viol = viol or (txt, 'although')
            if iff and (not has) and holds is True and '?' not in txt and txt != H:
                viol = viol or (txt, 'without')
        pc = f'{fname}:form:{pname}'
        if viol:
            col.bad(rule, pc, f'{fname}: {pmsg} (text form `{viol[0][:90]}`)', node=fi0.node, file=fi0.file)
        elif nhit:
            col.ok(rule, pc, f'{fname}: the `{pname}` part is emitted under the right condition on {nhit} paths', node=fi0.node, file=fi0.file)
        else:
            col.unk(rule, pc, f'{fname}: no text form contains the `{pname}` part', node=fi0.node, file=fi0.file)
    # (c) which data stands where - judged on the holes' labels (the expression each hole holds):
    #     labels: a hole holding <regex> is present exactly on the paths on which <predicate> holds;
    #     always: every text form contains a hole holding <regex>;
    #     order : the holes holding r1, r2, ... appear in this order whenever they all appear
    lab = [(lits, _squash(show_labelled(sk))) for lits, sk in sks]
    followable = [(lits, t) for lits, t in lab if '?⟨' not in t and re.sub(r'[◦*\s]|⟨[^⟩]*⟩', '', t)]
    for lname, lrx, pred, iff, lmsg in labels:
        rc_ = re.compile('⟨[^⟩]*(' + lrx + ')[^⟩]*⟩')
        viol = None
        nhit = 0
        for lits, t in followable:
            has = bool(rc_.search(t))
            holds = pred(lits)
            nhit += has
            if has and holds is False:
                viol = viol or t
            if iff and not has and holds is True:
                viol = viol or t
        lc = f'{fname}:data:{lname}'
        if viol:
            col.bad(rule, lc, f'{fname}: {lmsg} (text form `{_squash(re.sub("⟨[^⟩]*⟩", "", viol))[:80]}`)', node=fi0.node, file=fi0.file)
        elif nhit:
            col.ok(rule, lc, f'{fname}: `{lname}` is written exactly when it is set ({nhit} text forms)', node=fi0.node, file=fi0.file)
        else:
            col.unk(rule, lc, f'{fname}: no text form holds `{lname}` in a form this rule can see', node=fi0.node, file=fi0.file)
    for aname, arx in always:
        rc_ = re.compile('⟨[^⟩]*(' + arx + ')[^⟩]*⟩')
        missing = [t for _, t in followable if not rc_.search(t)]
        ac = f'{fname}:data:{aname}'
        if not followable:
            col.unk(rule, ac, f'{fname}: no text form could be followed', node=fi0.node, file=fi0.file)
        elif missing:
            col.bad(rule, ac, f'{fname} can return `{_squash(re.sub("⟨[^⟩]*⟩", "", missing[0]))[:90]}`, which does not contain {aname}: that part of the model is missing from '
                    f'the rendered text', node=fi0.node, file=fi0.file)
        else:
            col.ok(rule, ac, f'every text form of {fname} contains {aname}', node=fi0.node, file=fi0.file)
    for sname, srx in some:
        rc_ = re.compile('⟨[^⟩]*(' + srx + ')[^⟩]*⟩')
        sc = f'{fname}:data:{sname}'
        if any(rc_.search(t) for _, t in lab):
            col.ok(rule, sc, f'{fname} writes {sname}', node=fi0.node, file=fi0.file)
        elif followable and len(followable) == len(lab):
            col.bad(rule, sc, f'no text form of {fname} contains {sname} (e.g. `{_squash(re.sub("⟨[^⟩]*⟩", "", followable[-1][1]))[:90]}`): that part of the model is never '
                    f'written', node=fi0.node, file=fi0.file)
        else:
            col.unk(rule, sc, f'{fname}: {sname} not found, but not every text form could be followed', node=fi0.node, file=fi0.file)
    for oname, rxs in order:
        rcs = [re.compile('⟨[^⟩]*(' + r + ')[^⟩]*⟩') for r in rxs]
        viol = None
        nall = 0
        for _, t in followable:
            pos = [m.start() if (m := rc_.search(t)) else None for rc_ in rcs]
            if any(x is None for x in pos):
                continue
            nall += 1
            if pos != sorted(pos):
                viol = viol or t
        oc = f'{fname}:order:{oname}'
        if viol:
            col.bad(rule, oc, f'{fname} writes {oname} in the wrong order / on the wrong side: `{viol[:200]}`', node=fi0.node, file=fi0.file)
        elif nall:
            col.ok(rule, oc, f'{fname}: {oname} appear in the required order in {nall} text forms', node=fi0.node, file=fi0.file)
        else:
            col.unk(rule, oc, f'{fname}: no text form contains all of {oname}', node=fi0.node, file=fi0.file)
    if not bad and require_some is not None and not any(re.compile(require_some, flags).fullmatch(s) for s in shown):
        if any('?' in s or s == H for s in shown):
            col.unk(rule, cons, f'{fname}: no text form with the statement itself could be followed', node=fi0.node, file=fi0.file)
        else:
            col.bad(rule, cons, f'{fname} never returns the statement "{what}" (its text forms are {shown[:4]})', node=fi0.node, file=fi0.file)
        return
    if not bad:
        col.ok(rule, cons, f'{what}: all {len(shown)} text forms of {fname} match (e.g. `{shown[0][:70]}`)', node=fi0.node, file=fi0.file)
        return
    # forms that contain something the evaluator could not follow, or nothing but data, give no verdict; an EMPTY text where the statement is due is evidence
    opaque = [s for s in bad if '?' in s or (s and not re.sub(r'[◦*\s]', '', s))]
    solid = [s for s in bad if s not in opaque]
    if solid:
        col.bad(rule, cons, f'{fname} can return `{solid[0][:120]}` (◦ = data), which is not the form "{what}": a keyword is missing, misspelt or out of place, '
                f'or part of the statement is not emitted', node=fi0.node, file=fi0.file)
    else:
        col.unk(rule, cons, f'{fname}: the text form `{opaque[0][:100]}` could not be followed far enough to compare it with "{what}"', node=fi0.node, file=fi0.file)
