"""Statement-form obligations (shared by C03, C04, C02): the text a renderer returns, evaluated abstractly on every path
(sa/strval.py), has the form of the statement the property describes - keywords spelt and ordered as in the statement,
data only in the holes.  The comparison is layout-insensitive (runs of white space count as one blank) and, for SQL,
case-insensitive; it is also insensitive to HOW the text is assembled (+=, list + join, f-string, helper)."""
from __future__ import annotations

import ast
import re
from typing import Dict, Iterable, List, Optional, Tuple

from ..core import Collector, norm, AnchorMissing
from ..inline import inlined_info
from ..strval import skeletons, show, HOLE, STAR, UNK

H = '◦'


def _squash(s: str) -> str:
    s = re.sub(r'\s+', ' ', s)
    return s.strip()


def module_str_consts(idx, modname: str) -> Dict[str, str]:
    out: Dict[str, str] = {}
    m = idx.modules.get(modname)
    if m is None:
        return out
    for st in m.tree.body:
        if isinstance(st, ast.Assign) and len(st.targets) == 1 and isinstance(st.targets[0], ast.Name) and isinstance(st.value, ast.Constant) \
                and isinstance(st.value.value, str):
            out[st.targets[0].id] = st.value.value
    return out


def form_obligation(ctx, col: Collector, rule: str, mod: str, fname: str, pattern: str, what: str, keep: Iterable[str] = (), flags=re.I,
                    transparent: Iterable[str] = (), require_some: Optional[str] = None, pairs=()) -> None:
    """One obligation `<fname>:form`: every skeleton of the function matches `pattern` (a regex over the squashed skeleton in which
    a data hole is written ◦ and a repeated hole ◦*)."""
    idx = ctx.idx
    try:
        fi0 = idx.func(mod, fname)
    except Exception:
        raise AnchorMissing(f'{mod}:{fname}')
    fi = inlined_info(idx, fi0, depth=2, keep=set(keep))
    cons = f'{fname}:form'
    sks = skeletons(fi.node, unroll=1, transparent=transparent, consts=module_str_consts(idx, fi.module))
    if not sks:
        col.unk(rule, cons, f'{fname} has no returning path whose text could be followed', node=fi0.node, file=fi0.file)
        return
    rx = re.compile(pattern, flags)
    shown = sorted({_squash(show(s)) for _, s in sks})
    bad = [s for s in shown if not rx.fullmatch(s)]
    col.stat(f'skeletons_{fname}', len(shown))
    # (b) condition pairing: a text form that contains <regex> is emitted only on paths on which <literal predicate> holds, and vice versa when `iff`
    for pname, prx, pred, iff, pmsg in pairs:
        prc = re.compile(prx, flags)
        viol = None
        nhit = 0
        for lits, sk in sks:
            txt = _squash(show(sk))
            has = bool(prc.search(txt))
            holds = pred(lits)
            if has:
                nhit += 1
            if has and holds is False:
                viol = viol or (txt, 'although')
            if iff and (not has) and holds is True and '?' not in txt and txt != H:
                viol = viol or (txt, 'without')
        pc = f'{fname}:form:{pname}'
        if viol:
            col.bad(rule, pc, f'{fname}: {pmsg} (text form `{viol[0][:90]}`)', node=fi0.node, file=fi0.file)
        elif nhit:
            col.ok(rule, pc, f'{fname}: the `{pname}` part is emitted under the right condition on {nhit} paths', node=fi0.node, file=fi0.file)
        else:
            col.unk(rule, pc, f'{fname}: no text form contains the `{pname}` part', node=fi0.node, file=fi0.file)
    if not bad and require_some is not None and not any(re.compile(require_some, flags).fullmatch(s) for s in shown):
        if any('?' in s or s == H for s in shown):
            col.unk(rule, cons, f'{fname}: no text form with the statement itself could be followed', node=fi0.node, file=fi0.file)
        else:
            col.bad(rule, cons, f'{fname} never returns the statement "{what}" (its text forms are {shown[:4]})', node=fi0.node, file=fi0.file)
        return
    if not bad:
        col.ok(rule, cons, f'{what}: all {len(shown)} text forms of {fname} match (e.g. `{shown[0][:70]}`)', node=fi0.node, file=fi0.file)
        return
    # forms that contain something the evaluator could not follow, or nothing but data, give no verdict; an EMPTY text where the statement is due is evidence
    opaque = [s for s in bad if '?' in s or (s and not re.sub(r'[◦*\s]', '', s))]
    solid = [s for s in bad if s not in opaque]
    if solid:
        col.bad(rule, cons, f'{fname} can return `{solid[0][:120]}` (◦ = data), which is not the form "{what}": a keyword is missing, misspelt or out of place, '
                f'or part of the statement is not emitted', node=fi0.node, file=fi0.file)
    else:
        col.unk(rule, cons, f'{fname}: the text form `{opaque[0][:100]}` could not be followed far enough to compare it with "{what}"', node=fi0.node, file=fi0.file)
