"""Truthiness of model objects.  `if x:` asks "is x set?" only for classes whose instances are always truthy; a class that defines `__bool__` or `__len__` makes
the same test a question about its CONTENT (an empty sticky note, a database without tables).  This module finds the classes of the package that can be falsy,
the expressions that are tested for truth, and - by declared types (annotations of attributes, parameters, collections) - which classes such an expression may hold."""
import ast
from typing import Dict, List, Optional, Set, Tuple

from ..inline import field_types
from ..pyindex import FuncInfo, PyIndex, walk_no_nested


def falsy_capable(idx: PyIndex) -> Dict[str, str]:
    """class id -> the method that decides its truth value (`__bool__`, else `__len__`), for every package class that has one (own or inherited in the package)."""
    out: Dict[str, str] = {}
    for cid, ci in idx.classes.items():
        for c in idx.mro(cid):
            m = c.methods.get('__bool__') or c.methods.get('__len__')
            if m is not None:
                out[cid] = f'{c.name}.{m.node.name}'
                break
    return out


def attr_classes(idx: PyIndex, attr: str) -> Set[str]:
    """Classes an attribute called `attr` is declared to hold (element classes for collections), over all classes of the package."""
    cache = idx.__dict__.setdefault('_attr_classes', {})
    if attr not in cache:
        out: Set[str] = set()
        for cid in idx.classes:
            out |= field_types(idx, cid, attr)
        cache[attr] = out
    return cache[attr]


def expr_classes(idx: PyIndex, fi: FuncInfo, e: ast.AST, depth: int = 0) -> Set[str]:
    """Classes the value of e (or, for a collection, its elements) may be an instance of, as far as declarations say."""
    if depth > 6 or e is None:
        return set()
    if isinstance(e, ast.Attribute):
        return attr_classes(idx, e.attr)
    if isinstance(e, ast.Starred):
        return expr_classes(idx, fi, e.value, depth + 1)
    if isinstance(e, (ast.Tuple, ast.List, ast.Set)):
        out: Set[str] = set()
        for x in e.elts:
            out |= expr_classes(idx, fi, x, depth + 1)
        return out
    if isinstance(e, (ast.GeneratorExp, ast.ListComp, ast.SetComp)):
        return expr_classes(idx, fi, e.elt, depth + 1) if not (isinstance(e.elt, ast.Name) and any(
            isinstance(g.target, ast.Name) and g.target.id == e.elt.id for g in e.generators)) else expr_classes(idx, fi, e.generators[0].iter, depth + 1)
    if isinstance(e, ast.IfExp):
        return expr_classes(idx, fi, e.body, depth + 1) | expr_classes(idx, fi, e.orelse, depth + 1)
    if isinstance(e, ast.BoolOp):
        out = set()
        for x in e.values:
            out |= expr_classes(idx, fi, x, depth + 1)
        return out
    if isinstance(e, ast.Call):
        ci = idx.class_of(fi.module, e.func) if isinstance(e.func, (ast.Name, ast.Attribute)) else None
        if ci is not None:
            return {ci.id}
        if isinstance(e.func, ast.Name) and e.func.id in ('list', 'tuple', 'sorted', 'reversed', 'iter', 'filter', 'set') and e.args:
            return expr_classes(idx, fi, e.args[-1], depth + 1)
        return set()
    if isinstance(e, ast.Name):
        fn = fi.node
        out = set()
        # parameter annotation
        if isinstance(fn, (ast.FunctionDef, ast.AsyncFunctionDef)):
            for a in list(fn.args.args) + list(fn.args.kwonlyargs) + list(fn.args.posonlyargs):
                if a.arg == e.id and a.annotation is not None:
                    out |= idx.ann_classes(fi.module, a.annotation)
        for n in ast.walk(fn):
            if isinstance(n, ast.Assign) and len(n.targets) == 1 and isinstance(n.targets[0], ast.Name) and n.targets[0].id == e.id:
                out |= expr_classes(idx, fi, n.value, depth + 1)
            elif isinstance(n, ast.AnnAssign) and isinstance(n.target, ast.Name) and n.target.id == e.id:
                out |= idx.ann_classes(fi.module, n.annotation)
                if n.value is not None:
                    out |= expr_classes(idx, fi, n.value, depth + 1)
            elif isinstance(n, ast.For) and isinstance(n.target, ast.Name) and n.target.id == e.id:
                out |= expr_classes(idx, fi, n.iter, depth + 1)
            elif isinstance(n, ast.comprehension) and isinstance(n.target, ast.Name) and n.target.id == e.id:
                out |= expr_classes(idx, fi, n.iter, depth + 1)
        return out
    return set()


def truth_tested(fn: ast.AST) -> List[Tuple[ast.AST, ast.AST]]:
    """(site, expression) for every expression of fn that is evaluated for its truth value: tests of if/while/conditional expressions/comprehension filters,
    operands of `not` / `and` / `or` in such positions, arguments of bool(), and the elements `filter(None, xs)` drops."""
    out: List[Tuple[ast.AST, ast.AST]] = []

    def test(site, t):
        if isinstance(t, ast.BoolOp):
            for v in t.values:
                test(site, v)
        elif isinstance(t, ast.UnaryOp) and isinstance(t.op, ast.Not):
            test(site, t.operand)
        elif isinstance(t, (ast.Name, ast.Attribute, ast.Subscript)):
            out.append((site, t))
    for n in ast.walk(fn):
        if isinstance(n, (ast.If, ast.While, ast.IfExp)):
            test(n, n.test)
        elif isinstance(n, ast.comprehension):
            for c in n.ifs:
                test(n, c)
        elif isinstance(n, ast.Assert):
            test(n, n.test)
        elif isinstance(n, ast.BoolOp):
            # `a and b` / `a or b` used as a value: every operand but the last is tested
            for v in n.values[:-1]:
                test(n, v)
        elif isinstance(n, ast.Call) and isinstance(n.func, ast.Name) and n.func.id == 'bool' and len(n.args) == 1:
            test(n, n.args[0])
        elif isinstance(n, ast.Call) and isinstance(n.func, ast.Name) and n.func.id in ('filter', 'filterfalse') and len(n.args) == 2 \
                and isinstance(n.args[0], ast.Constant) and n.args[0].value is None:
            out.append((n, ast.Starred(value=n.args[1], ctx=ast.Load())))
    seen = set()
    uniq = []
    for s, t in out:
        if id(t) not in seen:
            seen.add(id(t))
            uniq.append((s, t))
    return uniq
