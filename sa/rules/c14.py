"""C14 - comments are captured on the element they belong to and are otherwise inert."""
from __future__ import annotations

import ast
from typing import Dict, List, Optional, Set, Tuple

from ..core import Collector, guarded, acquire_grammar, norm, Unrecognised, AnchorMissing
from ..grammar import (G, Action, named_nodes, names_inner, names_out, walk, flatten_and, action_reads, positional_reads,
                       value_action, save_as_list)
from .. import gtools as gt
from ..pyindex import walk_no_nested, access_path, FuncInfo
from ..paths import function_paths, walk_event, Ev
from ..cond import term
from .c07 import _N

EXPLANATION = (
    'Capture table (grammar IR, results-name flow): for table, enum, enum item, index, reference, project and table group the '
    'rule starts with a comment-capturing skipper whose results name reaches the parse action and is read by it, and nothing '
    'that can immediately precede the rule swallows comments first; for reference, index, column and enum item a trailing '
    'comment capture is available and read. Priority: the parse action is enumerated path by path under the scenarios '
    '"trailing+leading present", "settings comment+leading present", "leading only": the comment finally stored must be the '
    'trailing one, resp. the leading one. Separator agreement: the string the actions join leading comment lines with equals '
    'the one tools.comment splits on and joins with; tools.comment prefixes every line and ends with a line break; '
    'comment_to_dbml/comment_to_sql pass // and --. Emission: every registered render function of a class that has a `comment` '
    'attribute passes model.comment to the comment helper as the first piece of its output. Inertness: no comment token can '
    'reach a results name other than comment/comment_before or a positionally consumed token list.')
RULE_TEXT = 'one obligation per capture-table entry (available / read / leading position / not shadowed), per action x scenario (priority), per join site, per emission site, per positional consumer'
ASSUMPTIONS = ['pyparsing combinator semantics as modelled in sa/grammar.py',
               'decides capture, priority, separators, prefixing and emission structurally; inertness of comments at every admissible position of every document is not decided']
ENGINES = ['pyindex', 'grammar', 'paths', 'specialise']
TECHNIQUE = 'static analysis (ast): results-name flow and adjacency on the grammar IR; three-valued path evaluation of the parse actions; template shape of the comment helper; call-site rules on the registered renderers; parse actions read with value helpers in place; stores-unconditionally obligations'

LEADING = 'comment_before'
TRAILING = 'comment'
LEADING_ELEMENTS = {      # element -> parse action bound to its rule (property statement)
    'table': 'parse_table', 'enum': 'parse_enum', 'enum item': 'parse_enum_item', 'index': 'parse_index',
    'reference': 'parse_ref', 'project': 'parse_project', 'table group': 'parse_table_group',
}
TRAILING_ELEMENTS = {'reference': 'parse_ref', 'index': 'parse_index', 'column': 'parse_column', 'enum item': 'parse_enum_item'}


def _reads_of(g: G, fname: str) -> Dict[str, list]:
    for a in g.actions:
        if a.name == fname:
            return action_reads(a)
    return {}


def _action(g: G, fname: str) -> Action:
    for a in g.actions:
        if a.name == fname:
            return a
    raise AnchorMissing(fname)


# ----------------------------------------------------------------------------------------------
# three-valued evaluation of an action under a scenario
# ----------------------------------------------------------------------------------------------

def _and3(vals):
    if any(v is False for v in vals):
        return False
    if all(v is True for v in vals):
        return True
    return None


def _not3(v):
    return None if v is None else (not v)


class ActionSim:
    idx = None          # set by run(): the program index (module-level names)

    def __init__(self, act: Action, scen: Dict[str, bool]):
        self.act = act
        self.tok = act.tok_param()
        self.scen = scen

    def ev_term(self, t, st) -> Optional[bool]:
        k = t[0]
        if k == 'not':
            return _not3(self.ev_term(t[1], st))
        if k == 'and':
            return _and3([self.ev_term(x, st) for x in t[1]])
        if k == 'or':
            return _not3(_and3([_not3(self.ev_term(x, st)) for x in t[1]]))
        if k == 'const':
            return t[1]
        if k == 'in':
            key, cont = t[1], t[2]
            if not (key.startswith("'") or key.startswith('"')):
                return None
            name = key[1:-1]
            if cont == self.tok:
                return self.scen.get(name)
            if cont in (f"{self.tok}['settings']",) or cont in st['settings_alias']:
                if name == TRAILING:
                    return self.scen.get('settings') and self.scen.get('settings_comment')
                return None
            if cont in st['dicts']:
                if name == TRAILING:
                    return st['dicts'][cont]['has']
                return None
            return None
        if k == 'truthy':
            v = t[1]
            for nm in ('settings', TRAILING, LEADING):
                if v in (f"{self.tok}.get('{nm}')", f"{self.tok}.get(\"{nm}\")"):
                    return self.scen.get(nm)
            if v in st['settings_alias']:
                return self.scen.get('settings')
            return None
        return None

    def classify(self, e: ast.AST, st) -> Optional[str]:
        kinds: Set[str] = set()
        for n in ast.walk(e):
            if isinstance(n, ast.Subscript) and isinstance(n.slice, ast.Constant):
                base = access_path(n.value)
                if base == self.tok and n.slice.value == LEADING:
                    kinds.add('leading')
                if base == self.tok and n.slice.value == TRAILING:
                    kinds.add('trailing')
                if n.slice.value == TRAILING and (base == f"{self.tok}['settings']" or base in st['settings_alias']):
                    kinds.add('trailing')
            if isinstance(n, ast.Name) and n.id in st['tags']:
                kinds.add(st['tags'][n.id])
        if len(kinds) == 1:
            return kinds.pop()
        return 'mixed' if kinds else None

    def run(self) -> List[Tuple[Dict, Tuple[Ev, ...]]]:
        """Final states of all feasible paths that end in a normal return."""
        out = []
        node = self.act.node
        for path in function_paths(node, unroll=1):
            st = {'dicts': {}, 'tags': {}, 'settings_alias': set()}
            feasible = True
            for ev in path:
                if ev.kind == 'test':
                    v = self.ev_term(term(ev.node, True), st)
                    if v is not None and v != ev.outcome:
                        feasible = False
                        break
                elif ev.kind == 'iter':
                    pass
                elif ev.kind == 'stmt':
                    self.stmt(ev.node, st)
            if feasible and path and path[-1].kind == 'return':
                out.append((st, path))
        return out

    def const_members(self, e: ast.AST) -> Optional[List[object]]:
        """the literal members of a tuple/list/set display or of a module-level name bound to one"""
        if isinstance(e, ast.Name) and self.idx is not None:
            sym = self.idx.resolve(self.act.module, e.id)
            e = sym.node if sym is not None and sym.kind == 'assign' else e
        if isinstance(e, (ast.Tuple, ast.List, ast.Set)) and all(isinstance(x, ast.Constant) for x in e.elts):
            return [x.value for x in e.elts]
        if isinstance(e, ast.Dict) and all(isinstance(x, ast.Constant) for x in e.keys):
            return [x.value for x in e.keys]
        return None

    def stmt(self, s: ast.AST, st):
        if isinstance(s, ast.Assign) and len(s.targets) == 1:
            t, v = s.targets[0], s.value
            if isinstance(t, ast.Name):
                if isinstance(v, ast.Dict):
                    keys = [k.value for k in v.keys if isinstance(k, ast.Constant)]
                    st['dicts'][t.id] = {'has': TRAILING in keys, 'src': None}
                    return
                # settings alias: tok.get('settings', {}) / tok['settings']
                sv = norm(v)
                if sv.startswith(f"{self.tok}.get('settings'") or sv == f"{self.tok}['settings']":
                    st['settings_alias'].add(t.id)
                    return
                c = self.classify(v, st)
                if c:
                    st['tags'][t.id] = c
                return
            if isinstance(t, ast.Subscript) and isinstance(t.value, ast.Name) and isinstance(t.slice, ast.Constant) \
                    and t.slice.value == TRAILING:
                d = st['dicts'].setdefault(t.value.id, {'has': False, 'src': None})
                d['has'] = True
                d['src'] = self.classify(v, st) or 'other'
                return
        if isinstance(s, ast.Expr) and isinstance(s.value, ast.Call) and isinstance(s.value.func, ast.Attribute) \
                and s.value.func.attr == 'update' and isinstance(s.value.func.value, ast.Name) and s.value.args:
            dname = s.value.func.value.id
            arg = s.value.args[0]
            d = st['dicts'].setdefault(dname, {'has': False, 'src': None})
            ap = access_path(arg)
            if ap == f"{self.tok}['settings']" or (isinstance(arg, ast.Name) and arg.id in st['settings_alias']):
                if self.scen.get('settings') and self.scen.get('settings_comment'):
                    d['has'] = True
                    d['src'] = 'trailing'
                # settings without a comment (or absent) contribute nothing to the comment key
            else:
                # update((K, V) for ... [if K in CONSTANTS]): keys that are literals (or range over a literal tuple) other than the comment key contribute nothing
                keys = None
                if isinstance(arg, (ast.GeneratorExp, ast.ListComp)) and len(arg.generators) == 1 and isinstance(arg.elt, ast.Tuple) and len(arg.elt.elts) == 2:
                    k = arg.elt.elts[0]
                    if isinstance(k, ast.Constant):
                        keys = [k.value]
                    elif isinstance(k, ast.Name):
                        for c in arg.generators[0].ifs:
                            for cmp_ in ast.walk(c):
                                if isinstance(cmp_, ast.Compare) and len(cmp_.ops) == 1 and isinstance(cmp_.ops[0], ast.In) and isinstance(cmp_.left, ast.Name) \
                                        and cmp_.left.id == k.id:
                                    keys = self.const_members(cmp_.comparators[0])
                elif isinstance(arg, ast.Dict) and all(isinstance(k, ast.Constant) for k in arg.keys):
                    keys = [k.value for k in arg.keys]
                if keys is not None and TRAILING not in keys:
                    return
                d['has'] = None
                d['src'] = 'other'


def run(ctx, col: Collector):
    idx = ctx.idx
    ActionSim.idx = idx
    gm = acquire_grammar(ctx, col, 'C14-grammar')
    pm = gt.parent_map(gm.all_roots())

    # ---------------------------------------------------------------- C14-capture
    def capture():
        n_rows = 0
        for elem, fname in LEADING_ELEMENTS.items():
            nodes = gm.nodes_with_action(fname)
            if not nodes:
                raise AnchorMissing(f'rule bound to {fname}')
            for g in nodes:
                n_rows += 1
                cons = f'{elem}:{g.var or g.line}:leading'
                lc = gt.leading_capture(g)
                col.check(lc is not None and lc[1] == LEADING, 'C14-capture', cons + ':position',
                          f'the {elem} rule starts with a skipper that captures comments as `{LEADING}`',
                          f'the {elem} rule `{g.var}` does not start with a comment-capturing skipper named `{LEADING}` '
                          f'(found: {lc[1] if lc else "none"}): a comment block above the {elem} is not stored on it', node=_N(g), file=g.file)
                col.check(LEADING in names_inner(g), 'C14-capture', cons + ':available',
                          f'`{LEADING}` reaches {fname}', f'the results name `{LEADING}` cannot reach {fname} from rule `{g.var}`',
                          node=_N(g), file=g.file)
                col.check(LEADING in _reads_of(g, fname), 'C14-capture', cons + ':read', f'{fname} reads `{LEADING}`',
                          f'{fname} never reads tok[{LEADING!r}]: the comment above the {elem} is dropped', node=_N(g), file=g.file)
                if lc is not None:
                    # block swallowers only: an optional trailing comment or `comments + line end` stay on the previous line
                    pre = [p for p in gt.preceders(g, pm) if gt.is_blank_skipper(p) and gt.swallows_comment_lines(p)
                           and gt.captures_comment(p) != LEADING]
                    col.check(not pre, 'C14-capture', cons + ':not-shadowed',
                              f'nothing that can precede the {elem} rule swallows comment lines first',
                              f'a comment-swallowing skipper ({pre[0].label() if pre else ""} at {pre[0].file if pre else ""}:{pre[0].line if pre else 0}) can '
                              f'match immediately before the {elem} rule `{g.var}`: the comment block above the {elem} is consumed before '
                              f'the capturing skipper sees it', node=_N(g), file=g.file)
        for elem, fname in TRAILING_ELEMENTS.items():
            for g in gm.nodes_with_action(fname):
                n_rows += 1
                cons = f'{elem}:{g.var or g.line}:trailing'
                avail = TRAILING in names_inner(g)
                col.check(avail, 'C14-capture', cons + ':available', f'a trailing comment reaches {fname} as `{TRAILING}`',
                          f'no trailing-comment capture named `{TRAILING}` can reach {fname} from rule `{g.var}`', node=_N(g), file=g.file)
                col.check(TRAILING in _reads_of(g, fname), 'C14-capture', cons + ':read', f'{fname} reads `{TRAILING}`',
                          f'{fname} never reads tok[{TRAILING!r}]: a trailing comment on the {elem} line is dropped (for an element '
                          f'without settings it is lost entirely)', node=_N(g), file=g.file)
                # the capture is a direct part of the rule's own line: it must come after the element's name/subject
                caps = named_nodes(g, TRAILING)
                col.check(all(gt.is_comment(c) for c in caps) and bool(caps), 'C14-capture', cons + ':is-comment',
                          f'`{TRAILING}` names the comment token ({len(caps)} capture sites)',
                          f'`{TRAILING}` in rule `{g.var}` does not name the comment token', node=_N(g), file=g.file)
                # settings lists of this element also capture a trailing comment (after `]`)
                for s in named_nodes(g, 'settings'):
                    sa = value_action(s)
                    if sa is None:
                        continue
                    sreads = action_reads(sa)
                    if TRAILING in names_inner(s):
                        col.check(TRAILING in sreads, 'C14-capture', f'{elem}:{s.var or s.line}:settings-comment:read',
                                  f'{sa.name} reads the comment after the settings list',
                                  f'{sa.name} never reads tok[{TRAILING!r}] although its rule captures it: a comment after `]` is dropped',
                                  node=_N(s), file=s.file)
        # sibling rule: wherever an element line has an optional settings list, a comment between the element and `[`
        # is accepted and captured (all five sites agree on the pinned tree)
        n_bs = 0
        for elem, fname in TRAILING_ELEMENTS.items():
            for g in gm.nodes_with_action(fname):
                for sq in sequences_with(g, 'settings'):
                    n_bs += 1
                    i = [k for k, x in enumerate(sq) if x.name == 'settings' or (x.kind == 'repeat' and x.kids and x.kids[0].name == 'settings')][0]
                    prev = [x for x in sq[:i] if x.kind not in gt.ZERO_WIDTH]
                    okp = bool(prev) and gt.captures_comment(prev[-1]) == TRAILING
                    col.check(okp, 'C14-capture', f'{elem}:{g.var or g.line}:comment-before-settings@{sq[i].line}',
                              'a comment between the element and its settings list is captured',
                              f'in rule `{g.var}` the optional settings list is not preceded by the trailing-comment capture: a comment between '
                              f'the {elem} and `[` makes the settings unparseable or silently dropped (adding a comment changes the result)',
                              node=_N(sq[i]), file=sq[i].file)
        col.floor('C14-capture', 'settings positions', n_bs, 5)
        col.floor('C14-capture', 'capture table rows', n_rows, 14)
    guarded(col, 'C14-capture', 'capture-table', capture)

    # ---------------------------------------------------------------- C14-roundtrip
    def roundtrip():
        # the DBML writer puts the comment on the lines above the element (C14-emit: first piece, line-terminated), so the
        # reader must capture a comment block above that kind of element
        reader = {'Table': 'parse_table', 'Column': 'parse_column', 'Index': 'parse_index', 'Reference': 'parse_ref', 'Enum': 'parse_enum',
                  'EnumItem': 'parse_enum_item', 'Project': 'parse_project', 'TableGroup': 'parse_table_group'}
        n = 0
        for rid, table in idx.registry.items():
            if '.dbml.' not in idx.classes[rid].module:
                continue
            for mid in table:
                mcls = idx.classes[mid]
                if 'comment' not in idx.init_attrs(mid):
                    continue
                fname = reader.get(mcls.name)
                if fname is None:
                    raise Unrecognised(f'no reader rule known for class {mcls.name}')
                for g in gm.nodes_with_action(fname):
                    n += 1
                    lc = gt.leading_capture(g)
                    reads = LEADING in _reads_of(g, fname)
                    pre = [p for p in gt.preceders(g, pm) if gt.is_blank_skipper(p) and gt.swallows_comment_lines(p)
                           and gt.captures_comment(p) != LEADING]
                    okr = lc is not None and lc[1] == LEADING and reads and not pre
                    why = ('no leading capture' if lc is None else 'capture not read' if not reads else
                           (f'the skipper at {pre[0].file}:{pre[0].line} swallows the comment lines before the capturing skipper' if pre else ''))
                    col.check(okr, 'C14-roundtrip', f'{mcls.name}:{fname}:{g.var or g.line}:leading-capture',
                              f'a comment written above a {mcls.name} is read back by {fname}',
                              f'the DBML renderer writes {mcls.name}.comment on the lines above the element, but rule `{g.var}` does not read a '
                              f'comment block from there ({why}): the comment is lost when the rendered DBML is parsed again',
                              node=_N(g), file=g.file)
        col.floor('C14-roundtrip', 'writer/reader pairs', n, 9)
    guarded(col, 'C14-roundtrip', 'roundtrip', roundtrip)

    # ---------------------------------------------------------------- C14-priority
    def priority():
        n = 0
        for fname in sorted(set(TRAILING_ELEMENTS.values())):
            nodes = gm.nodes_with_action(fname)
            if not nodes:
                raise AnchorMissing(fname)
            act = _action(nodes[0], fname)
            reads = action_reads(act)
            # small value helpers (`comment_before_text(tok)`) are read in place
            afi = idx.funcs.get(f'{act.module}:{act.name}')
            if afi is not None and act.node is afi.node:        # (the grammar model already holds parse actions with their helpers in place)
                from ..inline import inline_fragments
                afi2 = inline_fragments(idx, afi)
                if afi2 is not afi:
                    import copy as _copy
                    act = _copy.copy(act)
                    act.node = afi2.node
                    reads = action_reads(act)
            has_settings_comment = any(TRAILING in names_inner(s) for g in nodes for s in named_nodes(g, 'settings'))
            scens = [('trailing+leading', {TRAILING: True, LEADING: True, 'settings': False, 'settings_comment': False}, 'trailing'),
                     ('leading-only', {TRAILING: False, LEADING: True, 'settings': False, 'settings_comment': False}, 'leading'),
                     ('trailing-only', {TRAILING: True, LEADING: False, 'settings': False, 'settings_comment': False}, 'trailing')]
            if has_settings_comment:
                scens.append(('settings-comment+leading', {TRAILING: False, LEADING: True, 'settings': True, 'settings_comment': True}, 'trailing'))
                scens.append(('settings(no comment)+leading', {TRAILING: False, LEADING: True, 'settings': True, 'settings_comment': False}, 'leading'))
            if LEADING not in reads:
                scens = [s for s in scens if s[0] == 'trailing-only']
            for sname, scen, want in scens:
                n += 1
                sim = ActionSim(act, scen)
                finals = sim.run()
                if not finals:
                    raise Unrecognised(f'{fname}: no feasible path under scenario {sname}', act.node)
                bad = None
                for st, path in finals:
                    # the dict that carries the comment: any tracked dict; all must agree
                    srcs = {d['src'] if d['has'] else ('other' if d['has'] is None and d['src'] == 'other' else None) for d in st['dicts'].values()} or {None}
                    if want not in srcs or len(srcs - {want, None}) > 0 or (srcs == {None}):
                        bad = (srcs, path)
                        break
                    if None in srcs and len(st['dicts']) == 1:
                        bad = (srcs, path)
                        break
                cons = f'{fname}:{sname}'
                if bad is not None and 'other' in bad[0]:
                    col.unk('C14-priority', cons, f'{fname}: with {sname.replace("+", " and ")} present there is a path on which the comment stored comes from a value this '
                            f'rule cannot trace to the leading or the trailing capture', node=act.node, file=act.module.replace('.', '/') + '.py')
                elif bad is None:
                    col.ok('C14-priority', cons, f'{fname}: on all {len(finals)} feasible paths the stored comment is the {want} one',
                           node=act.node, file=act.module.replace('.', '/') + '.py')
                else:
                    got = sorted(str(s) for s in bad[0])
                    col.bad('C14-priority', cons, f'{fname}: with {sname.replace("+", " and ")} present there is a path on which the comment finally '
                            f'stored is {got} instead of the {want} one'
                            + (' (the trailing comment must win over the one above)' if want == 'trailing' else ''),
                            node=act.node, file=act.module.replace('.', '/') + '.py')
        col.floor('C14-priority', 'action x scenario', n, 12)
    guarded(col, 'C14-priority', 'priority', priority)

    # ---------------------------------------------------------------- C14-separator / C14-prefix
    def separators():
        from .common import inline_single_assignment_locals
        from ..strctx import flatten_concat
        tools = idx.func('pydbml.tools', 'comment')
        params = [a.arg for a in tools.node.args.args]
        if len(params) != 2:
            raise Unrecognised('tools.comment does not take (text, prefix)', tools.node)
        val, comb = params
        tnode = inline_single_assignment_locals(tools.node)
        rets = [n for n in walk_no_nested(tnode) if isinstance(n, ast.Return)]
        fpath = tools.file
        # the return that builds the comment line by line is the one analysed below; any other return must not hand the text back as it came
        joins = [r for r in rets if r.value is not None and any(isinstance(x, ast.Call) and isinstance(x.func, ast.Attribute) and x.func.attr == 'join' for x in ast.walk(r.value))]
        for r in rets:
            if r in joins[:1]:
                continue
            v = r.value
            if v is None or (isinstance(v, ast.Constant) and v.value in ('', None)):
                col.ok('C14-prefix', f'tools.comment:other-return@{r.lineno - tools.node.lineno}', 'an empty result for an empty comment', node=r, file=fpath)
            elif any(isinstance(x, ast.Name) and x.id == val for x in ast.walk(v)):
                col.bad('C14-prefix', f'tools.comment:other-return@{r.lineno - tools.node.lineno}', f'tools.comment has a path that returns `{norm(v)[:60]}`: the comment text goes out '
                        f'without every line being prefixed with the marker - the second line of such a comment is read as a statement of the output language',
                        node=r, file=fpath)
            else:
                col.unk('C14-prefix', f'tools.comment:other-return@{r.lineno - tools.node.lineno}', f'tools.comment also returns `{norm(v)[:60]}`, which this rule cannot relate to the '
                        f'comment text', node=r, file=fpath)
        if len(joins) != 1:
            raise Unrecognised(f'tools.comment has {len(joins)} returns that join the comment lines', tools.node)
        e = joins[0].value
        # shape 1: SEP.join(<line template> for line in val.split(S)) + TERMINATOR ; shape 2: ''.join(<line template ending in a line break> ...)
        term_s = None
        j = e
        if isinstance(e, ast.BinOp) and isinstance(e.op, ast.Add) and isinstance(e.right, ast.Constant):
            term_s, j = e.right.value, e.left
        if not (isinstance(j, ast.Call) and isinstance(j.func, ast.Attribute) and j.func.attr == 'join'
                and isinstance(j.func.value, ast.Constant) and len(j.args) == 1 and isinstance(j.args[0], (ast.GeneratorExp, ast.ListComp))):
            raise Unrecognised(f'tools.comment does not join a comprehension over the lines: `{norm(e)[:80]}`', e)
        join_sep = j.func.value.value
        comp = j.args[0]
        gen = comp.generators[0]
        it = gen.iter
        if not (len(comp.generators) == 1 and isinstance(it, ast.Call) and isinstance(it.func, ast.Attribute) and it.func.attr in ('split', 'splitlines')
                and norm(it.func.value) == val):
            raise Unrecognised(f'tools.comment does not iterate over {val}.split(...): `{norm(it)}`', it)
        split_sep = it.args[0].value if it.args and isinstance(it.args[0], ast.Constant) else ('\n' if it.func.attr == 'splitlines' else None)
        lv = gen.target.id if isinstance(gen.target, ast.Name) else None
        pieces = flatten_concat(comp.elt)
        lits = [p.value if isinstance(p, ast.Constant) else None for p in pieces]
        elt_ends_nl = bool(pieces) and isinstance(pieces[-1], ast.Constant) and str(pieces[-1].value).endswith('\n')
        col.check(not gen.ifs, 'C14-prefix', 'tools.comment:every-line', 'every line of the comment is emitted (no filter)',
                  'tools.comment filters lines: some comment lines are dropped', node=comp, file=fpath)
        sep_ok = split_sep == '\n' and ((join_sep == '\n' and not elt_ends_nl) or (join_sep == '' and elt_ends_nl))
        col.check(sep_ok, 'C14-prefix', 'tools.comment:line-separator', 'lines are split on the line break and every emitted line ends with one',
                  f'tools.comment splits on {split_sep!r}, joins with {join_sep!r} and builds each line as `{norm(comp.elt)[:50]}`: lines of a multi-line comment are merged '
                  f'or not separated, so comment text can run into a statement / lose its prefix', node=j, file=fpath)
        term_ok = elt_ends_nl or (isinstance(term_s, str) and term_s.endswith('\n') and term_s.strip() == '')
        col.check(term_ok, 'C14-prefix', 'tools.comment:terminator', 'the comment block ends with a line break',
                  f'tools.comment terminates the block with {term_s!r}: the element text would continue on the comment line', node=e, file=fpath)
        # the prefix parameter comes first on every line, then the line text, nothing that could break the line in between
        def src(p):
            return norm(p.value) if isinstance(p, ast.FormattedValue) else norm(p)
        first_is_prefix = bool(pieces) and not isinstance(pieces[0], ast.Constant) and src(pieces[0]) == comb
        has_line = any(not isinstance(p, ast.Constant) and src(p) == lv for p in pieces[1:])
        mid = ''.join(str(p.value) for p in pieces[1:-1 if elt_ends_nl else None] if isinstance(p, ast.Constant))
        col.check(first_is_prefix and has_line and '\n' not in mid, 'C14-prefix', 'tools.comment:prefix-first',
                  'each emitted line starts with the comment marker followed by the line text',
                  f'tools.comment builds each line as `{norm(comp.elt)[:60]}`: the marker is not the first thing on every line', node=comp.elt, file=fpath)
        # the two wrappers
        for mod, fn, marker in (('pydbml.renderer.dbml.default.utils', 'comment_to_dbml', '//'),
                                ('pydbml.renderer.sql.default.utils', 'comment_to_sql', '--')):
            fi = idx.func(mod, fn)
            p = [a.arg for a in fi.node.args.args][0]
            rets = [n for n in walk_no_nested(fi.node) if isinstance(n, ast.Return) and n.value is not None]
            ok = False
            got = ''
            for r in rets:
                c = r.value
                if isinstance(c, ast.Call):
                    sym = idx.resolve_expr(fi.module, c.func)
                    if sym is not None and sym.kind == 'func' and (sym.module, sym.name) == ('pydbml.tools', 'comment'):
                        from ..calls import bind_args
                        b = bind_args(c, tools.node)
                        got = norm(b.get(comb)) if b.get(comb) is not None else ''
                        ok = (b.get(val) is not None and norm(b[val]) == p and isinstance(b.get(comb), ast.Constant) and b[comb].value == marker)
            col.check(ok and len(rets) == 1, 'C14-prefix', f'{fn}:marker', f'{fn} prefixes with {marker!r}',
                      f'{fn} does not return tools.comment(<text>, {marker!r}) (marker passed: {got}): comment lines would not be comments in the output',
                      node=fi.node, file=fi.file)
        # join sites in the parse actions use the separator tools.comment splits on
        nj = 0
        for g in gm.action_nodes():
            for a in g.actions:
                if a.node is None or LEADING not in action_reads(a):
                    continue
                for x in ast.walk(a.node):
                    if isinstance(x, ast.Call) and isinstance(x.func, ast.Attribute) and x.func.attr == 'join' and x.args \
                            and any(isinstance(s, ast.Subscript) and isinstance(s.slice, ast.Constant) and s.slice.value == LEADING
                                    for s in ast.walk(x.args[0])):
                        nj += 1
                        sep = x.func.value.value if isinstance(x.func.value, ast.Constant) else None
                        cons = f'{a.name}:join'
                        if any(o.construct == cons for o in col.obs):
                            continue
                        col.check(sep == split_sep and sep is not None, 'C14-separator', cons,
                                  f'{a.name} joins the captured comment lines with the separator tools.comment splits on',
                                  f'{a.name} joins the comment lines above the element with {sep!r} but the renderers split comments on {split_sep!r}: '
                                  f'a multi-line comment block is stored/rendered as one line', node=x, file=a.module.replace('.', '/') + '.py')
                        # each captured comment contributes its text token
                        comp2 = x.args[0]
                        if isinstance(comp2, (ast.GeneratorExp, ast.ListComp)):
                            tv = comp2.generators[0].target
                            okc = isinstance(comp2.elt, ast.Subscript) and isinstance(tv, ast.Name) and norm(comp2.elt.value) == tv.id \
                                and isinstance(comp2.elt.slice, ast.Constant) and comp2.elt.slice.value == 0 and not comp2.generators[0].ifs
                            col.check(okc, 'C14-separator', f'{a.name}:join-element', 'every captured comment contributes its text',
                                      f'{a.name} builds the joined comment from `{norm(comp2.elt)}`', node=comp2, file=a.module.replace('.', '/') + '.py')
        col.floor('C14-separator', 'join sites', nj, 7)
    guarded(col, 'C14-separator', 'separators', separators)

    # ---------------------------------------------------------------- C14-emit
    def emit():
        n = 0
        for rid, table in idx.registry.items():
            rcls = idx.classes[rid]
            lang = 'dbml' if '.dbml.' in rcls.module else 'sql'
            helper = 'comment_to_dbml' if lang == 'dbml' else 'comment_to_sql'
            for mid, funcs in table.items():
                mcls = idx.classes[mid]
                if 'comment' not in idx.init_attrs(mid):
                    continue
                for fi in funcs:
                    n += 1
                    ok, why = emits_comment_first(idx, fi, helper)
                    col.check(ok, 'C14-emit', f'{lang}:{mcls.name}:{fi.qualname}',
                              f'{fi.qualname} emits {mcls.name}.comment through {helper} as the first piece of its output',
                              f'{lang.upper()} renderer {fi.qualname} for {mcls.name}: {why}', node=fi.node, file=fi.file)
        col.floor('C14-emit', 'registered renderers of classes with a comment', n, 14)
    guarded(col, 'C14-emit', 'emission', emit)

    # ---------------------------------------------------------------- C14-inert
    def inert():
        n = 0
        seen: Set[int] = set()
        for g in gm.reachable():
            if g.uid in seen:
                continue
            seen.add(g.uid)
            # (a) a results name other than the comment names must not contain unsuppressed comment tokens
            if g.name and g.name not in (TRAILING, LEADING) and not gt.is_comment(g) and value_action(g) is None:
                inner = gt.unsuppressed_comments(g)
                n += 1
                col.check(not inner, 'C14-inert', f'name:{g.module.split(".")[-1]}:{g.name}@{g.line}',
                          f'no comment token can become part of `{g.name}`',
                          f'the element named `{g.name}` ({g.file}:{g.line}) contains an unsuppressed comment token '
                          f'({inner[0].file if inner else ""}:{inner[0].line if inner else 0}): comment text would be stored as part of `{g.name}`',
                          node=_N(g), file=g.file)
            # (b) groups / combines are consumed positionally
            if g.kind in ('group', 'combine'):
                inner = gt.unsuppressed_comments(g)
                n += 1
                col.check(not inner, 'C14-inert', f'{g.kind}:{g.module.split(".")[-1]}@{g.line}',
                          f'no comment token inside the {g.kind}', f'{g.kind} at {g.file}:{g.line} contains an unsuppressed comment token: '
                          f'its text becomes part of the value', node=_N(g), file=g.file)
            # (c) actions that read their tokens by position
            for a in g.actions:
                if a.kind == 'internal' or a.node is None:
                    continue
                pos = positional_reads(a)
                if pos and value_action(g) is a and not gt.is_comment(g):       # (an action on the comment token itself works on the comment text by design)
                    inner = gt.unsuppressed_comments(g)
                    n += 1
                    col.check(not inner, 'C14-inert', f'positional:{a.name[:40]}@{g.module.split(".")[-1]}:{g.line}',
                              'the action reads tokens by position and no comment token can be among them',
                              f'{a.name} reads `{norm(pos[0])}` by position but its rule ({g.file}:{g.line}) lets a comment token into the token list',
                              node=_N(g), file=g.file)
        col.floor('C14-inert', 'named elements / positional consumers', n, 60)
        # sibling rule: the comment token is the same language wherever comments are accepted (suppressed or captured)
        descs: Dict[Tuple, G] = {}
        ntok = 0
        for g in gm.reachable():
            if g.kind in ('first', 'or', 'regex'):
                f = gt.comment_forms(g)
                if f is not None:
                    ntok += 1
                    descs.setdefault(tuple(sorted(f)), g)
        col.floor('C14-inert', 'comment token occurrences', ntok, 3)
        if len(descs) > 1:
            items = sorted(descs.items(), key=lambda kv: (kv[1].module, kv[1].line))
            a, b = items[0], items[1]
            col.bad('C14-inert', 'comment-token:same-everywhere',
                    f'the grammar uses different comment tokens in different places: {a[1].var or a[1].label()} at {a[1].file}:{a[1].line} accepts {list(a[0])} but '
                    f'{b[1].var or b[1].label()} at {b[1].file}:{b[1].line} accepts {list(b[0])} (form, line comment may span lines): the same comment is '
                    f'read differently depending on where it stands, so adding it changes more than `comment` attributes', node=_N(b[1]), file=b[1].file)
        else:
            col.ok('C14-inert', 'comment-token:same-everywhere', f'all {ntok} comment token occurrences accept the same comment language')
        for forms, g in descs.items():
            spans = [f for f in forms if f[0] == 'line' and f[1]]
            col.check(not spans, 'C14-inert', f'comment-token:{g.module.split(".")[-1]}@{g.line}:line-comment-single-line',
                      'a `//` comment covers exactly the rest of its line', f'the comment token at {g.file}:{g.line} lets a `//` comment swallow the next line '
                      f'(line continuation): adding such a comment removes the following element from the parsed database', node=_N(g), file=g.file)
    guarded(col, 'C14-inert', 'inertness', inert)

    def inert_equality():
        # a comment changes nothing but `comment` attributes - in particular not whether two declarations of one relationship count as the same reference
        # (rule shared with C06-eq: Reference equality is the identity of the relationship only)
        sub = ctx.sub('c06', col.prop)
        n = 0
        for o in sub.obs:
            if o.rule == 'C06-eq' and o.construct in ('Reference.eq:only-identity', 'SQLObject.__eq__:drops-fields', 'Reference.__eq__:inherited'):
                n += 1
                col.obs.append(type(o)(col.prop, 'C14-inert', 'reference-equality:' + o.construct, o.status, o.msg, o.file, o.line, o.extra))
        col.floor('C14-inert', 'reference equality obligations', n, 1)
        # the collected blueprints are dataclasses whose generated equality includes the `comment` field: a declaration that is kept or dropped by comparing
        # blueprints depends on the comments attached to it (rule shared with C01-wiring: every matched element is stored unconditionally)
        sub = ctx.sub('c01', col.prop)
        m = 0
        for o in sub.obs:
            if o.rule == 'C01-wiring' and ':stores-unconditionally:' in o.construct:
                m += 1
                col.obs.append(type(o)(col.prop, 'C14-inert', 'collect:' + o.construct, o.status,
                                       o.msg + (' (the blueprint comparison includes the comment field, so a comment decides whether the declaration is kept)' if o.status == 'refuted' else ''),
                                       o.file, o.line, o.extra))
        col.floor('C14-inert', 'collection obligations', m, 4)
        # ... nor whether a declaration is accepted: a guard of the form `if X in self.<collection>: raise` compares model objects with the generated equality, which
        # covers the `comment` attribute (for every class but Reference).  It is harmless only next to a guard on the NAME that rejects the same duplicates whatever
        # their comments are - otherwise two declarations that differ in a comment only are accepted where the same two without comments are rejected.
        from ..inline import field_types
        from .common import expanded
        eq_ignores = {}
        for ci in idx.classes.values():
            if not ci.module.startswith(('pydbml._classes', 'pydbml.database')):
                continue
            init = idx.lookup_method(ci.id, '__init__')
            has_comment = init is not None and any(a.arg == 'comment' for a in init.node.args.args + init.node.args.kwonlyargs)
            dcf = idx.class_attr(ci.id, 'dont_compare_fields')
            ignored = set(idx.const_tuple(dcf) or ()) if dcf is not None else set()
            own_eq = any('__eq__' in c.methods for c in idx.mro(ci.id) if c.name not in ('SQLObject',))
            eq_ignores[ci.id] = (not has_comment) or ('comment' in ignored) or own_eq
        k = 0
        for fi in idx.all_funcs():
            if not fi.module.startswith(('pydbml._classes', 'pydbml.database')) or not isinstance(fi.node, ast.FunctionDef) or fi.cls is None:
                continue
            fx = expanded(ctx, fi.module, fi.qualname)
            guards = []
            name_guard = False
            for n in ast.walk(fx.node):
                if not (isinstance(n, ast.If) and any(isinstance(x, ast.Raise) for b in n.body for x in ast.walk(b))):
                    continue
                for c in ast.walk(n.test):
                    if isinstance(c, ast.Compare) and len(c.ops) == 1 and isinstance(c.ops[0], ast.In) and isinstance(c.comparators[0], ast.Attribute) \
                            and isinstance(c.comparators[0].value, ast.Name) and c.comparators[0].value.id == 'self' and isinstance(c.left, ast.Name):
                        classes = field_types(idx, fi.cls, c.comparators[0].attr)
                        if classes:
                            guards.append((n, c, classes))
                    if isinstance(c, ast.Compare) and any(isinstance(x, ast.Attribute) and x.attr in ('name', 'full_name', 'alias') for x in ast.walk(c)):
                        name_guard = True
            for n, c, classes in guards:
                k += 1
                sens = sorted(idx.classes[x].name for x in classes if not eq_ignores.get(x, True))
                cons = f'accept:{fi.qualname}:{norm(c)}'
                if not sens:
                    col.ok('C14-inert', cons, f'the equality used by `{norm(c)}` does not cover comments', node=c, file=fi.file)
                elif name_guard:
                    col.ok('C14-inert', cons, f'`{norm(c)}` compares comments too, but a guard on the name in the same function rejects duplicates whatever their comments',
                           node=c, file=fi.file)
                else:
                    col.bad('C14-inert', cons, f'{fi.qualname} rejects a duplicate with `{norm(c)}` only: {"/".join(sens)} equality covers the `comment` attribute and no guard '
                            f'on the name backs it up, so two declarations that differ in a comment only are both accepted while the same two without the comment are '
                            f'rejected - a comment changes what the document parses to', node=c, file=fi.file)
        col.floor('C14-inert', 'duplicate guards by object equality', k, 3)
    guarded(col, 'C14-inert', 'equality', inert_equality)


# ----------------------------------------------------------------------------------------------

def sequences_with(g: G, name: str) -> List[List[G]]:
    """Flattened sequences below g (not crossing value-action nodes) that directly contain the element
    named `name` (possibly inside an optional repetition)."""
    out: List[List[G]] = []
    seen: Set[int] = set()

    def rec(n: G, top: bool):
        if n.uid in seen:
            return
        seen.add(n.uid)
        if not top and (value_action(n) is not None or n.kind in ('suppress', 'group')):
            return
        if n.kind == 'and':
            sq = flatten_and(n)
            if any(x.name == name or (x.kind == 'repeat' and x.kids and x.kids[0].name == name) for x in sq):
                out.append(sq)
        for k in n.kids:
            rec(k, False)
    rec(g, True)
    # drop sequences that are a strict prefix/suffix duplicate (nested And of the same flattened run)
    uniq: List[List[G]] = []
    keys = set()
    for sq in sorted(out, key=len, reverse=True):
        i = [k for k, x in enumerate(sq) if x.name == name or (x.kind == 'repeat' and x.kids and x.kids[0].name == name)][0]
        key = sq[i].uid
        if key in keys:
            continue
        keys.add(key)
        uniq.append(sq)
    return uniq


def emits_comment_first(idx, fi: FuncInfo, helper: str, depth: int = 0) -> Tuple[bool, str]:
    """Does the render function (or a local helper it delegates its whole output to) pass
    <model>.comment to `helper` as the first piece of the output?"""
    model = [a.arg for a in fi.node.args.args][0]

    def helper_calls(f: FuncInfo):
        return [n for n in walk_no_nested(f.node) if isinstance(n, ast.Call) and ((isinstance(n.func, ast.Name) and n.func.id == helper)
                                                                                  or (isinstance(n.func, ast.Attribute) and n.func.attr == helper))]
    if not helper_calls(fi):
        # the comment piece may come from a small fragment helper (`comment_prefix(model)`): read such helpers in place
        from ..inline import inline_fragments
        from ..strctx import ANCHOR_HELPERS
        fi2 = inline_fragments(idx, fi, keep=ANCHOR_HELPERS | {helper})

        def delegates(f: FuncInfo) -> bool:
            # a return that hands the model on to another function of the package: that function decides about the comment
            for r in walk_no_nested(f.node):
                if isinstance(r, ast.Return) and isinstance(r.value, ast.Call) and isinstance(r.value.func, ast.Name) \
                        and any(norm(a) == model for a in r.value.args):
                    sym = idx.resolve(f.module, r.value.func.id)
                    if sym is not None and sym.kind == 'func':
                        return True
            return False
        if fi2 is not fi and helper_calls(fi2) and not delegates(fi2):
            fi = fi2
    body = fi.node.body
    calls = helper_calls(fi)
    good = [c for c in calls if c.args and norm(c.args[0]) == f'{model}.comment']
    if good:
        call = good[0]
        # enclosing top-level statement
        top = None
        for st in body:
            if any(x is call for x in ast.walk(st)):
                top = st
                break
        if top is None:
            return False, 'comment call not in the function body'
        # guard: unconditional or conditional on <model>.comment only
        for n in ast.walk(top):
            if isinstance(n, (ast.If, ast.IfExp)) and any(x is call for x in ast.walk(n)):
                if norm(n.test) not in (f'{model}.comment', f'{model}.comment is not None', f'bool({model}.comment)'):
                    return False, f'the comment is emitted only under `{norm(n.test)}`'
                if isinstance(n, ast.IfExp) and not any(x is call for x in ast.walk(n.body)):
                    return False, 'the comment is emitted on the branch where it is absent'
                if isinstance(n, ast.If) and not any(x is call for s in n.body for x in ast.walk(s)):
                    return False, 'the comment is emitted on the branch where it is absent'
        # target variable of the statement
        tgt = None
        if isinstance(top, ast.Assign) and isinstance(top.targets[0], ast.Name):
            tgt = top.targets[0].id
            # the call must be the leftmost piece of the assigned value
            if not leftmost(top.value, call):
                return False, f'`{norm(top.value)[:80]}` does not start with the comment'
        elif isinstance(top, ast.Return):
            if top.value is None or not leftmost(top.value, call):
                return False, 'the returned text does not start with the comment'
            return True, ''
        elif isinstance(top, ast.If) and any(isinstance(x, ast.Return) and x.value is not None and any(y is call for y in ast.walk(x.value)) for b in top.body for x in ast.walk(b)):
            # if model.comment: return comment + <element> ; return <element>
            for b in top.body:
                for x in ast.walk(b):
                    if isinstance(x, ast.Return) and x.value is not None and any(y is call for y in ast.walk(x.value)):
                        if not leftmost(x.value, call):
                            return False, 'the returned text does not start with the comment'
            return True, ''
        elif isinstance(top, ast.If):
            # if model.comment: <var>.append(comment) / <var> += comment
            for s in top.body:
                for n in ast.walk(s):
                    if isinstance(n, ast.Call) and isinstance(n.func, ast.Attribute) and n.func.attr == 'append' \
                            and isinstance(n.func.value, ast.Name) and any(x is call for x in ast.walk(n)):
                        tgt = n.func.value.id
                    if isinstance(n, ast.AugAssign) and isinstance(n.target, ast.Name) and any(x is call for x in ast.walk(n)):
                        tgt = n.target.id
                    if isinstance(n, ast.Assign) and isinstance(n.targets[0], ast.Name) and any(x is call for x in ast.walk(n)):
                        tgt = n.targets[0].id
        elif isinstance(top, ast.AugAssign) and isinstance(top.target, ast.Name):
            tgt = top.target.id
        if tgt is None:
            return False, f'cannot see where the comment goes (`{norm(top)[:60]}`)'
        # nothing but an empty initialisation of the target precedes
        for st in body:
            if st is top:
                break
            for n in ast.walk(st):
                if isinstance(n, ast.Name) and n.id == tgt:
                    if isinstance(st, ast.Assign) and len(st.targets) == 1 and norm(st.targets[0]) == tgt and (
                            (isinstance(st.value, ast.Constant) and st.value.value == '') or
                            (isinstance(st.value, (ast.List, ast.Tuple)) and not st.value.elts)):
                        continue
                    return False, f'`{norm(st)[:60]}` adds output before the comment'
        # the target must be what is returned (possibly joined)
        for n in walk_no_nested(fi.node):
            if isinstance(n, ast.Return) and n.value is not None:
                if not any(isinstance(x, ast.Name) and x.id == tgt for x in ast.walk(n.value)):
                    return False, f'a return path does not use `{tgt}`'
                if isinstance(n.value, ast.BinOp) and not leftmost(n.value, None, tgt):
                    return False, f'`{norm(n.value)[:60]}` puts text before `{tgt}`'
        return True, ''
    if calls:
        return False, f'{helper} is called with `{norm(calls[0].args[0]) if calls[0].args else ""}`, not with {model}.comment'
    # delegation: every return is a call of a local helper with the model as argument
    if depth < 4:
        rets = [n for n in walk_no_nested(fi.node) if isinstance(n, ast.Return) and n.value is not None]
        targets = []
        for r in rets:
            v = r.value
            cands = []
            if isinstance(v, ast.Call):
                cands.append(v)
            # f(model, ..).format(c=..): the call that receives the model, wherever it stands in the returned expression
            cands += [c_ for c_ in ast.walk(v) if isinstance(c_, ast.Call) and c_ is not v]
            # result = f(...); return result.format(...) style
            for n in ast.walk(v):
                if isinstance(n, ast.Name) and n.id != model:
                    for st in walk_no_nested(fi.node):
                        if isinstance(st, ast.Assign) and len(st.targets) == 1 and norm(st.targets[0]) == n.id:
                            cands += [c_ for c_ in ast.walk(st.value) if isinstance(c_, ast.Call)]       # also `f(model) if key else ''`
            for c in cands:
                passes_model = any(norm(a) == model for a in c.args) or any(norm(k.value) == model for k in c.keywords)
                if not passes_model:
                    continue
                fnames = []
                if isinstance(c.func, ast.Name):
                    fnames.append(c.func.id)
                    # func = a if cond else b
                    for st in walk_no_nested(fi.node):
                        if isinstance(st, ast.Assign) and len(st.targets) == 1 and norm(st.targets[0]) == c.func.id and isinstance(st.value, ast.IfExp):
                            fnames = [norm(st.value.body), norm(st.value.orelse)]
                for fn in fnames:
                    sym = idx.resolve(fi.module, fn)
                    if sym is not None and sym.kind == 'func':
                        t = idx.funcs.get(f'{sym.module}:{sym.name}')
                        if t is not None:
                            targets.append(t)
        uniq = {t.id: t for t in targets}
        if uniq:
            res = [emits_comment_first(idx, t, helper, depth + 1) for t in uniq.values()]
            # inline references carry no comment of their own (the comment belongs to the column): at least
            # one delegate must emit, and a delegate that builds a statement (has `model.comment` reads) must too
            oks = [r for r in res if r[0]]
            if oks and all(r[0] or 'inline' in t.qualname or 'many_to_many' in t.qualname for r, t in zip(res, uniq.values())):
                return True, ''
            bad = [f'{t.qualname}: {r[1]}' for r, t in zip(res, uniq.values()) if not r[0]]
            return False, '; '.join(bad)
    return False, f'{fi.qualname} never passes {model}.comment to {helper}: the comment is not rendered with the element'


def leftmost(e: ast.AST, call: Optional[ast.AST], name: Optional[str] = None) -> bool:
    """Is `call` (or the variable `name`) the leftmost operand of a concatenation / the whole value /
    the first element of a list display / the body of a conditional expression that is leftmost?"""
    while True:
        if isinstance(e, ast.BinOp) and isinstance(e.op, ast.Add):
            e = e.left
            continue
        if isinstance(e, ast.JoinedStr) and e.values:
            e = e.values[0].value if isinstance(e.values[0], ast.FormattedValue) else e.values[0]
            continue
        if isinstance(e, ast.IfExp):
            if call is not None and any(x is call for x in ast.walk(e.body)):
                e = e.body
                continue
            return False
        if isinstance(e, (ast.List, ast.Tuple)) and e.elts:
            e = e.elts[0]
            continue
        if isinstance(e, ast.Call) and isinstance(e.func, ast.Attribute) and e.func.attr == 'join' and len(e.args) == 1:
            e = e.args[0]
            continue
        if call is not None and e is not call and isinstance(e, ast.Call) and e.args and any(x is call for x in ast.walk(e.args[0])):
            # a text transformation applied to the comment block (escaping, indentation): wrapper(comment, ...)
            e = e.args[0]
            continue
        break
    if call is not None:
        return e is call
    return isinstance(e, ast.Name) and e.id == name
