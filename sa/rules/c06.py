"""C06 - rule-breaking documents are rejected with the error belonging to the rule."""
from __future__ import annotations

from ..core import Collector
from .dbrules import add_guards, reference_equality, resolution_guards, reference_sides

EXPLANATION = (
    'Every rejection rule of the statement is a guard obligation with three clauses decided by path enumeration: the '
    'condition is tested in normal form (membership / same (schema,name) / same name / is-None / empty), its true branch '
    'always ends in `raise` of the exception class belonging to the rule with no mutation before it, and its false '
    'branch (for loop-shaped checks: exhaustion of a loop over the whole collection) dominates the first mutation or the '
    'construction of the result. Rows: Database.add_table x3, add_enum x2, add_table_group x2, add_reference, '
    'TableGroupBlueprint.build (resolved object, not spelling), parse_table (no columns), locate_table (both keys missed), '
    'Table.__getitem__ by name, TableBlueprint.build (index subject), ReferenceBlueprint.build x4. Reference equality '
    'compares exactly the relationship identity (instance attributes minus dont_compare_fields), so inline and '
    'standalone duplicates collide; both endpoints of a reference are resolved from their own side only; the parser stores every '
    'collected blueprint unconditionally (no structural de-duplication before the database sees it).')
RULE_TEXT = 'three obligations (present / raises / dominates, plus scans for loop guards) per guard row; one per equality field'
ASSUMPTIONS = ['decides guard presence, polarity, exception class and dominance on all paths; spelling independence follows from '
               'guards comparing resolved objects (C05), not decided for arbitrary documents']
ENGINES = ['pyindex', 'paths', 'effects', 'grammar']
TECHNIQUE = 'static analysis (ast): guard obligations by path enumeration with condition normal form; class-constant field-set check; keyword vocabularies (also regular-expression ones) canonical and caseless'


def run(ctx, col: Collector):
    add_guards(ctx, col, 'C06-unique')
    reference_equality(ctx, col, 'C06-eq')
    resolution_guards(ctx, col, 'C06-resolve')
    reference_sides(ctx, col, 'C06-sides')
    # a duplicate can only be rejected if it reaches the database: the parser's collecting functions store every blueprint, never "unless already there"
    from ..core import guarded

    def collect():
        from .c01 import dedup_obligations
        idx = ctx.idx
        dedup_obligations(ctx, col, 'C06-collect', [idx.func('pydbml.parser.parser', 'PyDBMLParser.parse_blueprint'),
                                                    idx.func('pydbml.parser.parser', 'PyDBMLParser.build_database')])
    guarded(col, 'C06-collect', 'collect', collect)

    def canonical():
        # "however it is written": the values Reference equality compares (kind, actions) are stored in one canonical spelling (keywords are caseless AND
        # canonicalised by the grammar) - shared with C01-case
        sub = ctx.sub('c01', col.prop)
        n = 0
        for o in sub.obs:
            if o.rule == 'C01-case' and ('reference' in o.construct or o.status != 'discharged'):
                n += 1
                col.obs.append(type(o)(col.prop, 'C06-canonical', o.construct, o.status, o.msg, o.file, o.line, o.extra))
        col.floor('C06-canonical', 'keyword obligations of the reference grammar', n, 5)
    guarded(col, 'C06-canonical', 'canonical', canonical)
