"""Guard rows and mutator analyses on Database / Table / blueprints shared by C05, C06, C09."""
from __future__ import annotations

import ast
import re
from typing import Callable, Dict, List, Optional, Sequence, Set, Tuple

from ..core import Collector, guarded, norm, Unrecognised, AnchorMissing
from ..pyindex import walk_no_nested, access_path, FuncInfo, root_name
from ..paths import function_paths, walk_event, Ev, node_contains
from ..cond import term, conjuncts, copy_subst, value
from ..effects import mutating_nodes
from .common import expanded
from .common import (guard_obligation, is_normal_return, resolve_exc, paths_of, event_calls, get_eff, first_param,
                     calls_named)

EXC = 'pydbml.exceptions:'
DB = 'pydbml.database'


def mutation_pred(ctx, fi: FuncInfo) -> Callable[[Ev], bool]:
    eff = get_eff(ctx)
    mn = mutating_nodes(eff, fi)

    def pred(ev: Ev) -> bool:
        if ev.kind == 'exc' or ev.node is None:
            return False
        if ev.kind == 'stmt' and id(ev.node) in mn:
            return True
        for n in walk_event(ev):
            if id(n) in mn:
                return True
        return False
    return pred


def exact(required: Sequence[tuple], allowed: Sequence[tuple] = ()) -> Callable[[List[tuple], ast.AST], bool]:
    req = list(required)
    alw = list(allowed)

    def m(lits, n):
        return all(r in lits for r in req) and all(l in req or l in alw for l in lits)
    return m


# ----------------------------------------------------------------------------------------------
# uniqueness guards of Database.add_*  (C06 rows, C09-e)
# ----------------------------------------------------------------------------------------------

def add_guards(ctx, col: Collector, rule: str):
    idx = ctx.idx
    DVE = [EXC + 'DatabaseValidationError']

    def row(fname, name, matcher, what, loop_over=None):
        fi = expanded(ctx, DB, f'Database.{fname}')
        guard_obligation(ctx, col, rule, fi, name, matcher, DVE, protect=mutation_pred(ctx, fi), what=what,
                         require_loop_over=loop_over)

    def t():
        fi = expanded(ctx, DB, 'Database.add_table')
        o = first_param(fi)
        row('add_table', 'same-object', exact([('in', o, 'self.tables')]), f'{o} in self.tables')
        row('add_table', 'same-full-name', exact([('in', f'{o}.full_name', 'self.table_dict')]), f'{o}.full_name in self.table_dict')
        row('add_table', 'alias-taken', exact([('in', f'{o}.alias', 'self.table_dict')], [('truthy', f'{o}.alias'), ('not', ('none', f'{o}.alias'))]),
            f'{o}.alias in self.table_dict')
        # the alias must be checked against the KEY index (aliases and full names share it): a check against the other tables' aliases only lets an alias
        # equal to an existing full name through, and the later store overwrites that key
        against_keys = against_aliases = False
        for path in paths_of(fi, 1):
            if path[-1].kind != 'raise':
                continue
            lits = [c for ev in path if ev.kind == 'test' for c in conjuncts(term(ev.node, ev.outcome))]
            for l in lits:
                if l[0] == 'in' and l[1] == f'{o}.alias' and 'table_dict' in str(l[2]):
                    against_keys = True
                if l[0] == 'eq' and f'{o}.alias' in l[1:] and any(str(x).endswith('.alias') and x != f'{o}.alias' for x in l[1:]):
                    against_aliases = True
        if against_aliases and not against_keys:
            col.bad(rule, 'Database.add_table:alias-taken:against-keys', f'add_table compares `{o}.alias` with the aliases of the stored tables only, not with the keys of '
                    f'table_dict: an alias equal to the full name of another table (`Table users as "public.orders"`) is accepted and overwrites that table\'s key',
                    node=fi.node, file=fi.file)
    guarded(col, rule, 'add_table', t)

    def e():
        fi = expanded(ctx, DB, 'Database.add_enum')
        o = first_param(fi)
        row('add_enum', 'same-object', exact([('in', o, 'self.enums')]), f'{o} in self.enums')

        def same(lits, n):
            names = [l for l in lits if l[0] == 'eq' and {l[1].split('.')[-1], l[2].split('.')[-1]} == {'name'} and o + '.name' in l]
            schemas = [l for l in lits if l[0] == 'eq' and {l[1].split('.')[-1], l[2].split('.')[-1]} == {'schema'} and o + '.schema' in l]
            tup = [l for l in lits if l[0] == 'eq' and 'name' in l[1] and 'schema' in l[1] and 'name' in l[2] and 'schema' in l[2]]
            return (bool(names) and bool(schemas) and len(lits) == 2) or (bool(tup) and len(lits) == 1)
        row('add_enum', 'same-schema-and-name', same, 'an enum with the same schema and name exists', loop_over='self.enums')
    guarded(col, rule, 'add_enum', e)

    def g():
        fi = expanded(ctx, DB, 'Database.add_table_group')
        o = first_param(fi)
        row('add_table_group', 'same-object', exact([('in', o, 'self.table_groups')]), f'{o} in self.table_groups')

        def same(lits, n):
            return len(lits) == 1 and lits[0][0] == 'eq' and o + '.name' in lits[0] and all(x.endswith('.name') for x in lits[0][1:])
        row('add_table_group', 'same-name', same, 'a table group with the same name exists', loop_over='self.table_groups')
    guarded(col, rule, 'add_table_group', g)

    def r():
        fi = expanded(ctx, DB, 'Database.add_reference')
        o = first_param(fi)
        row('add_reference', 'same-reference', exact([('in', o, 'self.refs')]), f'{o} in self.refs')
    guarded(col, rule, 'add_reference', r)


def reference_equality(ctx, col: Collector, rule: str):
    """Reference equality compares exactly the identity of a relationship."""
    idx = ctx.idx

    def f():
        ref = idx.cls('pydbml._classes.reference', 'Reference')
        dcf = idx.const_tuple(idx.class_attr(ref.id, 'dont_compare_fields'))
        if dcf is None:
            raise Unrecognised('Reference.dont_compare_fields is not a tuple of strings', ref.node)
        # instance attributes (everything ever stored on self in the class)
        attrs: Set[str] = set()
        for m in list(ref.methods.values()) + list(ref.setters.values()) + list(ref.props.values()):
            for n in walk_no_nested(m.node):
                if isinstance(n, ast.Attribute) and isinstance(n.ctx, ast.Store) and isinstance(n.value, ast.Name) and n.value.id == 'self':
                    attrs.add(n.attr)
        # property setters store under another name; plain attribute names that are properties do not land in __dict__
        attrs = {a for a in attrs if a not in ref.setters}
        compared = attrs - set(dcf)
        identity = {'type', 'col1', 'col2', 'name', 'on_update', 'on_delete'}
        tolerated = set()   # a comment is not part of a relationship's identity (C14: comments are inert)
        for a in sorted(identity):
            col.check(a in compared, rule, f'Reference.eq:compares:{a}', f'`{a}` takes part in reference equality',
                      f'`{a}` is excluded from Reference equality (dont_compare_fields={dcf}): references differing in {a} '
                      f'would be rejected as duplicates', node=ref.node, file='pydbml/_classes/reference.py')
        for a in sorted(compared - identity - tolerated):
            col.bad(rule, f'Reference.eq:extra:{a}', f'instance attribute `{a}` takes part in Reference equality (it is not in '
                    f'dont_compare_fields={dcf}): an inline and a standalone copy of the same relationship (or copies in '
                    f'different states) no longer collide as duplicates', node=ref.node, file='pydbml/_classes/reference.py')
        col.check(not (compared - identity - tolerated), rule, 'Reference.eq:only-identity',
                  f'equality compares {sorted(compared)}', 'extra attributes take part in equality', node=ref.node,
                  file='pydbml/_classes/reference.py')
        # the generic __eq__ really drops dont_compare_fields and compares the rest
        # read with its helpers in place; per side: how the compared dict is made from the instance's attribute dict
        from .common import expanded as _expanded
        eqf = _expanded(ctx, 'pydbml._classes.base', 'SQLObject.__eq__')
        verdict, why = eq_drops_fields(eqf.node)
        cons_eq = 'SQLObject.__eq__:drops-fields'
        if verdict == 'ok':
            col.ok(rule, cons_eq, 'generic equality compares the attribute dicts of both sides with dont_compare_fields removed (keys unchanged)', node=eqf.node, file=eqf.file)
        elif verdict == 'bad':
            col.bad(rule, cons_eq, f'SQLObject.__eq__ {why}', node=eqf.node, file=eqf.file)
        else:
            col.unk(rule, cons_eq, f'cannot read how SQLObject.__eq__ builds the dicts it compares: {why}', node=eqf.node, file=eqf.file)
        col.check('__eq__' not in ref.methods, rule, 'Reference.__eq__:inherited', 'Reference uses the generic equality',
                  'Reference overrides __eq__ (unrecognised comparison)', node=ref.node, file='pydbml/_classes/reference.py')
    guarded(col, rule, 'Reference.eq', f)


def eq_drops_fields(fn: ast.FunctionDef):
    """('ok'|'bad'|'unk', why): does the function return `D(self) == D(other)` where D(x) is x's attribute dict minus x.dont_compare_fields, keys as they are?
    Read by dataflow over the spellings a dict copy and a removal can take (copy + pop loop, comprehension with a `not in` filter, `{**d}`, vars())."""
    rets = [n for n in walk_no_nested(fn) if isinstance(n, ast.Return) and isinstance(n.value, ast.Compare) and len(n.value.ops) == 1 and isinstance(n.value.ops[0], ast.Eq)]
    if not rets:
        return 'unk', 'no `return A == B`'
    cmp_ = rets[-1].value
    assigns = {}
    for n in walk_no_nested(fn):
        if isinstance(n, ast.Assign) and len(n.targets) == 1 and isinstance(n.targets[0], ast.Name):
            assigns.setdefault(n.targets[0].id, []).append(n.value)
    # names from which the dont_compare_fields entries are removed in a loop / individually
    popped = set()
    for n in walk_no_nested(fn):
        if isinstance(n, ast.For) and 'dont_compare_fields' in norm(n.iter) and isinstance(n.target, ast.Name):
            for c in ast.walk(n):
                if isinstance(c, ast.Call) and isinstance(c.func, ast.Attribute) and c.func.attr == 'pop' and isinstance(c.func.value, ast.Name) \
                        and c.args and isinstance(c.args[0], ast.Name) and c.args[0].id == n.target.id:
                    popped.add(c.func.value.id)
                if isinstance(c, ast.Delete):
                    for t in c.targets:
                        if isinstance(t, ast.Subscript) and isinstance(t.value, ast.Name) and isinstance(t.slice, ast.Name) and t.slice.id == n.target.id:
                            popped.add(t.value.id)

    def is_attr_dict(e) -> bool:
        src = norm(e).replace(' ', '')
        return bool(re.fullmatch(r'(\w+)\.__dict__|vars\(\w+\)', src))

    def side(e, depth=0):
        """(verdict, drops, why) for one compared operand"""
        if depth > 4:
            return 'unk', False, 'too deep'
        if isinstance(e, ast.Name):
            vals = assigns.get(e.id, [])
            if len(vals) != 1:
                return 'unk', False, f'`{e.id}` is bound {len(vals)} times'
            v, d, w = side(vals[0], depth + 1)
            return v, d or e.id in popped, w
        if isinstance(e, ast.Call) and isinstance(e.func, ast.Name) and e.func.id == 'dict' and len(e.args) == 1 and not e.keywords:
            return side(e.args[0], depth + 1) if not is_attr_dict(e.args[0]) else ('ok', False, '')
        if isinstance(e, ast.Call) and isinstance(e.func, ast.Attribute) and e.func.attr == 'copy' and not e.args and is_attr_dict(e.func.value):
            return 'ok', False, ''
        if isinstance(e, ast.Dict) and len(e.keys) == 1 and e.keys[0] is None and is_attr_dict(e.values[0]):
            return 'ok', False, ''
        if is_attr_dict(e):
            return 'ok', False, ''           # compared in place (nothing removed unless popped - which would change the object; not the case here)
        if isinstance(e, ast.DictComp) and len(e.generators) == 1:
            g = e.generators[0]
            it = g.iter
            if not (isinstance(it, ast.Call) and isinstance(it.func, ast.Attribute) and it.func.attr == 'items' and is_attr_dict(it.func.value)
                    and isinstance(g.target, ast.Tuple) and len(g.target.elts) == 2 and all(isinstance(x, ast.Name) for x in g.target.elts)):
                return 'unk', False, f'comprehension over `{norm(it)[:40]}`'
            kv, vv = g.target.elts[0].id, g.target.elts[1].id
            if not (isinstance(e.key, ast.Name) and e.key.id == kv):
                return 'bad', False, (f'compares the attributes under changed keys (`{norm(e.key)[:40]}` instead of the attribute name): the names listed in '
                                      f'dont_compare_fields (`_inline`, ...) no longer match the keys, so those fields take part in equality')
            if not (isinstance(e.value, ast.Name) and e.value.id == vv):
                return 'unk', False, f'values are transformed (`{norm(e.value)[:40]}`)'
            drops = any('dont_compare_fields' in norm(c) and isinstance(c, ast.Compare) and isinstance(c.ops[0], ast.NotIn) and norm(c.left) == kv for c in g.ifs)
            other_ifs = [c for c in g.ifs if 'dont_compare_fields' not in norm(c)]
            if other_ifs:
                return 'unk', drops, f'further filter `{norm(other_ifs[0])[:40]}`'
            return 'ok', drops, ''
        return 'unk', False, f'operand `{norm(e)[:50]}`'
    res = [side(cmp_.left), side(cmp_.comparators[0])]
    for v, d, w in res:
        if v == 'bad':
            return 'bad', w
    for v, d, w in res:
        if v == 'unk':
            return 'unk', w
    if all(d for _, d, _ in res):
        return 'ok', ''
    return 'bad', 'compares the attribute dicts without removing dont_compare_fields from ' + ('either side' if not any(d for _, d, _ in res) else 'one of the sides') + \
        ': back-pointers and the fields a class excludes (Reference: database, _inline, comment) take part in equality'


# ----------------------------------------------------------------------------------------------
# resolution failures
# ----------------------------------------------------------------------------------------------

def resolution_guards(ctx, col: Collector, rule: str):
    idx = ctx.idx

    def locate():
        fi = idx.func('pydbml.parser.parser', 'PyDBMLParser.locate_table')
        # path semantics (independent of variable names and of early-return vs. fall-through style): every normal return hands back
        # a table_dict lookup result that was tested `is not None` on that path, and the paths on which every tested lookup result was
        # None end in TableNotFoundError
        n_ret = n_raise = 0
        bad = None
        for path in paths_of(fi, 1):
            last = path[-1]
            lits = [c for ev in path if ev.kind == 'test' for c in conjuncts(term(ev.node, ev.outcome))]
            lookups = set()
            for ev in path:
                if ev.kind == 'stmt' and isinstance(ev.node, ast.Assign) and isinstance(ev.node.targets[0], ast.Name):
                    v = ev.node.value
                    if (isinstance(v, ast.Call) and isinstance(v.func, ast.Attribute) and v.func.attr == 'get' and access_path(v.func.value) == 'self.database.table_dict') or \
                            (isinstance(v, ast.Subscript) and access_path(v.value) == 'self.database.table_dict'):
                        lookups.add(ev.node.targets[0].id)
            if last.kind == 'return' and last.node is not None and last.node.value is not None:
                n_ret += 1
                rv = norm(last.node.value)
                if rv not in lookups:
                    bad = bad or (last, f'returns `{rv}`, which is not a table_dict lookup result')
                elif ('not', ('none', rv)) not in lits and ('truthy', rv) not in lits:
                    bad = bad or (last, f'returns the lookup result `{rv}` without having established that it is not None: a missing table yields None instead of '
                                        f'the table-not-found error')
            elif last.kind == 'raise':
                cls = resolve_exc(ctx, fi, last.node.exc)
                if cls == EXC + 'TableNotFoundError':
                    n_raise += 1
                    if not lookups or not all(('none', v) in lits or ('not', ('truthy', v)) in lits for v in lookups):
                        bad = bad or (last, 'raises table-not-found although a lookup result was not tested to be None on that path')
            elif last.kind == 'return':
                bad = bad or (last, 'falls off the end (returns None) instead of raising table-not-found')
        cons = 'PyDBMLParser.locate_table:both-lookups-miss'
        if bad is not None:
            col.bad(rule, cons, f'locate_table {bad[1]}', node=bad[0].node if bad[0].node is not None else fi.node, file=fi.file)
        elif n_ret >= 1 and n_raise >= 1:
            col.ok(rule, cons, f'every return hands back a lookup result that is not None ({n_ret} paths); exhausting the lookups raises TableNotFoundError ({n_raise} paths)',
                   node=fi.node, file=fi.file)
        else:
            col.unk(rule, cons, f'locate_table: {n_ret} returning and {n_raise} table-not-found paths recognised', node=fi.node, file=fi.file)
        # both keys are looked up in the table_dict of the database being built
        gets = [n for n in walk_no_nested(fi.node) if isinstance(n, ast.Call) and isinstance(n.func, ast.Attribute)
                and n.func.attr in ('get', '__getitem__') and access_path(n.func.value) == 'self.database.table_dict']
        subs = [n for n in walk_no_nested(fi.node) if isinstance(n, ast.Subscript) and access_path(n.value) == 'self.database.table_dict']
        params = [a.arg for a in fi.node.args.args][1:]
        if len(params) != 2:
            raise Unrecognised('locate_table should take (schema, name)', fi.node)
        schema, name = params
        keys = []
        env = {}
        for n in walk_no_nested(fi.node):
            if isinstance(n, ast.Assign) and len(n.targets) == 1 and isinstance(n.targets[0], ast.Name):
                env[n.targets[0].id] = n.value
        for g in gets:
            if g.args:
                k = g.args[0]
                keys.append(env.get(k.id, k) if isinstance(k, ast.Name) and k.id in env else k)
        for s in subs:
            k = s.slice
            keys.append(env.get(k.id, k) if isinstance(k, ast.Name) and k.id in env else k)
        bare = any(isinstance(k, ast.Name) and k.id == name for k in keys)
        full = False
        for k in keys:
            if isinstance(k, ast.JoinedStr):
                parts = [v.value.id if isinstance(v, ast.FormattedValue) and isinstance(v.value, ast.Name) else
                         (v.value if isinstance(v, ast.Constant) else '?') for v in k.values]
                if parts == [schema, '.', name]:
                    full = True
            elif isinstance(k, ast.BinOp) and norm(k).replace('"', "'") == f"{schema} + '.' + {name}":
                full = True
        # lookups whose container or key the rule cannot read (an aliased dict, a key computed elsewhere, a helper call): no verdict from absence
        opaque = [n for n in walk_no_nested(fi.node) if (isinstance(n, ast.Call) and isinstance(n.func, ast.Attribute) and n.func.attr in ('get', '__getitem__')
                                                         and n not in gets) or (isinstance(n, ast.Subscript) and n not in subs and isinstance(n.ctx, ast.Load))]
        opaque_keys = [k for k in keys if not isinstance(k, (ast.Name, ast.JoinedStr, ast.BinOp, ast.Constant))]
        calls_out = [n for n in walk_no_nested(fi.node) if isinstance(n, ast.Call) and not (isinstance(n.func, ast.Attribute) and n.func.attr in ('get', '__getitem__'))
                     and not (isinstance(n.func, ast.Name) and n.func.id in ('TableNotFoundError', 'RuntimeError', 'isinstance', 'str'))]
        readable = not opaque and not opaque_keys and not calls_out and bool(keys)
        for found_, cons_, okmsg, badmsg in (
                (bare, 'locate_table:alias-key', 'the bare name (alias key) is looked up',
                 'locate_table never looks the bare name up in table_dict: tables cannot be addressed by alias'),
                (full, 'locate_table:full-name-key', 'the key f"{schema}.{name}" is looked up',
                 'locate_table never looks up "<schema>.<name>": schema-qualified / public addressing is broken')):
            if found_:
                col.ok(rule, cons_, okmsg, node=fi.node, file=fi.file)
            elif readable:
                col.bad(rule, cons_, badmsg + f' (keys looked up: {[norm(k) for k in keys]})', node=fi.node, file=fi.file)
            else:
                col.unk(rule, cons_, 'locate_table performs lookups this rule cannot read (aliased container, computed key or helper call); the key is not established',
                        node=fi.node, file=fi.file)
    guarded(col, rule, 'locate_table', locate)

    def getitem():
        fi = idx.func('pydbml._classes.table', 'Table.__getitem__')
        k = first_param(fi)
        n_str = 0
        bad = None
        for path in paths_of(fi, 2):
            lits = [c for ev in path if ev.kind == 'test' for c in conjuncts(term(ev.node, ev.outcome))]
            is_str = any(l[0] == 'isinstance' and l[1] == k and 'str' in l[2] for l in lits)
            if not is_str:
                continue
            n_str += 1
            last = path[-1]
            if last.kind == 'raise':
                if resolve_exc(ctx, fi, last.node.exc) != EXC + 'ColumnNotFoundError':
                    bad = bad or (last, f'raises {resolve_exc(ctx, fi, last.node.exc)}')
                # must not raise while a matching column is still ahead: raise only after loop exit
                if not any(ev.kind == 'iter' and ev.outcome == 'exit' for ev in path):
                    bad = bad or (last, 'raises before all columns were inspected')
            elif last.kind == 'return':
                v = last.node.value if last.node is not None else None
                # returned value is the loop variable over self.columns whose name matched
                matched = any(l[0] == 'eq' and k in (l[1], l[2]) and any(x.endswith('.name') for x in l[1:]) for l in lits)
                if v is None or not matched:
                    bad = bad or (last, f'returns `{norm(v) if v is not None else None}` without a name match')
        col.check(bad is None and n_str >= 2, rule, 'Table.__getitem__:str-lookup',
                  f'name lookup returns the matching column or raises ColumnNotFoundError ({n_str} paths)',
                  f'Table.__getitem__ (str): {bad[1] if bad else "no str branch"}', node=bad[0].node if bad and bad[0].node is not None else fi.node, file=fi.file)
    guarded(col, rule, 'Table.__getitem__', getitem)

    def index_subject():
        from ..inline import inlined_info
        fi = inlined_info(idx, idx.func('pydbml.parser.blueprints', 'TableBlueprint.build'), depth=2)
        # the inner search loop over result.columns
        loops = [n for n in walk_no_nested(fi.node) if isinstance(n, ast.For) and access_path(n.iter) and access_path(n.iter).endswith('.columns')
                 and any(isinstance(m, ast.Compare) for m in ast.walk(n))]
        if not loops:
            raise Unrecognised('no search loop over the built table\'s columns in TableBlueprint.build', fi.node)
        loop = loops[-1]
        bad = None
        n_ex = 0
        for path in paths_of(fi, 1):
            for i, ev in enumerate(path):
                if ev.kind == 'iter' and ev.node is loop and ev.outcome == 'exit':
                    # loop ran to exhaustion on this path without a break (a break skips the exit event)
                    n_ex += 1
                    last = path[-1]
                    rest = path[i + 1:]
                    nxt = rest[0] if rest else None
                    if not (nxt is not None and nxt.kind == 'raise' and resolve_exc(ctx, fi, nxt.node.exc) == EXC + 'ColumnNotFoundError'):
                        bad = bad or (ev, 'an index subject that names no column of the table does not raise ColumnNotFoundError '
                                          f'(next: {nxt!r})')
                    break
        col.check(bad is None and n_ex >= 1, rule, 'TableBlueprint.build:index-subject',
                  'exhausting the column search raises ColumnNotFoundError', bad[1] if bad else 'search loop never exhausts',
                  node=loop, file=fi.file)
    guarded(col, rule, 'TableBlueprint.build', index_subject)

    def group_dup():
        fi = expanded(ctx, 'pydbml.parser.blueprints', 'TableGroupBlueprint.build')
        # locals that hold a resolved Table object: assigned only from <...>.locate_table(...)
        assigns: Dict[str, List[ast.AST]] = {}
        for n in walk_no_nested(fi.node):
            if isinstance(n, ast.Assign):
                for t in n.targets:
                    if isinstance(t, ast.Name):
                        assigns.setdefault(t.id, []).append(n.value)

        def is_locate(e: ast.AST) -> bool:
            return isinstance(e, ast.Call) and isinstance(e.func, ast.Attribute) and e.func.attr == 'locate_table'
        located = {k for k, vs in assigns.items() if vs and all(is_locate(v) for v in vs)}

        def resolved_expr(e: ast.AST) -> bool:
            return (isinstance(e, ast.Name) and e.id in located) or is_locate(e)
        # collections that accumulate resolved objects
        holders: Set[str] = set()
        for n in walk_no_nested(fi.node):
            if isinstance(n, ast.Call) and isinstance(n.func, ast.Attribute) and n.func.attr in ('append', 'add') \
                    and isinstance(n.func.value, ast.Name) and n.args and resolved_expr(n.args[0]):
                holders.add(n.func.value.id)
            if isinstance(n, ast.Assign) and len(n.targets) == 1 and isinstance(n.targets[0], ast.Subscript) \
                    and isinstance(n.targets[0].value, ast.Name) and resolved_expr(n.value):
                holders.add(n.targets[0].value.id + '.values()')
        if not holders:
            raise Unrecognised('TableGroupBlueprint.build: no collection accumulates located table objects', fi.node)
        # tests whose true branch always raises ValidationError
        paths = paths_of(fi, ctx.unroll)
        tests: Dict[int, ast.AST] = {}
        for path in paths:
            for ev in path:
                if ev.kind == 'test' and ev.outcome is True and path[-1].kind == 'raise' \
                        and resolve_exc(ctx, fi, path[-1].node.exc) == EXC + 'ValidationError':
                    tests[id(ev.node)] = ev.node
        good = None
        spelled = None
        for tnode in tests.values():
            for l in conjuncts(term(tnode, True)):
                if l[0] != 'in':
                    continue
                xs, cs = l[1], l[2]
                x_res = xs in located or 'locate_table(' in xs
                c_res = cs in holders or cs in {h.split('.')[0] for h in holders if '.' not in h}
                if x_res and c_res:
                    good = (tnode, xs, cs)
                else:
                    spelled = (tnode, xs, cs)
        if good is None:
            if spelled is not None:
                col.bad(rule, 'TableGroupBlueprint.build:table-listed-twice:present',
                        f'the duplicate check `{norm(spelled[0])}` compares `{spelled[1]}` with `{spelled[2]}`, i.e. the name as '
                        f'written, not the resolved Table object: the same table listed under two spellings (bare / schema-'
                        f'qualified / alias) is accepted', node=spelled[0], file=fi.file)
            else:
                col.bad(rule, 'TableGroupBlueprint.build:table-listed-twice:present',
                        'no check rejects a table that is listed twice in one group with ValidationError', node=fi.node, file=fi.file)
            return
        tnode, x, lst = good

        def is_insert(ev: Ev) -> bool:
            for c in event_calls(ev):
                if isinstance(c.func, ast.Attribute) and c.func.attr in ('append', 'add') and norm(c.func.value) == lst:
                    return True
            return False
        guard_obligation(ctx, col, rule, fi, 'table-listed-twice', exact([('in', x, lst)]), [EXC + 'ValidationError'],
                         protect=is_insert, what=f'{x} in {lst} (the resolved Table object, however it was spelled)', subst_locals=False)
        # the list that is checked is the one handed to TableGroup(items=...)
        ok = False
        for n in walk_no_nested(fi.node):
            if isinstance(n, ast.Call) and isinstance(n.func, ast.Name) and n.func.id == 'TableGroup':
                for kw in n.keywords:
                    if kw.arg == 'items' and (norm(kw.value) == lst or norm(kw.value) in (f'list({lst})', f'{lst}[:]', f'{lst}.copy()')):
                        ok = True
        col.check(ok, rule, 'TableGroupBlueprint.build:items-list', 'the checked list becomes the group items',
                  f'TableGroup(items=...) does not receive the list `{lst}` that the duplicate check inspects', node=fi.node, file=fi.file)
    guarded(col, rule, 'TableGroupBlueprint.build', group_dup)

    def empty_table():
        fi = idx.func('pydbml.definitions.table', 'parse_table')

        def builds(ev: Ev) -> bool:
            return any(isinstance(c.func, ast.Name) and c.func.id == 'TableBlueprint' for c in event_calls(ev))

        def m(lits, n):
            return len(lits) == 1 and 'columns' in norm(n) and lits[0][0] == 'not'
        guard_obligation(ctx, col, rule, fi, 'no-columns', m, ['builtin:SyntaxError'], protect=builds, what='table has no columns',
                         subst_locals=False)
    guarded(col, rule, 'parse_table', empty_table)

    def refbuild():
        fi = idx.func('pydbml.parser.blueprints', 'ReferenceBlueprint.build')

        def constructs(ev: Ev) -> bool:
            return any(isinstance(c.func, ast.Name) and c.func.id == 'Reference' for c in event_calls(ev))
        for fld, exc in (('table1', 'TableNotFoundError'), ('table2', 'TableNotFoundError'), ('col1', 'ColumnNotFoundError'),
                         ('col2', 'ColumnNotFoundError')):
            guard_obligation(ctx, col, rule, fi, f'{fld}-unknown', exact([('none', f'self.{fld}')]), [EXC + exc], protect=constructs,
                             what=f'self.{fld} is None', subst_locals=False)
    guarded(col, rule, 'ReferenceBlueprint.build', refbuild)


def reference_sides(ctx, col: Collector, rule: str):
    """In ReferenceBlueprint.build the col1= argument derives only from side-1 fields and col2=
    only from side-2 fields, on every path (a reference is never bound to something else)."""
    idx = ctx.idx

    def f():
        fi = idx.func('pydbml.parser.blueprints', 'ReferenceBlueprint.build')
        nret = 0
        for path in paths_of(fi, 1):
            last = path[-1]
            if last.kind != 'return' or last.node is None or not isinstance(last.node.value, ast.Call):
                continue
            call = last.node.value
            if not (isinstance(call.func, ast.Name) and call.func.id == 'Reference'):
                continue
            nret += 1
            deps: Dict[str, Set[str]] = {}

            def dep(e: ast.AST) -> Set[str]:
                out: Set[str] = set()
                for n in ast.walk(e):
                    if isinstance(n, ast.Attribute) and isinstance(n.value, ast.Name) and n.value.id == 'self':
                        out.add(n.attr)
                    elif isinstance(n, ast.Name) and n.id in deps:
                        out |= deps[n.id]
                return out
            for ev in path:
                n = ev.node
                if ev.kind == 'stmt' and isinstance(n, ast.Assign):
                    d = dep(n.value)
                    for t in n.targets:
                        if isinstance(t, ast.Name):
                            deps[t.id] = d
                        elif isinstance(t, (ast.Tuple, ast.List)):
                            for x in t.elts:
                                if isinstance(x, ast.Name):
                                    deps[x.id] = d
            for side in ('1', '2'):
                other = '2' if side == '1' else '1'
                kw = [k for k in call.keywords if k.arg == f'col{side}']
                if not kw:
                    raise Unrecognised(f'Reference(...) without col{side}= keyword', call)
                d = dep(kw[0].value)
                need = {f'schema{side}', f'table{side}', f'col{side}'}
                foreign = {x for x in d if x.endswith(other) and x[:-1] in ('schema', 'table', 'col')}
                cons = f'ReferenceBlueprint.build:col{side}'
                if foreign:
                    col.bad(rule, cons, f'on a path of ReferenceBlueprint.build the col{side}= endpoint derives from {sorted(foreign)} '
                            f'(the other side): the reference can be bound to a table/column that was not the one addressed',
                            node=last.node, file=fi.file)
                elif not d & {f'{x}{s_}' for x in ('schema', 'table', 'col') for s_ in '12'}:
                    # nothing could be traced (the value comes through code this dependency reading does not follow): no verdict from absence
                    col.unk(rule, cons, f'cannot trace what the col{side}= endpoint of ReferenceBlueprint.build is computed from (`{norm(kw[0].value)[:60]}`)',
                            node=last.node, file=fi.file)
                elif not need <= d:
                    col.bad(rule, cons, f'on a path of ReferenceBlueprint.build the col{side}= endpoint ignores {sorted(need - d)}: '
                            f'it is not resolved from the addressed schema/table/column', node=last.node, file=fi.file)
                else:
                    col.ok(rule, cons, f'col{side}= derives from {sorted(d & need)} only', node=last.node, file=fi.file)
        col.floor(rule, 'Reference(...) returns in ReferenceBlueprint.build', nret, 1)
        # each endpoint column comes from subscripting the located table (raises ColumnNotFoundError when absent)
        ep, _fn = endpoint_resolution(ctx, fi)
        for side in ('1', '2'):
            info = ep[side]
            cons = f'ReferenceBlueprint.build:lookup{side}'
            if info['subscripted'] and info['lookups']:
                col.ok(rule, cons, f'side {side} columns are looked up in the located table', node=fi.node, file=fi.file)
            elif info['comps'] and not info['subscripted']:
                col.bad(rule, cons, f'side {side} columns are built as `{norm(info["comps"][0])[:70]}`, not by subscripting the located table (a missing column '
                        f'would not raise the column-not-found error)', node=fi.node, file=fi.file)
            else:
                col.unk(rule, cons, f'cannot see how the side {side} columns are obtained', node=fi.node, file=fi.file)
    guarded(col, rule, 'ReferenceBlueprint.build:sides', f)


def endpoint_resolution(ctx, fi: FuncInfo):
    """Dataflow view of ReferenceBlueprint.build (helpers inlined): for each side the locate_table calls whose result
    is subscripted to produce the colN= endpoint list, with their arguments resolved to access paths.
    Returns {side: {'lookups': [(call node, [resolved arg sources], receiver source)], 'subscripted': bool, 'elt_ok': bool,
                    'other_sources': [source of anything else the table expression can be bound to]}} and the inlined node."""
    from ..inline import inline_function
    from .common import value_sources, resolve_names
    fn = inline_function(ctx.idx, fi)
    calls = [c for c in ast.walk(fn) if isinstance(c, ast.Call) and isinstance(c.func, ast.Name) and c.func.id == 'Reference']
    if not calls:
        raise Unrecognised('ReferenceBlueprint.build does not construct Reference', fi.node)
    out = {}
    for side in ('1', '2'):
        kw = [k for k in calls[0].keywords if k.arg == f'col{side}']
        if not kw:
            raise Unrecognised(f'Reference(...) without col{side}= keyword', calls[0])
        vals = [kw[0].value]
        if isinstance(kw[0].value, ast.Name):
            vals = value_sources(fn, kw[0].value.id) or vals
        info = {'lookups': [], 'subscripted': False, 'other_sources': [], 'comps': []}
        for v in vals:
            comps = [v] if isinstance(v, (ast.ListComp, ast.GeneratorExp)) else [c for c in ast.walk(v) if isinstance(c, (ast.ListComp, ast.GeneratorExp))]
            for comp in comps:
                info['comps'].append(comp)
                el = comp.elt
                it0 = comp.generators[0].iter
                # the table is either subscripted by the written name, or its column list is walked
                tbl = el.value if isinstance(el, ast.Subscript) else (it0.value if isinstance(it0, ast.Attribute) and it0.attr == 'columns' else None)
                if tbl is not None:
                    info['subscripted'] = isinstance(el, ast.Subscript)
                    texprs = [tbl]
                    el = ast.Subscript(value=tbl, slice=ast.Constant(value=0), ctx=ast.Load())
                    if isinstance(el.value, ast.Name):
                        texprs = value_sources(fn, el.value.id) or texprs
                    for te in texprs:
                        if isinstance(te, ast.Call) and isinstance(te.func, ast.Attribute) and te.func.attr == 'locate_table':
                            info['lookups'].append((te, [resolve_names(fn, a) for a in te.args], resolve_names(fn, te.func.value)))
                        else:
                            info['other_sources'].append(resolve_names(fn, te))
        out[side] = info
    return out, fn
