"""C08 - parsing and rendering never fail with an internal error (structural part)."""
from __future__ import annotations

import ast
from typing import Dict, List, Optional, Set, Tuple

from ..core import Collector, guarded, acquire_grammar, norm, Unrecognised, AnchorMissing
from ..grammar import G, named_nodes, action_reads, value_action
from .. import gtools as gt
from ..pyindex import walk_no_nested, access_path, FuncInfo
from ..paths import function_paths, walk_event, Ev
from ..cond import term, conjuncts
from .common import get_cg, render_entries, resolve_exc, paths_of
from .c07 import _N

EXPLANATION = (
    'Raise audit: every explicit raise in a function on the call-graph closure of the parse entry points, the parse actions, the '
    'blueprint builders and the render entry points raises a pyparsing exception, a pydbml.exceptions class, SyntaxError (only '
    'in the column-less-table guard) or TypeError (only in the source-type guard); each other raise is a named, reasoned exception '
    'in the table below. Exact partial-operation rules on the same closure: (i) fixed-arity unpacking of str.split without '
    'maxsplit must be dominated by a test that bounds the number of separators; (ii) min()/max() without default over a list that '
    'is only conditionally filled must be dominated by a non-emptiness test; (iii) str.format must not be applied to a template '
    'into which un-escaped model text was interpolated; (iv) definite assignment - no local is read on a path on which it was '
    'never bound; (v) a results name that the grammar makes optional is subscripted in a parse action only under a presence '
    'test; (vi) a constant index into a possibly empty string needs a non-emptiness guard; (vii) int()/float() in parse actions '
    'are applied only to tokens whose character set the conversion accepts; (viii) literal lookup tables in parse actions have '
    'exactly the keys the tokens can produce. An IndexError inside a parse action is turned into a ParseException by pyparsing '
    '(modelled fact), a KeyError/ValueError is not.')
RULE_TEXT = 'one obligation per raise statement, per partial-operation site (split-unpack, min/max, format, local read, optional-name subscript, string index, numeric conversion, lookup table)'
ASSUMPTIONS = ['totality over all strings is not decided: AttributeError/TypeError in general, recursion depth, and errors inside pyparsing are outside the rules',
               'call resolution is name-based where receiver types are unknown (over-approximates the closure)']
ENGINES = ['pyindex', 'paths', 'grammar', 'flows', 'peval']
TECHNIQUE = 'static analysis (ast): exception-class audit over the call-graph closure; path-sensitive partial-operation rules (dominating guards, definite assignment, taint of format templates); grammar-derived token charsets for conversions; helper preconditions checked per call site against the token class of the attribute passed; lookup tables indexed by the reference kind evaluated per kind'

EXC_MOD = 'pydbml.exceptions'
# (function, exception class) -> reason why this raise is not an internal error of parsing/rendering
RAISE_OK = {
    ('pydbml.definitions.table:parse_table', 'builtin:SyntaxError'): 'the documented error for a table without columns',
    ('pydbml.parser.parser:PyDBMLParser.parse_blueprint', 'builtin:RuntimeError'): 'defensive: every top-level alternative yields one of the six blueprint classes (C01-wiring)',
    ('pydbml.parser.parser:PyDBMLParser.locate_table', 'builtin:RuntimeError'): 'defensive: build_database creates the Database before any blueprint is built',
    ('pydbml.parser.blueprints:ReferenceBlueprint.build', 'builtin:RuntimeError'): 'defensive: parse_blueprint sets .parser on every reference blueprint (C05-wiring)',
    ('pydbml.parser.blueprints:TableGroupBlueprint.build', 'builtin:RuntimeError'): 'defensive: parse_blueprint sets .parser on every collected blueprint (C05-wiring)',
    ('pydbml.tools:doublequote_string', 'builtin:ValueError'): 'quoted identifiers are single-line tokens (C01-lex), so a parsed name cannot contain a line break',
    ('pydbml.renderer.base:BaseRenderer.model_renderers', 'builtin:NotImplementedError'): 'abstract placeholder; both concrete renderers define the registry as a class attribute',
    ('pydbml.renderer.base:BaseRenderer.render_db', 'builtin:NotImplementedError'): 'abstract placeholder; both concrete renderers override render_db',
}


# attributes whose parsed values come from a closed vocabulary of the grammar (C07-vocab): they cannot contain braces
CLOSED_VOCAB_ATTRS = {'on_update': 'referential action keyword', 'on_delete': 'referential action keyword'}


def argument_type_guard(fi: FuncInfo, r: ast.Raise) -> bool:
    """Every path that reaches `r` got there through tests on the function's own parameters only, at least one of them a failed isinstance test."""
    if not isinstance(fi.node, ast.FunctionDef):
        return False
    params = {a.arg for a in fi.node.args.args + fi.node.args.kwonlyargs}
    n = 0
    for path in paths_of(fi, 1):
        if path[-1].kind != 'raise' or path[-1].node is not r:
            continue
        n += 1
        lits = [c for ev in path if ev.kind == 'test' for c in conjuncts(term(ev.node, ev.outcome))]
        if not lits and any(ev.kind == 'iter' and isinstance(ev.node, ast.For) and any(
                isinstance(c, ast.Call) and norm(c.func) == 'isinstance' and c.args and norm(c.args[0]).split('.')[0] in params for c in ast.walk(ev.node)) for ev in path):
            continue        # the search loop over the accepted types, on the path where its table is empty: the raise after the loop is the same fall-through
        if not any(l[0] == 'not' and isinstance(l[1], tuple) and l[1][0] == 'isinstance' and str(l[1][1]).split('.')[0] in params for l in lits):
            return False

        def about_params(l) -> bool:
            if l[0] == 'not':
                return about_params(l[1]) if isinstance(l[1], tuple) else False
            if l[0] in ('or', 'and'):
                return all(about_params(x) for x in l[1])
            return len(l) > 1 and isinstance(l[1], str) and l[1].split('.')[0].split('[')[0] in params
        if not all(about_params(l) for l in lits):
            return False
    return n > 0


def closure_funcs(ctx, gm) -> Dict[str, FuncInfo]:
    idx = ctx.idx
    cg = get_cg(ctx)
    roots: List[str] = []
    for q in ('PyDBML.__new__', 'PyDBML.parse', 'PyDBML.parse_file', 'PyDBMLParser.parse', 'PyDBMLParser.parse_blueprint',
              'PyDBMLParser.build_database', 'PyDBMLParser._set_syntax', 'PyDBMLParser.locate_table'):
        roots.append(idx.func('pydbml.parser.parser', q).id)
    for fi in idx.all_funcs():
        if fi.module.startswith('pydbml.definitions.') or fi.module == 'pydbml.parser.blueprints' or fi.module == 'pydbml.tools':
            roots.append(fi.id)
    roots.extend(f.id for f in render_entries(ctx))
    clo = cg.closure(roots)
    return {fid: idx.funcs[fid] for fid in clo if fid in idx.funcs}


# ----------------------------------------------------------------------------------------------
# definite assignment
# ----------------------------------------------------------------------------------------------

def _eval_order(node: ast.AST):
    """Name nodes of an expression or simple statement in the order Python evaluates them (comprehensions: iterable, conditions, then the element;
    `x := v`: v, then x; assignments: value, then targets)."""
    if isinstance(node, ast.Name):
        yield node
        return
    if isinstance(node, (ast.ListComp, ast.SetComp, ast.GeneratorExp, ast.DictComp)):
        for g in node.generators:
            yield from _eval_order(g.iter)
            yield from _eval_order(g.target)
            for c in g.ifs:
                yield from _eval_order(c)
        if isinstance(node, ast.DictComp):
            yield from _eval_order(node.key)
            yield from _eval_order(node.value)
        else:
            yield from _eval_order(node.elt)
        return
    if isinstance(node, ast.NamedExpr):
        yield from _eval_order(node.value)
        yield node.target
        return
    if isinstance(node, (ast.Assign, ast.AnnAssign, ast.AugAssign)):
        if node.value is not None:
            yield from _eval_order(node.value)
        for t in (node.targets if isinstance(node, ast.Assign) else [node.target]):
            yield from _eval_order(t)
        return
    if isinstance(node, (ast.FunctionDef, ast.AsyncFunctionDef, ast.Lambda, ast.ClassDef)):
        return
    for ch in ast.iter_child_nodes(node):
        yield from _eval_order(ch)


def _walrus_bound_reads(node: ast.AST) -> Set[int]:
    """ids of the Name reads that, inside this one expression/statement, are evaluated after a `name := ...` of the same name."""
    if not any(isinstance(x, ast.NamedExpr) for x in ast.walk(node)) or isinstance(node, (ast.If, ast.While, ast.For, ast.With, ast.Try, ast.Match)):
        return set()
    targets = {id(x.target) for x in ast.walk(node) if isinstance(x, ast.NamedExpr)}
    bound: Set[str] = set()
    out: Set[int] = set()
    for nm in _eval_order(node):
        if id(nm) in targets:
            bound.add(nm.id)
        elif isinstance(nm.ctx, ast.Load) and nm.id in bound:
            out.add(id(nm))
    return out


def unbound_reads(fn: ast.AST) -> List[Tuple[str, ast.AST]]:
    """(name, node) for reads of a local on a path where it was never bound.  Paths with contradictory
    outcomes of one and the same test (no intervening store to its variables) are pruned."""
    if isinstance(fn, ast.Lambda):
        return []
    a = fn.args
    params = {x.arg for x in list(a.posonlyargs) + list(a.args) + list(a.kwonlyargs)}
    if a.vararg:
        params.add(a.vararg.arg)
    if a.kwarg:
        params.add(a.kwarg.arg)
    stores: Set[str] = set()
    globs: Set[str] = set()
    for n in walk_no_nested(fn):
        if isinstance(n, (ast.Global, ast.Nonlocal)):
            globs |= set(n.names)
    comp_vars: Set[int] = set()
    for n in walk_no_nested(fn):
        if isinstance(n, (ast.ListComp, ast.SetComp, ast.DictComp, ast.GeneratorExp)):
            bound_here: Set[str] = set()
            for g in n.generators:
                for x in ast.walk(g.target):
                    comp_vars.add(id(x))
                    if isinstance(x, ast.Name):
                        bound_here.add(x.id)
            # reads of the comprehension's own variables are bound by the comprehension, not by the function
            for x in ast.walk(n):
                if isinstance(x, ast.Name) and x.id in bound_here:
                    comp_vars.add(id(x))
    for n in walk_no_nested(fn):
        if isinstance(n, ast.Name) and isinstance(n.ctx, ast.Store) and id(n) not in comp_vars:
            stores.add(n.id)
        elif isinstance(n, (ast.FunctionDef, ast.ClassDef)) and n is not fn:
            stores.add(n.name)
        elif isinstance(n, ast.ExceptHandler) and n.name:
            stores.add(n.name)
        elif isinstance(n, (ast.Import, ast.ImportFrom)):
            for al in n.names:
                stores.add((al.asname or al.name).split('.')[0])
    locals_ = stores - params - globs
    if not locals_:
        return []
    out: List[Tuple[str, ast.AST]] = []
    seen: Set[Tuple[str, int]] = set()
    try:
        paths = function_paths(fn, unroll=2, max_paths=20000)
    except Unrecognised:
        raise
    for path in paths:
        bound: Set[str] = set()
        tests: Dict[str, Tuple[bool, Set[str]]] = {}
        feasible = True
        pending: List[Tuple[str, ast.AST]] = []
        for ev in path:
            # reads first (value side), then stores
            reads: List[ast.Name] = []
            sts: List[str] = []
            if ev.kind == 'iter':
                node = ev.node
                for x in walk_no_nested(node.iter):
                    if isinstance(x, ast.Name) and isinstance(x.ctx, ast.Load):
                        reads.append(x)
                if ev.outcome == 'enter':
                    for x in ast.walk(node.target):
                        if isinstance(x, ast.Name):
                            sts.append(x.id)
            elif ev.kind == 'exc':
                if ev.node.name:
                    sts.append(ev.node.name)
            elif ev.kind == 'stmt' and isinstance(ev.node, (ast.FunctionDef, ast.ClassDef)):
                sts.append(ev.node.name)
            elif ev.kind == 'stmt' and isinstance(ev.node, (ast.Import, ast.ImportFrom)):
                for al in ev.node.names:
                    sts.append((al.asname or al.name).split('.')[0])
            else:
                after_walrus = _walrus_bound_reads(ev.node) if ev.node is not None else set()
                for x in walk_event(ev):
                    if isinstance(x, ast.Name):
                        if isinstance(x.ctx, ast.Load) and id(x) not in comp_vars and id(x) not in after_walrus:
                            reads.append(x)
                        elif isinstance(x.ctx, ast.Store) and id(x) not in comp_vars:
                            sts.append(x.id)
                if isinstance(ev.node, (ast.With,)):
                    for it in ev.node.items:
                        if it.optional_vars is not None:
                            for x in ast.walk(it.optional_vars):
                                if isinstance(x, ast.Name):
                                    sts.append(x.id)
                if ev.kind == 'stmt' and isinstance(ev.node, ast.AugAssign) and isinstance(ev.node.target, ast.Name):
                    reads.append(ast.Name(id=ev.node.target.id, ctx=ast.Load(), lineno=ev.node.lineno, col_offset=0))
            # comprehension-local names shadow
            if ev.kind == 'test':
                key = norm(ev.node)
                names = {x.id for x in ast.walk(ev.node) if isinstance(x, ast.Name)}
                calls = any(isinstance(x, ast.Call) for x in ast.walk(ev.node))
                if key in tests and not calls:
                    prev, _ = tests[key]
                    if prev != ev.outcome:
                        feasible = False
                        break
                tests[key] = (ev.outcome, names)
            for r in reads:
                if r.id in locals_ and r.id not in bound:
                    pending.append((r.id, r))
            for s in sts:
                bound.add(s)
                for k in [k for k, (_, ns) in tests.items() if s in ns]:
                    del tests[k]
        if feasible:
            for nm, node in pending:
                k = (nm, getattr(node, 'lineno', 0))
                if k not in seen:
                    seen.add(k)
                    out.append((nm, node))
    return out


def run(ctx, col: Collector):
    idx = ctx.idx
    gm = acquire_grammar(ctx, col, 'C08-grammar')
    funcs: Dict[str, FuncInfo] = {}

    def build_closure():
        funcs.update(closure_funcs(ctx, gm))
        col.stat('closure_functions', len(funcs))
        col.floor('C08-closure', 'functions on the parse/render closure', len(funcs), 120)
    guarded(col, 'C08-closure', 'closure', build_closure)

    # ---------------------------------------------------------------- C08-raise
    def raises():
        n = 0
        for fid, fi in sorted(funcs.items()):
            for r in walk_no_nested(fi.node):
                if not isinstance(r, ast.Raise):
                    continue
                n += 1
                if r.exc is None:
                    col.ok('C08-raise', f'{fid}:re-raise@{r.lineno - fi.node.lineno}', 're-raises the active exception', node=r, file=fi.file)
                    continue
                cls = resolve_exc(ctx, fi, r.exc)
                cons = f'{fid}:{cls.split(":")[-1]}:{norm(r.exc)[:50]}'
                if cls.startswith(EXC_MOD + ':') or cls.startswith('ext:pyparsing'):
                    col.ok('C08-raise', cons, f'raises the library/parse exception {cls.split(":")[-1]}', node=r, file=fi.file)
                elif cls == 'builtin:TypeError' and argument_type_guard(fi, r):
                    col.ok('C08-raise', cons, 'argument-type guard: TypeError on the fall-through of an isinstance dispatch over a parameter (the documented error for an '
                           'unsupported source / argument type)', node=r, file=fi.file)
                elif (fid, cls) in RAISE_OK:
                    col.ok('C08-raise', cons, f'listed exception: {RAISE_OK[(fid, cls)]}', node=r, file=fi.file)
                else:
                    col.bad('C08-raise', cons, f'{fi.qualname} ({fi.file}:{r.lineno}) raises {cls.split(":")[-1]} on the parse/render path: neither a parse error, '
                            f'a pydbml.exceptions class nor one of the two documented built-in errors - it would escape as an internal error', node=r, file=fi.file)
        col.floor('C08-raise', 'raise statements on the closure', n, 25)
        # the listed exceptions still exist (a vanished entry must be noticed)
        for (fid, cls), why in RAISE_OK.items():
            fi = idx.funcs.get(fid)
            if fi is None:
                col.unk('C08-raise', f'listed:{fid}', f'listed exception refers to {fid}, which no longer exists')
    guarded(col, 'C08-raise', 'raise-audit', raises)

    # ---------------------------------------------------------------- C08-partial
    def split_unpack():
        n = 0
        for fid, fi in sorted(funcs.items()):
            for st in walk_no_nested(fi.node):
                if not (isinstance(st, ast.Assign) and isinstance(st.targets[0], (ast.Tuple, ast.List))):
                    continue
                v = st.value
                if isinstance(v, ast.IfExp):
                    continue       # `a if len(parts) == 2 else b` form is judged by its test (below)
                if not (isinstance(v, ast.Call) and isinstance(v.func, ast.Attribute) and v.func.attr in ('split', 'rsplit')):
                    continue
                arity = len(st.targets[0].elts)
                if any(isinstance(e, ast.Starred) for e in st.targets[0].elts):
                    continue
                maxsplit = v.args[1] if len(v.args) > 1 else next((k.value for k in v.keywords if k.arg == 'maxsplit'), None)
                n += 1
                recv = norm(v.func.value)
                sep = norm(v.args[0]) if v.args else None
                cons = f'{fid}:{norm(st.targets[0])}={norm(v)}'
                # dominating test: <recv>.count(sep) == arity-1  /  len(<recv>.split(sep)) == arity
                ok = False
                for path in paths_of(fi, 1):
                    hit = None
                    for i, ev in enumerate(path):
                        if ev.kind == 'stmt' and ev.node is st:
                            hit = i
                            break
                    if hit is None:
                        continue
                    lits = [c for e2 in path[:hit] if e2.kind == 'test' for c in conjuncts(term(e2.node, e2.outcome))]
                    bounded = any(l[0] == 'eq' and {l[1], l[2]} == {f'{recv}.count({sep})', str(arity - 1)} for l in lits) or \
                        any(l[0] == 'eq' and {l[1], l[2]} == {f'len({recv}.split({sep}))', str(arity)} for l in lits)
                    if not bounded:
                        ok = False
                        break
                    ok = True
                if maxsplit is not None:
                    ok = False   # maxsplit bounds from above only; too few parts still fail
                col.check(ok, 'C08-partial', 'split-unpack:' + cons, f'the number of `{sep}` separators is checked before unpacking into {arity} names',
                          f'{fi.qualname} unpacks `{norm(v)}` into {arity} names without a dominating test on the number of separators: a text with '
                          f'more (or fewer) separators raises ValueError (e.g. a quoted name containing extra dots)', node=st, file=fi.file)
        col.stat('split_unpack_sites', n)
    guarded(col, 'C08-partial', 'split-unpack', split_unpack)

    def minmax():
        n = 0
        for fid, fi in sorted(funcs.items()):
            for c in walk_no_nested(fi.node):
                if not (isinstance(c, ast.Call) and isinstance(c.func, ast.Name) and c.func.id in ('min', 'max') and len(c.args) == 1):
                    continue
                if any(k.arg == 'default' for k in c.keywords):
                    n += 1
                    col.ok('C08-partial', f'minmax:{fid}:{norm(c)[:40]}', 'min/max has a default for the empty case', node=c, file=fi.file)
                    continue
                arg = c.args[0]
                if not isinstance(arg, ast.Name):
                    continue
                n += 1
                # is the list filled unconditionally at least once on every path?
                ok = True
                for path in paths_of(fi, 2):
                    pos = None
                    for i, ev in enumerate(path):
                        if any(x is c for x in walk_event(ev)):
                            pos = i
                            break
                    if pos is None:
                        continue
                    filled = False
                    for ev in path[:pos]:
                        for x in walk_event(ev):
                            if isinstance(x, ast.Call) and isinstance(x.func, ast.Attribute) and norm(x.func.value) == arg.id and x.func.attr in ('append', 'extend', 'add'):
                                filled = True
                        if ev.kind == 'test':
                            for l in conjuncts(term(ev.node, ev.outcome)):
                                if l == ('truthy', arg.id):
                                    filled = True
                    if not filled:
                        ok = False
                col.check(ok, 'C08-partial', f'minmax:{fid}:{norm(c)[:40]}', f'`{arg.id}` is non-empty on every path to {c.func.id}()',
                          f'{fi.qualname} calls `{norm(c)}` on a path on which `{arg.id}` may still be empty and no default= is given: ValueError '
                          f'(e.g. a text made of blank lines only)', node=c, file=fi.file)
        col.stat('minmax_sites', n)
    guarded(col, 'C08-partial', 'min-max', minmax)

    def fmt():
        n = 0
        for fid, fi in sorted(funcs.items()):
            for c in walk_no_nested(fi.node):
                if not (isinstance(c, ast.Call) and isinstance(c.func, ast.Attribute) and c.func.attr in ('format', 'format_map')):
                    continue
                recv = c.func.value
                if isinstance(recv, ast.Constant):
                    continue
                n += 1
                tainted = format_taint(ctx, fi, recv, funcs)
                cons = f'format:{fid}:{norm(c)[:40]}'
                col.check(not tainted, 'C08-partial', cons, f'the template `{norm(recv)}` contains model text only in brace-escaped form',
                          f'{fi.qualname} calls `{norm(c)}` on a template into which model text was interpolated without escaping braces '
                          f'({"; ".join(tainted[:3])}): a name or comment containing `{{` or `}}` raises KeyError/IndexError/ValueError',
                          node=c, file=fi.file)
        col.floor('C08-partial', 'format sites', n, 2)
    guarded(col, 'C08-partial', 'format', fmt)

    def definite_assignment():
        n = 0
        bad = 0
        for fid, fi in sorted(funcs.items()):
            n += 1
            try:
                hits = unbound_reads(fi.node)
            except Unrecognised as e:
                col.unk('C08-partial', f'unbound:{fid}', f'cannot enumerate paths of {fi.qualname}: {e}', node=fi.node, file=fi.file)
                continue
            for nm, node in hits:
                bad += 1
                col.bad('C08-partial', f'unbound:{fid}:{nm}', f'{fi.qualname} reads the local `{nm}` ({fi.file}:{getattr(node, "lineno", 0)}) on a path on which it '
                        f'was never assigned: UnboundLocalError (or a stale value from an earlier loop iteration) for inputs that take that path',
                        node=node, file=fi.file)
        col.check(bad == 0, 'C08-partial', 'unbound:closure', f'every local read is preceded by a binding on every feasible path ({n} functions)',
                  f'{bad} possibly-unbound local reads')
    guarded(col, 'C08-partial', 'definite-assignment', definite_assignment)

    def optional_names():
        n = 0
        done: Set[Tuple[str, str]] = set()
        path_cache: Dict[str, list] = {}
        for g in gm.action_nodes():
            first_value = True
            for a in g.actions:
                if a.kind in ('internal', 'method') or a.node is None or isinstance(a.node, ast.Lambda):
                    if a.returns_value():
                        first_value = False
                    continue
                if not first_value:
                    continue
                if a.returns_value():
                    first_value = False
                tokp = a.tok_param()
                binds = [x for x in gm.action_nodes() if any(b is a or (b.key == a.key) for b in x.actions)]
                for nm, sites in action_reads(a).items():
                    subs = [node for how, node in sites if how == 'sub']
                    if not subs or (a.key, nm) in done:
                        continue
                    done.add((a.key, nm))
                    lo = min((gt.mult(b, nm)[0] if b.name != nm else 1) for b in binds)
                    if lo >= 1:
                        continue
                    n += 1
                    # every subscript must be dominated by a presence test
                    bad = None
                    sub_ids = {id(s_) for s_ in subs}
                    if a.key not in path_cache:
                        path_cache[a.key] = function_paths(a.node, unroll=1)
                    for path in path_cache[a.key]:
                        present = False
                        for ev in path:
                            if ev.kind == 'test':
                                for l in conjuncts(term(ev.node, ev.outcome)):
                                    if l == ('in', repr(nm), tokp) or l == ('truthy', f"{tokp}.get('{nm}')"):
                                        present = True
                            hit = [x for x in walk_event(ev) if id(x) in sub_ids]
                            if hit and not present:
                                # same-expression guard: `'x' in tok and tok['x']`
                                guarded_inline = False
                                for b in walk_event(ev):
                                    if isinstance(b, ast.BoolOp) and isinstance(b.op, ast.And):
                                        for i, v in enumerate(b.values):
                                            if any(x is hit[0] for x in ast.walk(v)) and any(
                                                    ('in', repr(nm), tokp) in conjuncts(term(u, True)) for u in b.values[:i]):
                                                guarded_inline = True
                                if not guarded_inline:
                                    bad = bad or hit[0]
                    col.check(bad is None, 'C08-partial', f'optional-name:{a.name}:{nm}',
                              f'tok[{nm!r}] (optional in the grammar) is read only under a presence test',
                              f'{a.name} subscripts tok[{nm!r}] on a path without `{nm!r} in tok`, but the grammar makes `{nm}` optional: a document '
                              f'that omits it raises KeyError inside the parse action (not converted into a parse error)', node=bad, file=a.module.replace('.', '/') + '.py')
        col.floor('C08-partial', 'optional results names subscripted', n, 15)
    guarded(col, 'C08-partial', 'optional-names', optional_names)

    def string_index():
        n = 0
        for fid, fi in sorted(funcs.items()):
            if isinstance(fi.node, ast.Lambda):
                continue
            strs: Set[str] = set()
            for a in fi.node.args.args:
                if a.annotation is not None and norm(a.annotation) in ('str', "'str'"):
                    strs.add(a.arg)
            changed = True
            while changed:
                changed = False
                for st in walk_no_nested(fi.node):
                    if isinstance(st, ast.Assign) and len(st.targets) == 1 and isinstance(st.targets[0], ast.Name) and st.targets[0].id not in strs:
                        v = st.value
                        der = False
                        if isinstance(v, ast.Call) and isinstance(v.func, ast.Attribute):
                            if isinstance(v.func.value, ast.Name) and v.func.value.id in strs and v.func.attr in (
                                    'strip', 'lstrip', 'rstrip', 'replace', 'lower', 'upper', 'expandtabs', 'format'):
                                der = True
                            if v.func.attr in ('sub',) and any(isinstance(x, ast.Name) and x.id in strs for x in v.args):
                                der = True
                        if isinstance(v, ast.Name) and v.id in strs:
                            der = True
                        if der:
                            strs.add(st.targets[0].id)
                            changed = True
            if not strs:
                continue
            for path in paths_of(fi, 1):
                nonempty: Set[str] = set()
                for ev in path:
                    if ev.kind == 'test':
                        for l in conjuncts(term(ev.node, ev.outcome)):
                            if l[0] == 'truthy' and l[1] in strs:
                                nonempty.add(l[1])
                    if ev.kind == 'stmt' and isinstance(ev.node, ast.Assign):
                        for t in ev.node.targets:
                            if isinstance(t, ast.Name):
                                nonempty.discard(t.id)
                    for x in walk_event(ev):
                        if isinstance(x, ast.Subscript) and isinstance(x.value, ast.Name) and x.value.id in strs and isinstance(x.ctx, ast.Load) \
                                and isinstance(x.slice, (ast.Constant, ast.UnaryOp)) and not isinstance(x.slice, ast.Slice):
                            cons = f'string-index:{fid}:{norm(x)}'
                            inline = False
                            for b in walk_event(ev):
                                if isinstance(b, ast.BoolOp) and isinstance(b.op, ast.And):
                                    for i, v in enumerate(b.values):
                                        if any(y is x for y in ast.walk(v)) and any(isinstance(u, ast.Name) and u.id == x.value.id for u in b.values[:i]):
                                            inline = True
                            ok = inline or x.value.id in nonempty
                            if any(o.construct == cons and o.status == 'refuted' for o in col.obs):
                                continue
                            if ok:
                                if not any(o.construct == cons for o in col.obs):
                                    n += 1
                                    col.ok('C08-partial', cons, f'`{norm(x)}` is guarded by a non-emptiness test', node=x, file=fi.file)
                            else:
                                col.obs[:] = [o for o in col.obs if o.construct != cons]
                                n += 1
                                col.bad('C08-partial', cons, f'{fi.qualname} evaluates `{norm(x)}` on a path on which the string `{x.value.id}` may be empty: '
                                        f'IndexError for an empty text (e.g. an empty note or property value)', node=x, file=fi.file)
        col.floor('C08-partial', 'string index sites', n, 1)
    guarded(col, 'C08-partial', 'string-index', string_index)

    def conversions():
        n = 0
        for g in gm.action_nodes():
            for a in g.actions:
                if a.node is None or a.kind == 'internal':
                    continue
                tokp = a.tok_param()
                from ..grammar import action_value
                # locals of the action are substituted (`text = tok[0]; int(text)`), so the conversion's argument is read in terms of the tokens
                root = action_value(a, idx.modules[a.module].tree if a.module in idx.modules else None) or a.node
                for c in ast.walk(root):
                    if isinstance(c, ast.Call) and isinstance(c.func, ast.Name) and c.func.id in ('int', 'float') and c.args \
                            and any(isinstance(x, ast.Name) and x.id == tokp for x in ast.walk(c.args[0])):
                        key = (a.key, c.func.id, g.module, g.line)
                        n += 1
                        cs = gt.charset(g)
                        allowed = set('0123456789') | ({'.'} if c.func.id == 'float' or True else set())
                        cons = f'conversion:{a.module.split(".")[-1]}:{c.func.id}@{g.var or g.line}'
                        if any(o.construct == cons for o in col.obs):
                            continue
                        if cs is None:
                            col.unk('C08-partial', cons, f'cannot compute the character set of the tokens passed to {c.func.id}()', node=_N(g), file=g.file)
                            continue
                        extra = set(cs) - allowed
                        # characters the converter accepts in some positions only (sign, exponent marker): their placement cannot be read off a character set
                        positional = {'+', '-'} | ({'e', 'E'} if c.func.id == 'float' else set())
                        if extra and extra <= positional:
                            col.unk('C08-partial', cons, f'the tokens passed to {c.func.id}() may contain {sorted(extra)}; whether they can only stand where {c.func.id}() '
                                    f'accepts them is not decided by this rule', node=_N(g), file=g.file)
                            continue
                        col.check(not extra, 'C08-partial', cons, f'{c.func.id}() only sees digits (and a decimal point)',
                                  f'the rule at {g.file}:{g.line} can hand {c.func.id}() a token containing {sorted(extra)}; the action picks int() unless the text '
                                  f'contains a dot, so e.g. an exponent form reaches int() and raises ValueError inside the parse action', node=_N(g), file=g.file)
                        # int() of a digit string of unbounded length: CPython (3.11+) refuses more than sys.int_max_str_digits (4300) digits with ValueError
                        if c.func.id == 'int':
                            cons2 = f'conversion-length:int@{g.var or g.line}'      # keyed by the token, not by where the converting action lives
                            if not any(o.construct == cons2 for o in col.obs):
                                ln = gt.lengths(g, cap=4300)
                                if ln is None:
                                    col.bad('C08-partial', cons2, f'the rule at {g.file}:{g.line} hands int() a digit string of unbounded length: beyond 4300 digits CPython raises '
                                            f'ValueError ("Exceeds the limit for integer string conversion") inside the parse action, which pyparsing does not turn into a '
                                            f'parse error', node=_N(g), file=g.file)
                                else:
                                    col.ok('C08-partial', cons2, f'int() sees at most {max(ln)} characters', node=_N(g), file=g.file)
        col.floor('C08-partial', 'numeric conversions in parse actions', n, 1)
    guarded(col, 'C08-partial', 'conversions', conversions)

    def hashing():
        """set(xs) / frozenset(xs) / {x for x in xs} / {x: .. for x in xs} need hashable elements: when the collection's declared element type includes a class whose
        instances are unhashable, TypeError escapes for the inputs that put such an element there."""
        from .common import unhashable_classes, annotation_element_classes
        unh = unhashable_classes(idx)
        # attribute name -> element classes per declaring class
        attr_elems: Dict[str, List[Tuple[str, Set[str]]]] = {}
        for ci in idx.classes.values():
            if not isinstance(ci.node, ast.ClassDef):
                continue
            for st in ci.node.body:
                if isinstance(st, ast.AnnAssign) and isinstance(st.target, ast.Name):
                    el = annotation_element_classes(st.annotation)
                    if el is not None:
                        attr_elems.setdefault(st.target.id, []).append((ci.name, el))
            init = ci.methods.get('__init__')
            if init is not None:
                for a in init.node.args.args[1:]:
                    el = annotation_element_classes(a.annotation)
                    if el is not None:
                        attr_elems.setdefault(a.arg, []).append((ci.name, el))
        n = 0
        ctl = ast.parse('def f(self):\n    return set(self.subject_names)\n').body[0]
        sites = []
        for fid, fi in sorted(funcs.items()):
            for c in ast.walk(fi.node):
                arg = None
                if isinstance(c, ast.Call) and isinstance(c.func, ast.Name) and c.func.id in ('set', 'frozenset') and len(c.args) == 1:
                    arg = c.args[0]
                elif isinstance(c, ast.SetComp) and isinstance(c.elt, ast.Name) and len(c.generators) == 1 and norm(c.generators[0].target) == c.elt.id:
                    arg = c.generators[0].iter
                elif isinstance(c, ast.DictComp) and isinstance(c.key, ast.Name) and len(c.generators) == 1 and norm(c.generators[0].target) == c.key.id:
                    arg = c.generators[0].iter
                if arg is not None:
                    sites.append((fi, c, arg))
        ctl_hit = [c for c in ast.walk(ctl) if isinstance(c, ast.Call) and isinstance(c.func, ast.Name) and c.func.id == 'set']
        if len(ctl_hit) != 1 or 'subject_names' not in attr_elems:
            col.unk('C08-partial', 'hashing:control', 'positive control of the hashing rule did not match')
        for fi, c, arg in sites:
            n += 1
            cons = f'hashing:{fi.id}:{norm(c)[:50]}'
            if not isinstance(arg, ast.Attribute):
                col.ok('C08-partial', cons, 'the hashed elements are not taken from a typed model/blueprint collection', node=c, file=fi.file)
                continue
            decls = attr_elems.get(arg.attr, [])
            culprits = sorted({cls for _, el in decls for cls in el if cls in unh})
            if decls and all(any(cls in unh for cls in el) for _, el in decls):
                col.bad('C08-partial', cons, f'{fi.qualname} hashes the elements of `{norm(arg)}` (`{norm(c)[:60]}`), and `{arg.attr}` is declared to hold '
                        f'{culprits} - {unh[culprits[0]]}: TypeError ("unhashable type") escapes for every input that puts such an element there', node=c, file=fi.file)
            elif culprits:
                col.unk('C08-partial', cons, f'`{arg.attr}` holds unhashable {culprits} in some of the classes that declare it; which class `{norm(arg.value)}` is, is not resolved',
                        node=c, file=fi.file)
            else:
                col.ok('C08-partial', cons, f'the elements of `{norm(arg)}` are hashable', node=c, file=fi.file)
        if n == 0:
            col.ok('C08-partial', 'hashing:none', f'no set/dict is built from a collection of model or blueprint objects in {len(funcs)} functions (control matched)',
                   file='pydbml/parser/blueprints.py')
    guarded(col, 'C08-partial', 'hashing', hashing)

    def lookup_tables():
        # shared with C01-default: boolean lookup table keys = literal spellings
        sub = ctx.sub('c01', col.prop)
        n = 0
        for o in sub.obs:
            if o.rule == 'C01-default' and o.construct.startswith('boolean:keys'):
                n += 1
                col.obs.append(type(o)(col.prop, 'C08-partial', 'lookup-table:' + o.construct, o.status, o.msg, o.file, o.line, o.extra))
        col.floor('C08-partial', 'literal lookup tables', n, 1)
    guarded(col, 'C08-partial', 'lookup-tables', lookup_tables)

    def preconditions():
        # a listed raise is excused by what its callers pass: doublequote_string raises ValueError on a line break, which is unreachable only while every
        # call site passes a value read from the single-line identifier token.  Each call site is resolved to (model class, attribute) and compared with
        # the token class the grammar feeds that attribute from.
        from .. import flows
        rc = flows.reader_classes(ctx)
        envs = flows.build_envs(ctx, ('pydbml.renderer.', 'pydbml._classes.'))
        n = 0
        for fid, fi in sorted(funcs.items()):
            for c in walk_no_nested(fi.node):
                if not (isinstance(c, ast.Call) and norm(c.func).split('.')[-1] == 'doublequote_string' and c.args):
                    continue
                n += 1
                cons = f'{fi.qualname}:doublequote_string({norm(c.args[0])[:40]})'
                ap = access_path(c.args[0])
                if not ap or '.' not in ap:
                    col.unk('C08-precondition', cons, f'{fi.qualname} passes `{norm(c.args[0])}` to doublequote_string; cannot tell which attribute that is', node=c, file=fi.file)
                    continue
                obj, attr = ap.rsplit('.', 1)
                pairs_ = {(idx.classes[t].name, attr) for t in flows.type_of_path(ctx, fi, obj, envs.get(fi.id))}
                if not pairs_:
                    col.unk('C08-precondition', cons, f'{fi.qualname} passes `{ap}` to doublequote_string; the class of `{obj}` is not known', node=c, file=fi.file)
                    continue
                verdict = 'ok'
                why = []
                for pr in sorted(pairs_):
                    cls = rc.get(pr)
                    if cls is None:
                        verdict = 'unk' if verdict == 'ok' else verdict
                        why.append(f'{pr[0]}.{pr[1]}: source token unknown')
                    elif any('text' in k for k in cls):
                        verdict = 'bad'
                        why.append(f'{pr[0]}.{pr[1]} is read from a string literal, which may contain a line break (escape \\n or a triple-quoted literal)')
                    elif cls <= {'ident'}:
                        why.append(f'{pr[0]}.{pr[1]}: identifier token')
                    else:
                        verdict = 'unk' if verdict == 'ok' else verdict
                        why.append(f'{pr[0]}.{pr[1]}: token classes {sorted(cls)}')
                if verdict == 'ok':
                    col.ok('C08-precondition', cons, '; '.join(why), node=c, file=fi.file)
                elif verdict == 'bad':
                    col.bad('C08-precondition', cons, f'{fi.qualname} calls doublequote_string, which raises ValueError on a line break, with `{ap}`: ' + '; '.join(why)
                            + ' - a document that parses makes the rendering escape with ValueError', node=c, file=fi.file)
                else:
                    col.unk('C08-precondition', cons, f'{fi.qualname} calls doublequote_string with `{ap}`: ' + '; '.join(why), node=c, file=fi.file)
        col.floor('C08-precondition', 'call sites of doublequote_string', n, 2)
    guarded(col, 'C08-precondition', 'preconditions', preconditions)

    def presence():
        """`if not self.database:` means "no database yet" only while a Database is always truthy.  A model class that defines __bool__/__len__ turns every such
        presence test into a content test: an empty-but-present object takes the "not set" branch (a RuntimeError meant for an impossible state, a lookup that is
        skipped).  Note and StickyNote define __bool__ on purpose (a note without text counts as no note); for every other class each truth test on a value
        declared to hold it is reported."""
        from .presence import falsy_capable, truth_tested, expr_classes
        DESIGNED = {'Note': 'a note without text counts as no note (renderers test `if model.note:`)', 'StickyNote': 'same convention as Note'}
        fc = falsy_capable(idx)
        model = {cid: ci for cid, ci in idx.classes.items() if ci.module.startswith(('pydbml._classes', 'pydbml.database', 'pydbml.parser'))}
        risky = {cid: how for cid, how in fc.items() if cid in model and idx.classes[cid].name not in DESIGNED}
        col.stat('classes_with_truth_value', sorted(f'{idx.classes[c].name} ({h})' for c, h in fc.items()))
        n_sites = 0
        if risky:
            for fi in idx.all_funcs():
                if not isinstance(fi.node, (ast.FunctionDef, ast.Lambda)):
                    continue
                for site, e in truth_tested(fi.node):
                    hit = sorted(idx.classes[c].name for c in expr_classes(idx, fi, e) & set(risky))
                    if hit:
                        n_sites += 1
                        col.bad('C08-presence', f'{fi.qualname}:{norm(e)[:40]}', f'{fi.qualname} tests `{norm(e)[:60]}` for truth to see whether it is set, but it may hold a '
                                f'{"/".join(hit)}, which defines {risky[next(c for c in risky if idx.classes[c].name == hit[0])]}: an empty one counts as "not set" and the '
                                f'branch for the missing object runs (an internal error or a skipped step) although the object is there', node=site, file=fi.file)
        col.check(n_sites == 0, 'C08-presence', 'presence-tests', f'no model class other than {sorted(DESIGNED)} has a truth value of its own, so `if x:` on model objects '
                  f'asks whether x is set ({len(model)} classes)', f'{n_sites} presence tests on objects that can be falsy while present ({sorted(idx.classes[c].name for c in risky)})')
        # control: the two classes that do define a truth value are still seen by the collector
        col.floor('C08-presence', 'classes with __bool__/__len__ (Note, StickyNote)', len(fc), 2)
    guarded(col, 'C08-presence', 'presence', presence)

    def inline_single_column():
        """The DBML renderer refuses an inline reference with more than one column on the referenced side (`raise DBMLError(... composite ref cannot be inline)`).
        For a parsed database `.dbml` must not raise, so every inline reference the parser builds has exactly one such column: (i) the grammar of the inline form
        takes ONE name there (no parenthesised list), and (ii) the builder does not make several names out of that one token."""
        rr = [fi for fi in funcs.values() if fi.module.startswith('pydbml.renderer.dbml.') and isinstance(fi.node, ast.FunctionDef)]
        guards = []
        for fi in rr:
            for n in walk_no_nested(fi.node):
                if isinstance(n, ast.If) and any(isinstance(x, ast.Raise) for x in n.body) and any(
                        isinstance(c, ast.Call) and norm(c.func) == 'len' and c.args and isinstance(c.args[0], ast.Attribute) and c.args[0].attr in ('col1', 'col2')
                        for c in ast.walk(n.test)):
                    guards.append((fi, n))
        if not guards:
            col.ok('C08-precondition', 'inline-reference:single-column', 'the DBML renderer has no raise that depends on the number of columns of a reference')
            return
        fi0, g0 = guards[0]
        side = next(c.args[0].attr for c in ast.walk(g0.test) if isinstance(c, ast.Call) and norm(c.func) == 'len' and c.args and isinstance(c.args[0], ast.Attribute))
        # (i) the token that feeds that side in the inline form
        nodes = gm.nodes_with_action('parse_inline_relation')
        if not nodes:
            col.unk('C08-precondition', 'inline-reference:single-column', f'{fi0.qualname} raises when an inline reference has several {side} columns; the parse action of the '
                    f'inline form (parse_inline_relation) was not found in the grammar, so the number of columns it produces is unknown', node=g0, file=fi0.file)
            return
        act = idx.func('pydbml.definitions.reference', 'parse_inline_relation')
        src_name = None
        for n in ast.walk(act.node):
            if isinstance(n, ast.Dict):
                for k, v in zip(n.keys, n.values):
                    if isinstance(k, ast.Constant) and k.value == side:
                        subs = [x for x in ast.walk(v) if isinstance(x, ast.Subscript) and isinstance(x.slice, ast.Constant) and isinstance(x.slice.value, str)]
                        if subs:
                            src_name = subs[-1].slice.value
            if isinstance(n, ast.keyword) and n.arg == side:
                subs = [x for x in ast.walk(n.value) if isinstance(x, ast.Subscript) and isinstance(x.slice, ast.Constant) and isinstance(x.slice.value, str)]
                if subs:
                    src_name = subs[-1].slice.value
        if src_name is None:
            col.unk('C08-precondition', 'inline-reference:single-column', f'cannot see which token parse_inline_relation passes as {side}', node=act.node, file=act.file)
            return
        from ..grammar import named_nodes
        toks = [t for nd in nodes for t in gt.walk(nd) if t.name == src_name]
        if not toks:
            col.unk('C08-precondition', 'inline-reference:single-column', f'no grammar element named `{src_name}` below the inline reference form', node=act.node, file=act.file)
            return
        composite = [t for t in toks if any(x.kind in ('lit', 'keyword') and x.a.get('text') in (',', '(') for x in gt.walk(t))]
        where_c = f'{composite[0].module}:{composite[0].line}' if composite else ''
        col.check(not composite, 'C08-precondition', 'inline-reference:single-column',
                  f'the inline form takes one name as the referenced column (`{src_name}`), so the renderer\'s refusal of composite inline references cannot fire on a parsed database',
                  f'the inline reference form accepts a parenthesised list of columns as `{src_name}` ({where_c}): the parser '
                  f'builds an inline reference with several {side} columns, and {fi0.qualname} raises DBMLError for it - `.dbml` of a database that parsed raises',
                  node=g0, file=fi0.file)
        split_of_quoted_name(ctx, col, gm, 'C08-precondition', 'inline-reference', side)
    guarded(col, 'C08-precondition', 'inline-single-column', inline_single_column)

    def kind_lookups():
        # a table indexed by the kind of a reference (`_FK_TABLE[ref.type]`): the kind ranges over the four relation constants, so every kind under which the
        # lookup is reached needs a key - decided by partial evaluation of the function once per kind (tests on the kind folded, `continue`/`return` followed)
        from ..peval import run as _prun
        from .c18 import const_names
        kinds = sorted(const_names(ctx))
        n = 0
        for fid, fi in sorted(funcs.items()):
            if not isinstance(fi.node, ast.FunctionDef):
                continue
            for sub in walk_no_nested(fi.node):
                if not (isinstance(sub, ast.Subscript) and isinstance(sub.ctx, ast.Load) and isinstance(sub.value, ast.Name) and isinstance(sub.slice, ast.Attribute)
                        and sub.slice.attr == 'type'):
                    continue
                sym = idx.resolve(fi.module, sub.value.id)
                d = sym.node if sym is not None and sym.kind == 'assign' else None
                if not (isinstance(d, ast.Dict) and d.keys and all(isinstance(k, ast.Name) for k in d.keys)):
                    continue
                keys = {k.id for k in d.keys}
                if not keys <= set(kinds):
                    continue
                n += 1
                subject = norm(sub.slice)
                missing = []
                for K in kinds:
                    if K in keys:
                        continue
                    tr = _prun(fi.node, subject, K)
                    if any(s_ is sub for s_, _ in tr.subscripts):
                        missing.append(K)
                cons = f'kind-lookup:{fi.qualname}:{sub.value.id}'
                if missing:
                    col.bad('C08-partial', cons, f'{fi.qualname} evaluates `{norm(sub)}` for references of kind {missing}, but `{sub.value.id}` has keys {sorted(keys)} only: '
                            f'KeyError for a database that parsed (e.g. an inline `-` reference)', node=sub, file=fi.file)
                else:
                    col.ok('C08-partial', cons, f'`{norm(sub)}` is reached only for kinds that are keys of `{sub.value.id}`', node=sub, file=fi.file)
        if n == 0:
            col.ok('C08-partial', 'kind-lookup:none', 'no table is indexed by the kind of a reference', file='pydbml/renderer/sql/default/utils.py')
    guarded(col, 'C08-partial', 'kind-lookups', kind_lookups)

    def required_check():
        # `.sql` first calls check_attributes_for_sql.  For a parsed database every required attribute is set, but possibly to a falsy value: the quoted
        # alternative of the name token accepts `""`.  The check may therefore test for None only; a truth-value test makes an empty name "missing" and `.sql`
        # of a database that parsed raises.
        fi = idx.func('pydbml._classes.base', 'SQLObject.check_attributes_for_sql')
        name_tok = gm.var('generic', 'name')
        can_be_empty = any(k.kind == 'quoted' for k in gt.walk(name_tok))
        tests: List[ast.AST] = []
        for n in ast.walk(fi.node):
            if isinstance(n, (ast.If, ast.IfExp, ast.While)):
                tests.append(n.test)
            elif isinstance(n, ast.comprehension):
                tests += n.ifs
            elif isinstance(n, ast.Assert):
                tests.append(n.test)

        def atoms(e):
            if isinstance(e, ast.BoolOp):
                return [a for v in e.values for a in atoms(v)]
            if isinstance(e, ast.UnaryOp) and isinstance(e.op, ast.Not):
                return atoms(e.operand)
            return [e]

        def is_read(c):
            return isinstance(c, ast.Call) and norm(c.func) == 'getattr' and c.args and norm(c.args[0]) == 'self'
        held = {n.targets[0].id for n in ast.walk(fi.node) if isinstance(n, ast.Assign) and len(n.targets) == 1 and isinstance(n.targets[0], ast.Name) and is_read(n.value)}
        held |= {n.target.id for n in ast.walk(fi.node) if isinstance(n, ast.NamedExpr) and is_read(n.value)}

        def reads_attr(e):
            return any(is_read(c) or (isinstance(c, ast.Name) and c.id in held) for c in ast.walk(e))
        n = 0
        for t in tests:
            for a in atoms(t):
                if not reads_attr(a):
                    continue
                n += 1
                cons = f'check_attributes_for_sql:{norm(a)[:50]}'
                if isinstance(a, ast.Compare) and len(a.ops) == 1 and isinstance(a.ops[0], (ast.Is, ast.IsNot, ast.Eq, ast.NotEq)) \
                        and isinstance(a.comparators[0], ast.Constant) and a.comparators[0].value is None:
                    col.ok('C08-required', cons, 'the required-attribute check tests for None only', node=a, file=fi.file)
                elif is_read(a) or (isinstance(a, ast.Name) and a.id in held):
                    if can_be_empty:
                        col.bad('C08-required', cons, f'check_attributes_for_sql tests the truth value of `{norm(a)}`: the name token accepts `""`, so a document that '
                                f'parses (an element named "") makes `.sql` raise AttributeMissingError', node=a, file=fi.file)
                    else:
                        col.unk('C08-required', cons, f'check_attributes_for_sql tests the truth value of `{norm(a)}`; cannot tell whether a parsed value can be falsy', node=a, file=fi.file)
                else:
                    col.unk('C08-required', cons, f'check_attributes_for_sql tests `{norm(a)}`, which is neither a None test nor a truth-value test', node=a, file=fi.file)
        col.floor('C08-required', 'tests on required attributes', n, 1)
    guarded(col, 'C08-required', 'required-check', required_check)


def split_of_quoted_name(ctx, col: Collector, gm, rule: str, prefix: str, side: str = 'col2') -> None:
    """The endpoint names of a reference are the names written.  The blueprint carries one side as ONE text and the builder splits it at a separator to get the
    names; that is only right if no single name can contain the separator - a name written in quotes can.  (Shared by C08-precondition and C01-resolve.)"""
    idx = ctx.idx
    nodes = gm.nodes_with_action('parse_inline_relation') + gm.nodes_with_action('parse_ref')
    toks = [t for nd in nodes for t in gt.walk(nd) if t.name in ('field', 'field1', 'field2')]
    from .common import expanded as _expanded
    rb = _expanded(ctx, 'pydbml.parser.blueprints', 'ReferenceBlueprint.build', keep_extra=('locate_table',))
    splits = [c for c in ast.walk(rb.node) if isinstance(c, ast.Call) and isinstance(c.func, ast.Attribute) and c.func.attr == 'split' and c.args
              and isinstance(c.args[0], ast.Constant) and isinstance(c.func.value, ast.Attribute) and c.func.value.attr == side]
    # the same done with a regular expression: `PATTERN.findall(self.colN)` with PATTERN = [^<separators>]+ cuts a name at every separator character
    from ..strctx import _const_pattern
    for c in ast.walk(rb.node):
        if isinstance(c, ast.Call) and isinstance(c.func, ast.Attribute) and c.func.attr in ('findall', 'finditer') and c.args \
                and isinstance(c.args[-1], ast.Attribute) and c.args[-1].attr == side:
            pat = None
            if isinstance(c.func.value, ast.Name):
                for mn in (rb.module, 'pydbml.parser.blueprints', 'pydbml.tools'):
                    sym = idx.resolve(mn, c.func.value.id)
                    if sym is not None and sym.kind == 'assign' and isinstance(sym.node, ast.Call) and norm(sym.node.func) in ('re.compile', 'compile') and sym.node.args \
                            and isinstance(sym.node.args[0], ast.Constant):
                        pat = sym.node.args[0].value
                        break
            elif norm(c.func.value) == 're' and len(c.args) == 2 and isinstance(c.args[0], ast.Constant):
                pat = c.args[0].value
            cons_r = f'{prefix}:{side}:names-cut-by-pattern'
            if pat is None:
                col.unk(rule, cons_r, f'the column names of {side} are taken with `{norm(c)[:60]}`; the pattern is not a literal this rule can read', node=c, file=rb.file)
                continue
            import re._parser as _sp
            import re._constants as _sc
            try:
                tree = list(_sp.parse(pat))
            except Exception:
                tree = []
            cut = None
            if len(tree) == 1 and tree[0][0] is _sc.MAX_REPEAT and len(tree[0][1][2]) == 1 and tree[0][1][2][0][0] is _sc.IN \
                    and tree[0][1][2][0][1] and tree[0][1][2][0][1][0][0] is _sc.NEGATE:
                cut = set()
                for kind, val in tree[0][1][2][0][1][1:]:
                    if kind is _sc.LITERAL:
                        cut.add(chr(val))
                    elif kind is _sc.CATEGORY and val is _sc.CATEGORY_SPACE:
                        cut |= set(' \t\n')
                    else:
                        cut = None
                        break
            if cut is None:
                col.unk(rule, cons_r, f'the column names of {side} are taken with the pattern {pat!r}, which this rule cannot read as "runs of non-separators"', node=c, file=rb.file)
            elif cut - set(',()'):
                extra = ''.join(sorted(cut - set(',()')))
                col.bad(rule, cons_r, f'the column names of {side} are the runs of characters outside {sorted(cut)!r} (pattern {pat!r}): a quoted column name that contains '
                        f'{extra!r} - `"tax id"` - is cut into several names; the reference then links other columns than the one addressed, or fails with '
                        f'ColumnNotFoundError although the column exists', node=c, file=rb.file)
            else:
                splits.append(c)            # cuts at `,` only: the same (known) limitation as the split form
    free_text = any(k.kind == 'quoted' for t in toks for k in gt.walk(t))
    sep = (splits[0].args[0].value if isinstance(splits[0].args[0], ast.Constant) else ',') if splits else None
    cons = f'{prefix}:{side}:split-of-quoted-name'
    if splits and not toks:
        col.unk(rule, cons, 'the endpoint tokens of the reference forms were not found in the grammar', node=splits[0], file=rb.file)
    elif splits and free_text:
        col.bad(rule, cons, f'ReferenceBlueprint.build recovers the column names by splitting the {side} text at '
                f'{sep!r}, but the token is a name that may be written in quotes and then contain {sep!r}: `ref: > t."a,b"` names ONE column and is built as a reference '
                f'to the columns a and b - an inline reference with two columns, for which `.dbml` raises DBMLError (and the same misreading for the other forms)',
                node=splits[0], file=rb.file)
    elif splits:
        col.ok(rule, cons, f'the names split at {sep!r} cannot contain it', node=splits[0], file=rb.file)
    else:
        col.ok(rule, cons, f'ReferenceBlueprint.build does not split the {side} text', node=rb.node, file=rb.file)


def format_taint(ctx, fi: FuncInfo, recv: ast.AST, funcs: Dict[str, FuncInfo], depth: int = 0) -> List[str]:
    """Un-escaped data interpolations that can reach the string `recv` (a template for str.format)."""
    idx = ctx.idx
    out: List[str] = []
    if depth > 4:
        return ['(depth)']

    def expr_taint(e: ast.AST, fn: FuncInfo, d: int) -> List[str]:
        res: List[str] = []
        if isinstance(e, ast.Constant):
            return res
        if isinstance(e, ast.JoinedStr):
            for v in e.values:
                if isinstance(v, ast.FormattedValue):
                    res.extend(expr_taint(v.value, fn, d))
            return res
        if isinstance(e, ast.BinOp) and isinstance(e.op, ast.Add):
            return expr_taint(e.left, fn, d) + expr_taint(e.right, fn, d)
        if isinstance(e, ast.IfExp):
            return expr_taint(e.body, fn, d) + expr_taint(e.orelse, fn, d)
        if isinstance(e, (ast.List, ast.Tuple)):
            for x in e.elts:
                res.extend(expr_taint(x.value if isinstance(x, ast.Starred) else x, fn, d))
            return res
        if isinstance(e, (ast.ListComp, ast.GeneratorExp)):
            return expr_taint(e.elt, fn, d)
        if isinstance(e, ast.Name):
            vals = [n.value for n in walk_no_nested(fn.node) if isinstance(n, ast.Assign) and len(n.targets) == 1 and norm(n.targets[0]) == e.id]
            augs = [n.value for n in walk_no_nested(fn.node) if isinstance(n, ast.AugAssign) and norm(n.target) == e.id]
            # a list filled piece by piece: what is appended / extended into it
            for c_ in walk_no_nested(fn.node):
                if isinstance(c_, ast.Call) and isinstance(c_.func, ast.Attribute) and c_.func.attr in ('append', 'extend', 'insert') \
                        and isinstance(c_.func.value, ast.Name) and c_.func.value.id == e.id and c_.args:
                    augs.append(c_.args[-1])
            if not vals and not augs:
                params = [a.arg for a in fn.node.args.args]
                return [f'parameter `{e.id}` of {fn.qualname}'] if e.id in params else []
            for v in vals + augs:
                if any(isinstance(x, ast.Name) and x.id == e.id for x in ast.walk(v)) and not isinstance(v, ast.Call):
                    continue
                res.extend(expr_taint(v, fn, d))
            return res
        if isinstance(e, ast.Call):
            f = e.func
            nm = f.id if isinstance(f, ast.Name) else (f.attr if isinstance(f, ast.Attribute) else '')
            if nm in ('escape_braces',) or (isinstance(f, ast.Attribute) and f.attr == 'replace' and len(e.args) == 2 and all(
                    isinstance(a, ast.Constant) for a in e.args) and e.args[0].value in ('{', '}')):
                # an escaping helper: judged by its body
                if nm == 'escape_braces':
                    sym = idx.resolve(fn.module, nm)
                    t = idx.funcs.get(f'{sym.module}:{sym.name}') if sym is not None and sym.kind == 'func' else None
                    if t is not None and escapes_braces(t):
                        return res
                    return [f'`{nm}` does not double both braces']
                return res
            if nm == 'join' and isinstance(f, ast.Attribute):
                for a in e.args:
                    if isinstance(a, (ast.Tuple, ast.List)):
                        for x in a.elts:
                            res.extend(expr_taint(x, fn, d))
                    else:
                        res.extend(expr_taint(a, fn, d))
                return res
            if nm in ('upper', 'lower', 'strip') and isinstance(f, ast.Attribute):
                return expr_taint(f.value, fn, d)
            # resolved local/package function: taint of its returns
            targets: List[FuncInfo] = []
            if isinstance(f, ast.Name):
                # func = a if cond else b
                cands = [f.id]
                for n in walk_no_nested(fn.node):
                    if isinstance(n, ast.Assign) and len(n.targets) == 1 and norm(n.targets[0]) == f.id and isinstance(n.value, ast.IfExp):
                        cands = [norm(n.value.body), norm(n.value.orelse)]
                for cnd in cands:
                    sym = idx.resolve(fn.module, cnd)
                    if sym is not None and sym.kind == 'func':
                        t = idx.funcs.get(f'{sym.module}:{sym.name}')
                        if t is not None:
                            targets.append(t)
            if targets and d < 4:
                for t in targets:
                    if escapes_braces(t):
                        continue
                    for r in walk_no_nested(t.node):
                        if isinstance(r, ast.Return) and r.value is not None:
                            res.extend(expr_taint(r.value, t, d + 1))
                return res
            return [f'`{norm(e)[:50]}` in {fn.qualname}']
        if isinstance(e, ast.Attribute):
            if e.attr in CLOSED_VOCAB_ATTRS:
                return res
            return [f'`{norm(e)}` in {fn.qualname}']
        if isinstance(e, ast.Subscript):
            return [f'`{norm(e)[:40]}` in {fn.qualname}']
        return [f'`{norm(e)[:40]}` in {fn.qualname}']
    return expr_taint(recv, fi, depth)


def escapes_braces(fi: FuncInfo) -> bool:
    """The function returns its argument with `{`->`{{` and `}`->`}}` applied (directly or around its result)."""
    src = ' '.join(norm(r.value) for r in walk_no_nested(fi.node) if isinstance(r, ast.Return) and r.value is not None)
    a = ".replace('{', '{{')" in src
    b = ".replace('}', '}}')" in src
    if a and b:
        return True
    # a function whose every return is wrapped in a call of an escaping function
    rets = [r.value for r in walk_no_nested(fi.node) if isinstance(r, ast.Return) and r.value is not None]
    return bool(rets) and all(isinstance(v, ast.Call) and isinstance(v.func, ast.Name) and v.func.id == 'escape_braces' for v in rets)
