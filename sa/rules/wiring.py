"""What PyDBMLParser.parse_blueprint does with a blueprint of each class.

parse_blueprint is specialised per blueprint class K (sa.inline with types={blueprint: K}): isinstance tests on the blueprint are decided, dispatch tables
are unrolled (normalise D3e), methods called on the parser, on the blueprint and on the elements of its declared collections are resolved through the class and
inlined.  What remains is (nearly) straight-line code from which the facts are read:

    stores        the collections of the parser the blueprint (or an element reached from it) is put into
    parser_sets   the objects that get `.parser = <the parser>`:  'self' (the blueprint), 'elem(<bp>.columns)', 'elem(<bp>.get_reference_blueprints())',
                  '<...>.note', each with the conditions it stands under
    undecided     an isinstance test on the blueprint is left (the specialisation did not decide the dispatch)
    opaque        calls that receive the blueprint / the parser / an element and could not be followed (no verdict from absence while there are any)
"""
from __future__ import annotations

import ast
from typing import Dict, List, Optional, Tuple

from ..core import norm, Unrecognised, AnchorMissing
from ..inline import inlined_info, _strip_default
from ..pyindex import FuncInfo

PARSER_MOD = 'pydbml.parser.parser'
BP = 'pydbml.parser.blueprints'
_BUILTIN_METHODS = {'append', 'extend', 'insert', 'add', 'get', 'items', 'keys', 'values', 'split', 'strip', 'join', 'format', 'startswith', 'endswith', 'lower', 'upper',
                    'index', 'pop', 'remove', 'copy', 'update', 'setdefault', 'replace'}


class KindFacts:
    def __init__(self, cls: str, fn: FuncInfo, var: str):
        self.cls = cls
        self.fn = fn
        self.var = var
        self.stores: List[Tuple[str, str, str, ast.AST, List[str]]] = []      # (collection, how, what is stored (descriptor), node, conditions)
        self.parser_sets: Dict[str, List[Tuple[ast.AST, List[str]]]] = {}
        self.undecided = False
        self.opaque: List[str] = []
        self.raises_unconditionally = False


def _blueprint_var(fn: ast.FunctionDef) -> Optional[str]:
    for st in fn.body:
        if isinstance(st, ast.Assign) and len(st.targets) == 1 and isinstance(st.targets[0], ast.Name) and isinstance(st.value, ast.Subscript) \
                and isinstance(st.value.slice, ast.Constant) and st.value.slice.value == 0:
            return st.targets[0].id
    return None


def _irrelevant(idx) -> set:
    """Names of package functions that neither set a `.parser` attribute, nor store into an attribute of their `self`, nor call a function that does:
    they are left as calls (their results are followed as values, e.g. `blueprint.get_reference_blueprints()`)."""
    cached = getattr(idx, '_wiring_irrelevant', None)
    if cached is not None:
        return cached
    by_name: Dict[str, List[FuncInfo]] = {}
    for fi in idx.funcs.values():
        by_name.setdefault(fi.qualname.split('.')[-1], []).append(fi)
    relevant: set = set()

    def direct(fi: FuncInfo) -> bool:
        for n in ast.walk(fi.node):
            if isinstance(n, ast.Assign):
                for t in n.targets:
                    if isinstance(t, ast.Attribute) and (t.attr == 'parser' or (isinstance(t.value, ast.Name) and t.value.id == 'self' and fi.module == PARSER_MOD)):
                        return True
            if isinstance(n, ast.Call) and isinstance(n.func, ast.Attribute) and n.func.attr in ('append', 'extend', 'insert', 'add') \
                    and isinstance(n.func.value, ast.Attribute) and isinstance(n.func.value.value, ast.Name) and n.func.value.value.id == 'self' and fi.module == PARSER_MOD:
                return True
        return False
    for nm, fis in by_name.items():
        if any(direct(f) for f in fis):
            relevant.add(nm)
    for _ in range(4):
        grew = False
        for nm, fis in by_name.items():
            if nm in relevant:
                continue
            for f in fis:
                if any(isinstance(c, ast.Call) and ((isinstance(c.func, ast.Attribute) and c.func.attr in relevant) or (isinstance(c.func, ast.Name) and c.func.id in relevant))
                       for c in ast.walk(f.node)):
                    relevant.add(nm)
                    grew = True
                    break
        if not grew:
            break
    out = set(by_name) - relevant
    idx._wiring_irrelevant = out
    return out


def kind_facts(ctx, cls_name: str) -> KindFacts:
    idx = ctx.idx
    cache = ctx.__dict__.setdefault('_kind_facts', {})
    if cls_name in cache:
        return cache[cls_name]
    pcls = idx.cls(PARSER_MOD, 'PyDBMLParser')
    pb = pcls.methods.get('parse_blueprint')
    if pb is None:
        raise AnchorMissing('PyDBMLParser.parse_blueprint')
    var = _blueprint_var(pb.node)
    if var is None:
        raise Unrecognised('parse_blueprint does not take the blueprint from `tok[0]`', pb.node)
    ci = idx.cls(BP, cls_name)
    spec = inlined_info(idx, pb, 5, _irrelevant(idx), {var: ci.id})
    kf = KindFacts(cls_name, spec, var)
    selfname = spec.node.args.args[0].arg

    colls: Dict[str, set] = {}          # local name -> descriptors of the elements of the collection it holds
    _PASS = {'list', 'tuple', 'sorted', 'reversed', 'iter', 'set', 'frozenset'}

    def desc(e: ast.AST, loops: Dict[str, str]) -> Optional[str]:
        e = _strip_default(e)
        if isinstance(e, ast.Name):
            if e.id == var:
                return 'self'
            if e.id in loops:
                return loops[e.id]
            return None
        if isinstance(e, ast.Attribute):
            b = desc(e.value, loops)
            return f'{b}.{e.attr}' if b is not None else None
        if isinstance(e, ast.Call) and isinstance(e.func, ast.Attribute) and not e.args and not e.keywords:
            b = desc(e.func.value, loops)
            return f'{b}.{e.func.attr}()' if b is not None else None
        return None

    def elems(e: ast.AST, loops: Dict[str, str], depth: int = 0) -> Optional[set]:
        """Descriptors of the elements of a collection-valued expression: a declared collection of the blueprint, `chain(a, b)`, `[*a, b]`, `a + b`, a
        comprehension over such a collection, a local list built by appends."""
        if depth > 6:
            return None
        e = _strip_default(e)
        if isinstance(e, ast.Name) and e.id in colls:
            return set(colls[e.id])
        if isinstance(e, ast.Call) and not e.keywords and e.args:
            fn = norm(e.func).split('.')[-1]
            if fn == 'chain' and isinstance(e.func, (ast.Name, ast.Attribute)) and not (isinstance(e.func, ast.Attribute) and e.func.attr == 'from_iterable'):
                out: set = set()
                for a in e.args:
                    x = elems(a, loops, depth + 1)
                    if x is None:
                        return None
                    out |= x
                return out
            if fn in _PASS and isinstance(e.func, ast.Name) and len(e.args) == 1:
                return elems(e.args[0], loops, depth + 1)
        if isinstance(e, (ast.Tuple, ast.List, ast.Set)):
            out = set()
            for x in e.elts:
                if isinstance(x, ast.Starred):
                    y = elems(x.value, loops, depth + 1)
                    if y is None:
                        return None
                    out |= y
                else:
                    d = desc(x, loops)
                    if d is None:
                        return None
                    out.add(d)
            return out
        if isinstance(e, ast.BinOp) and isinstance(e.op, ast.Add):
            a, b = elems(e.left, loops, depth + 1), elems(e.right, loops, depth + 1)
            return None if a is None or b is None else a | b
        if isinstance(e, (ast.GeneratorExp, ast.ListComp, ast.SetComp)) and len(e.generators) == 1 and isinstance(e.generators[0].target, ast.Name):
            g = e.generators[0]
            src = elems(g.iter, loops, depth + 1)
            if src is None:
                return None
            out = set()
            for d0 in src:
                lp = dict(loops)
                lp[g.target.id] = d0
                d = desc(e.elt, lp)
                if d is None:
                    return None
                out.add(d)
            return out
        d = desc(e, loops)
        return {f'elem({d})'} if d is not None else None

    def walk(stmts: List[ast.stmt], conds: List[str], loops: Dict[str, str], top: bool):
        for st in stmts:
            if isinstance(st, ast.If):
                if any(isinstance(c, ast.Call) and norm(c.func) == 'isinstance' and c.args and norm(c.args[0]) == var for c in ast.walk(st.test)):
                    kf.undecided = True
                walk(st.body, conds + [norm(st.test)], loops, False)
                walk(st.orelse, conds + [f'not({norm(st.test)})'], loops, False)
                continue
            if isinstance(st, ast.For):
                src = elems(st.iter, loops)
                if src is None:
                    src = {f'?{norm(st.iter)[:30]}'}
                for d0 in sorted(src):
                    lp = dict(loops)
                    if isinstance(st.target, ast.Name):
                        lp[st.target.id] = d0
                    walk(st.body, conds, lp, False)
                walk(st.orelse, conds, loops, False)
                continue
            if isinstance(st, (ast.With, ast.Try)):
                walk(st.body, conds, loops, False)
                for h in getattr(st, 'handlers', []) or []:
                    walk(h.body, conds + ['except'], loops, False)
                continue
            if isinstance(st, ast.Raise) and top:
                kf.raises_unconditionally = True
            if isinstance(st, (ast.Assign, ast.AnnAssign)) and (isinstance(st, ast.AnnAssign) or len(st.targets) == 1) and getattr(st, 'value', None) is not None:
                t = st.targets[0] if isinstance(st, ast.Assign) else st.target
                if isinstance(t, ast.Attribute) and t.attr == 'parser' and norm(st.value) == selfname:
                    d = desc(t.value, loops)
                    kf.parser_sets.setdefault(d if d is not None else f'?{norm(t.value)[:40]}', []).append((st, list(conds)))
                    continue
                if isinstance(t, ast.Attribute) and norm(t.value) == selfname:
                    d = desc(st.value, loops)
                    if d is not None:
                        kf.stores.append((f'self.{t.attr}', 'assign', d, st, list(conds)))
                        continue
                if isinstance(t, ast.Name):
                    v = _strip_default(st.value)
                    d = desc(st.value, loops) if isinstance(v, (ast.Name, ast.Attribute, ast.Call)) else None
                    if d is not None and not (isinstance(v, ast.Name) and v.id in colls):
                        loops[t.id] = d        # alias of one object (or of a declared collection: its elements are elem(d))
                        colls.pop(t.id, None)
                        continue
                    es = elems(st.value, loops) if not (isinstance(v, (ast.List, ast.Tuple)) and not v.elts) else set()
                    if es is not None and (isinstance(v, (ast.List, ast.Tuple, ast.Set, ast.GeneratorExp, ast.ListComp, ast.SetComp, ast.BinOp))
                                           or (isinstance(v, ast.Call) and norm(v.func).split('.')[-1] in (_PASS | {'chain'})) or (isinstance(v, ast.Name) and v.id in colls)):
                        colls[t.id] = es
                        loops.pop(t.id, None)
                        continue
            for c in ast.walk(st):
                if not isinstance(c, ast.Call):
                    continue
                if isinstance(c.func, ast.Attribute) and c.func.attr in ('append', 'insert', 'extend', 'add', 'appendleft') and c.args:
                    recv = norm(c.func.value)
                    single = c.func.attr != 'extend'
                    ds = None
                    if single:
                        d = desc(c.args[-1], loops)
                        ds = {d} if d is not None else None
                    else:
                        ds = elems(c.args[-1], loops)
                    if recv.startswith(selfname + '.') and ds is not None:
                        for d in sorted(ds):
                            kf.stores.append((recv.replace(selfname + '.', 'self.', 1), 'append' if c.func.attr == 'extend' else c.func.attr, d, c, list(conds)))
                        continue
                    if isinstance(c.func.value, ast.Name) and c.func.value.id in colls and ds is not None:
                        colls[c.func.value.id] |= ds          # a local list filled element by element
                        continue
                # a call that hands the blueprint / an element / the parser to code that was not followed
                args = list(c.args) + [k.value for k in c.keywords]
                recv = c.func.value if isinstance(c.func, ast.Attribute) else None
                involved = [a for a in args if desc(a, loops) is not None or norm(a) == selfname or (isinstance(a, ast.Name) and a.id in colls)]
                if recv is not None and (desc(recv, loops) is not None or norm(recv) == selfname) and c.func.attr not in _BUILTIN_METHODS:
                    involved.append(recv)
                if involved and not (isinstance(c.func, ast.Name) and c.func.id in ('isinstance', 'len', 'type', 'repr', 'str', 'id', 'bool', 'list', 'tuple', 'chain', 'iter', 'sorted',
                                                                                    'reversed', 'set', 'frozenset')) \
                        and not (isinstance(c.func, ast.Attribute) and c.func.attr == 'chain'):
                    kf.opaque.append(norm(c)[:70])
    walk(spec.node.body, [], {}, True)
    cache[cls_name] = kf
    return kf


def harmless_conditions(conds: List[str], subject_hint: str = '') -> bool:
    """The conditions a fact stands under only ask whether the object concerned exists (truthiness / None tests of attribute paths), not anything else."""
    for c in conds:
        cc = c
        if cc.startswith('not(') and cc.endswith(')'):
            return False
        for suf in ('isnotNone', ' is not None'):
            if cc.endswith(suf):
                cc = cc[:-len(suf)]
        if not all(ch.isalnum() or ch in '._' for ch in cc.strip()):
            return False
    return True
