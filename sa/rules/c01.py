"""C01 - parsing is faithful: the Database holds exactly what the document declares."""
from __future__ import annotations

import ast
from typing import Dict, List, Optional, Set, Tuple

from ..core import Collector, guarded, acquire_grammar, norm, Unrecognised, AnchorMissing
from ..grammar import (G, Action, named_nodes, names_inner, names_out, walk, flatten_and, flatten_alt, action_reads,
                       positional_reads, value_action, save_as_list, top_shape)
from .. import gtools as gt
from ..pyindex import walk_no_nested, access_path, FuncInfo, ClassInfo
from .c07 import _N

EXPLANATION = (
    'Grammar IR (abstract evaluation of pydbml/definitions and _set_syntax, both option values): every results name a parse '
    'action reads can be produced by a rule bound to it, and every results name a rule can hand to its action is read (nothing '
    'declared is dropped); the way each name is used (plain / [0] / iteration / key) fits the shape pyparsing gives it (scalar / '
    'list / action value); a repeatable named block is not reduced to its first match. Field flow: keys the actions put into the '
    'blueprint dicts are blueprint fields, every blueprint field is filled by an action or a later stage and forwarded by build() '
    'to the model constructor parameter of the same name, every constructor parameter is stored. Wiring: the six element kinds are '
    'alternatives of the repeated top-level expression with the instance action attached, parse_blueprint files every kind, '
    'build_database builds each collection exactly once in order into Database.add, which dispatches all six classes; collections '
    'are only appended to. Lexis and spelling: identifier/string/number/boolean/expression tokens, keywords caseless, settings '
    'read by name not by position, no alternative shadowed by an earlier one, default-literal dispatch tables, multiplicities of '
    'named components, reference sides kept apart.')
RULE_TEXT = 'one obligation per action-bearing rule x results name (available / read / shape), per blueprint field (filled / forwarded / stored), per wiring hop, per keyword literal, per alternative node, per multiplicity row'
ASSUMPTIONS = ['pyparsing 3.3 combinator semantics as modelled in sa/grammar.py (copy vs in-place, results names, saveAsList)',
               'decides necessary structural conditions; equality of whole models for every document and spelling is not decided',
               '`+` versus `-` (ErrorStop) changes are not judged']
ENGINES = ['pyindex', 'grammar', 'paths', 'specialise']
TECHNIQUE = 'static analysis (ast): abstract evaluation of the grammar into an IR; results-name flow and value-shape analysis between grammar and parse actions; field-flow chain action -> blueprint -> model; dispatch/wiring tables; FIRST/shadowing/multiplicity rules on the IR; parse_blueprint and Database.add specialised per class (typed inlining, isinstance folding) to read what is stored where'

INTERNAL_NAMES = {'_skipped', '_original_start', '_original_end'}
# name a rule can produce but its action deliberately ignores: (action, name) -> reason
UNREAD_OK = {
    ('parse_sticky_note', 'comment_before'): 'StickyNote has no comment attribute and the property does not list sticky notes among the commented elements',
}
BLUEPRINT_MOD = 'pydbml.parser.blueprints'
PARSER_MOD = 'pydbml.parser.parser'


def act_file(a: Action) -> str:
    return a.module.replace('.', '/') + '.py'


# ----------------------------------------------------------------------------------------------
# use kinds of tok['x'] inside an action
# ----------------------------------------------------------------------------------------------

def parent_map_ast(root: ast.AST) -> Dict[int, ast.AST]:
    pm: Dict[int, ast.AST] = {}
    for n in ast.walk(root):
        for c in ast.iter_child_nodes(n):
            pm[id(c)] = n
    return pm


def use_kinds(act: Action) -> Dict[str, List[Tuple[str, ast.AST]]]:
    """name -> [(kind, node)], kind in plain / index0 / index / iter / key / guarded / test."""
    out: Dict[str, List[Tuple[str, ast.AST]]] = {}
    if act.node is None:
        return out
    pm = parent_map_ast(act.node)
    tokp = act.tok_param()
    # local aliases: v = tok['x'] / tok.get('x', ..)
    alias: Dict[str, str] = {}
    for name, sites in action_reads(act).items():
        for how, n in sites:
            if how == 'in':
                out.setdefault(name, []).append(('test', n))
                continue
            node = n
            par = pm.get(id(node))
            if isinstance(par, ast.Assign) and par.value is node and len(par.targets) == 1 and isinstance(par.targets[0], ast.Name):
                alias[par.targets[0].id] = name
                continue
            out.setdefault(name, []).append((classify_use(node, pm), node))
    for v, name in alias.items():
        for n in ast.walk(act.node):
            if isinstance(n, ast.Name) and n.id == v and isinstance(n.ctx, ast.Load):
                out.setdefault(name, []).append((classify_use(n, pm), n))
    return out


def classify_use(node: ast.AST, pm: Dict[int, ast.AST]) -> str:
    par = pm.get(id(node))
    if isinstance(par, ast.Subscript) and par.value is node:
        sl = par.slice
        if isinstance(sl, ast.Constant) and isinstance(sl.value, int):
            return 'index0' if sl.value == 0 else 'index'
        if isinstance(sl, ast.Constant) and isinstance(sl.value, str):
            return 'key'
        return 'index'
    if isinstance(par, ast.Compare) and node in par.comparators and isinstance(par.ops[0], (ast.In, ast.NotIn)):
        return 'key'
    if isinstance(par, (ast.For, ast.comprehension)) and par.iter is node:
        return 'iter'
    if isinstance(par, ast.Call):
        f = par.func
        if isinstance(f, ast.Name) and f.id == 'isinstance' and par.args and par.args[0] is node:
            return 'guarded'
        if isinstance(f, ast.Name) and f.id in ('list', 'tuple', 'sorted', 'set', 'enumerate', 'len') and node in par.args:
            return 'iter'
        if isinstance(f, ast.Attribute) and f.attr == 'update' and node in par.args:
            return 'mapping'
        if isinstance(f, ast.Attribute) and f.attr == 'join' and node in par.args:
            return 'iter'
    if isinstance(par, ast.Starred):
        return 'iter'
    if isinstance(par, ast.keyword) and par.arg is None:
        return 'mapping'
    if isinstance(par, ast.Attribute):
        return 'attr'
    return 'plain'


def value_type(x: G) -> str:
    if x.list_all:
        return 'list'
    va = value_action(x)
    if va is not None and va.kind != 'internal':
        return 'obj'
    return 'list' if save_as_list(x) else 'scalar'


COMPAT = {
    'plain': {'scalar', 'obj', 'list*'},       # list* = list_all collection handed over as a whole
    'index0': {'list', 'list*'}, 'index': {'list', 'list*'}, 'iter': {'list', 'list*'},
    'key': {'obj'}, 'mapping': {'obj'}, 'attr': {'obj', 'scalar', 'list', 'list*'},
}


def blueprint_classes(ctx) -> Dict[str, ClassInfo]:
    idx = ctx.idx
    base = idx.cls(BLUEPRINT_MOD, 'Blueprint')
    return {c.name: c for c in idx.subclasses(base.id)}


def dataclass_fields(ci: ClassInfo) -> List[str]:
    out = []
    for st in ci.node.body:
        if isinstance(st, ast.AnnAssign) and isinstance(st.target, ast.Name):
            out.append(st.target.id)
    return out


def returned_constructor(act: Action) -> Optional[Tuple[str, ast.Call]]:
    """(class name, call) if the action returns ClassName(...)."""
    if act.node is None:
        return None
    rets: List[ast.AST] = []
    if isinstance(act.node, ast.Lambda):
        rets = [act.node.body]
    else:
        for n in walk_no_nested(act.node):
            if isinstance(n, ast.Return) and n.value is not None:
                rets.append(n.value)
    for r in rets:
        if isinstance(r, ast.Name) and not isinstance(act.node, ast.Lambda):
            rid = r.id
            for n in walk_no_nested(act.node):
                if isinstance(n, ast.Assign) and len(n.targets) == 1 and norm(n.targets[0]) == rid and isinstance(n.value, ast.Call):
                    r = n.value
        if isinstance(r, ast.Call) and isinstance(r.func, ast.Name) and r.func.id[:1].isupper():
            return r.func.id, r
    return None


def dict_keys_of(act: Action, dname: Optional[str] = None) -> Tuple[Set[str], List[str]]:
    """(string keys stored into local dicts of the action, names of tok['..'] mappings merged by update/**)."""
    keys: Set[str] = set()
    merged: List[str] = []
    if act.node is None or isinstance(act.node, ast.Lambda):
        return keys, merged
    tokp = act.tok_param()
    alias: Dict[str, str] = {}
    for n in walk_no_nested(act.node):
        if isinstance(n, ast.Assign) and len(n.targets) == 1:
            t, v = n.targets[0], n.value
            if isinstance(t, ast.Name) and isinstance(v, ast.Dict):
                for k in v.keys:
                    if isinstance(k, ast.Constant) and isinstance(k.value, str):
                        keys.add(k.value)
            if isinstance(t, ast.Subscript) and isinstance(t.value, ast.Name) and isinstance(t.slice, ast.Constant) \
                    and isinstance(t.slice.value, str) and t.value.id != tokp:
                keys.add(t.slice.value)
            if isinstance(t, ast.Name) and isinstance(v, ast.Call) and isinstance(v.func, ast.Attribute) and v.func.attr == 'get' \
                    and norm(v.func.value) == tokp and v.args and isinstance(v.args[0], ast.Constant):
                alias[t.id] = v.args[0].value
            if isinstance(t, ast.Name) and isinstance(v, ast.Subscript) and norm(v.value) == tokp and isinstance(v.slice, ast.Constant):
                alias[t.id] = v.slice.value
    for n in walk_no_nested(act.node):
        if isinstance(n, ast.Call) and isinstance(n.func, ast.Attribute) and n.func.attr == 'update' and n.args:
            a = n.args[0]
            if isinstance(a, ast.Subscript) and norm(a.value) == tokp and isinstance(a.slice, ast.Constant):
                merged.append(a.slice.value)
            elif isinstance(a, ast.Name) and a.id in alias:
                merged.append(alias[a.id])
            elif isinstance(a, ast.Dict):
                for k in a.keys:
                    if isinstance(k, ast.Constant) and isinstance(k.value, str):
                        keys.add(k.value)
    return keys, merged


def dedup_obligations(ctx, col: Collector, rule: str, fns) -> None:
    """In the parser's collecting functions, a blueprint is stored into `self.<coll>` unconditionally - never under `x not in self.<coll>`: blueprint
    equality is structural, so such a guard silently drops a declared element that equals an earlier one (the duplicate then never reaches the
    database's own duplicate checks)."""
    from ..paths import function_paths
    from ..cond import term, conjuncts
    n = 0
    for fi in fns:
        bad = {}
        for path in function_paths(fi.node, unroll=1):
            lits = []
            for ev in path:
                if ev.kind == 'test':
                    lits.extend(conjuncts(term(ev.node, ev.outcome)))
                    continue
                if ev.node is None:
                    continue
                for c in ast.walk(ev.node):
                    if isinstance(c, ast.Call) and isinstance(c.func, ast.Attribute) and c.func.attr in ('append', 'extend', 'add', 'insert') \
                            and (access_path(c.func.value) or '').startswith('self.') and c.args:
                        recv = access_path(c.func.value)
                        n += 1
                        for l in lits:
                            if l[0] == 'not' and isinstance(l[1], tuple) and l[1][0] == 'in' and len(l[1]) >= 3 and l[1][2] == recv:
                                bad[recv] = (c, l)
        seen = set()
        for path in function_paths(fi.node, unroll=1):
            for ev in path:
                if ev.node is None or ev.kind == 'test':
                    continue
                for c in ast.walk(ev.node):
                    if isinstance(c, ast.Call) and isinstance(c.func, ast.Attribute) and c.func.attr in ('append', 'extend', 'add', 'insert') \
                            and (access_path(c.func.value) or '').startswith('self.') and c.args:
                        recv = access_path(c.func.value)
                        if recv in seen:
                            continue
                        seen.add(recv)
                        cons = f'{fi.qualname}:stores-unconditionally:{recv}'
                        if recv in bad:
                            c2, l = bad[recv]
                            col.bad(rule, cons, f'{fi.qualname} stores into {recv} only when the element is `not in {recv}`: a declared element that equals an earlier one '
                                    f'(blueprints compare structurally) is dropped silently - it is missing from the model and never reaches the duplicate checks of the '
                                    f'database', node=c2, file=fi.file)
                        else:
                            col.ok(rule, cons, f'{recv} is filled without a de-duplicating guard', node=c, file=fi.file)
    col.floor(rule, 'stores into parser collections', n, 6)


def run(ctx, col: Collector):
    idx = ctx.idx
    gm = acquire_grammar(ctx, col, 'C01-grammar')
    bps = blueprint_classes(ctx)
    guarded(col, 'C01-grammar', 'stats', lambda: col.stat('grammar_nodes', len(gm.reachable())))

    # ---------------------------------------------------------------- C01-names
    def names():
        by_action: Dict[str, List[Tuple[G, Action]]] = {}
        for g in gm.action_nodes():
            first_value = True
            for a in g.actions:
                if a.kind == 'internal':
                    continue
                if first_value:
                    by_action.setdefault(a.key, []).append((g, a))
                if a.returns_value():
                    first_value = False
        col.floor('C01-names', 'distinct parse actions bound to reachable rules', len(by_action), 20)
        col.stat('parse_actions', len(by_action))
        for key, binds in sorted(by_action.items()):
            act = binds[0][1]
            short = act.name if act.kind != 'lambda' else f'lambda@{act.module.split(".")[-1]}:{getattr(act.node, "lineno", 0)}'
            reads = action_reads(act)
            avail_any: Set[str] = set()
            seen_rules = set()
            for g, _ in binds:
                av = names_inner(g) | ({g.name} if g.name else set())
                avail_any |= av
                rk = (g.module, g.line, g.var)
                if rk in seen_rules:
                    continue
                seen_rules.add(rk)
                for nm in sorted(av - set(reads) - {g.name} - INTERNAL_NAMES):
                    cons = f'{short}@{g.var or g.line}:unread:{nm}'
                    if (act.name, nm) in UNREAD_OK:
                        col.ok('C01-names', cons, f'`{nm}` is deliberately not read: {UNREAD_OK[(act.name, nm)]}', node=_N(g), file=g.file)
                        continue
                    col.bad('C01-names', cons, f'rule `{g.var}` ({g.file}:{g.line}) can hand the results name `{nm}` to {short}, which never '
                            f'reads it: whatever the document declares there is dropped', node=_N(g), file=g.file)
            for nm in sorted(reads):
                cons = f'{short}:reads:{nm}'
                col.check(nm in avail_any, 'C01-names', cons, f'`{nm}` can be produced by a rule bound to {short}',
                          f'{short} reads tok[{nm!r}] but no rule bound to it can produce that results name (renamed or moved out of reach): '
                          f'the feature can never be seen by the parser', node=reads[nm][0][1], file=act_file(act))
            # shapes
            uses = use_kinds(act)
            for nm, ulist in sorted(uses.items()):
                kinds = {k for k, _ in ulist}
                if 'guarded' in kinds:
                    col.ok('C01-shape', f'{short}:{nm}', f'{short} tests the type of tok[{nm!r}] before using it', node=ulist[0][1], file=act_file(act))
                    continue
                types: Set[str] = set()
                for g, _ in binds:
                    for x in named_nodes(g, nm):
                        t = value_type(x)
                        types.add('list*' if (t == 'list' and x.list_all) else t)
                    if g.name == nm:
                        t = value_type(g)
                        types.add('list*' if (t == 'list' and g.list_all) else t)
                if not types:
                    continue
                for k, node in ulist:
                    if k == 'test':
                        continue
                    okk = types <= COMPAT.get(k, set())
                    cons = f'{short}:{nm}:{k}'
                    if any(o.construct == cons and o.rule == 'C01-shape' for o in col.obs):
                        continue
                    col.check(okk, 'C01-shape', cons, f'tok[{nm!r}] is {sorted(types)} and is used as {k}',
                              f'{short} uses tok[{nm!r}] as `{k}` (`{norm(pm_parent(act, node))[:70]}`) but the grammar gives it the shape '
                              f'{sorted(types)}: ' + ('iterating/indexing a single token walks over its characters' if types & {'scalar'} and k in ('iter', 'index0', 'index')
                                                      else 'a token list is stored where a single value is expected' if k == 'plain'
                                                      else 'the value is not a mapping'), node=node, file=act_file(act))
            # a repeatable block must not be reduced to its first match
            for nm, ulist in sorted(uses.items()):
                for g, _ in binds:
                    xs = [x for x in named_nodes(g, nm) if x.list_all]
                    if not xs:
                        continue
                    lo, hi = gt.mult(g, nm)
                    if hi <= 1:
                        continue
                    kinds = {k for k, _ in ulist if k != 'test'}
                    cons = f'{short}:{nm}:all-matches'
                    if any(o.construct == cons for o in col.obs):
                        continue
                    col.check(kinds != {'index0'}, 'C01-names', cons, f'every match of the repeatable `{nm}` is used',
                              f'`{nm}` can match several times inside `{g.var}` and keeps all matches, but {short} only reads tok[{nm!r}][0]: '
                              f'the second and later `{nm}` blocks are silently dropped', node=ulist[0][1], file=act_file(act))
    guarded(col, 'C01-names', 'results-name-flow', names)

    # ---------------------------------------------------------------- C01-fields
    def fields():
        # action -> blueprint class and keys
        produced: Dict[str, Set[str]] = {}        # blueprint class -> keys some action can set
        settings_keys: Dict[int, Set[str]] = {}
        nacts = 0
        for g in gm.action_nodes():
            for a in g.actions:
                if a.kind in ('internal', 'method') or a.node is None:
                    continue
                rc = returned_constructor(a)
                if rc is None or rc[0] not in bps:
                    continue
                nacts += 1
                cname, call = rc
                flds = dataclass_fields(bps[cname])
                keys, merged = dict_keys_of(a)
                starstar = any(k.arg is None for k in call.keywords)
                kwnames = {k.arg for k in call.keywords if k.arg}
                positional = len(call.args)
                allkeys = set(kwnames)
                if starstar:
                    allkeys |= keys
                    for mname in merged:
                        for s in named_nodes(g, mname):
                            sa = value_action(s)
                            if sa is not None and sa.node is not None:
                                sk, _ = dict_keys_of(sa)
                                allkeys |= sk
                allkeys |= set(flds[:positional])
                produced.setdefault(cname, set()).update(allkeys)
                short = a.name if a.kind != 'lambda' else f'lambda@{a.module.split(".")[-1]}:{a.node.lineno}'
                for k in sorted(allkeys):
                    cons = f'{short}->{cname}:{k}'
                    if any(o.construct == cons for o in col.obs):
                        continue
                    col.check(k in flds, 'C01-fields', cons, f'key `{k}` is a field of {cname}',
                              f'{short} passes the key `{k}` to {cname}, which has no such field (fields: {flds}): parsing such a document '
                              f'raises TypeError / the value is lost', node=call, file=act_file(a))
        col.floor('C01-fields', 'actions that construct blueprints', nacts, 12)
        # later stages that fill fields by attribute store
        later: Dict[str, Set[str]] = {}
        for modname in (BLUEPRINT_MOD, PARSER_MOD):
            for n in ast.walk(idx.module(modname).tree):
                if isinstance(n, ast.Assign):
                    for t in n.targets:
                        if isinstance(t, ast.Attribute) and not (isinstance(t.value, ast.Name) and t.value.id == 'self'):
                            later.setdefault(t.attr, set()).add(modname)
        # reads of blueprint fields anywhere in the parser package
        reads_attr: Set[str] = set()
        for modname in (BLUEPRINT_MOD, PARSER_MOD):
            for n in ast.walk(idx.module(modname).tree):
                if isinstance(n, ast.Attribute) and isinstance(n.ctx, ast.Load):
                    reads_attr.add(n.attr)
        col.floor('C01-fields', 'blueprint classes', len(bps), 11)
        for cname, ci in sorted(bps.items()):
            flds = dataclass_fields(ci)
            build = idx.lookup_method(ci.id, 'build')
            if build is None:
                raise AnchorMissing(f'{cname}.build')
            for f in flds:
                cons = f'{cname}.{f}'
                filled = f in produced.get(cname, set()) or f in later
                col.check(filled, 'C01-fields', cons + ':filled', f'{cname}.{f} is set by a parse action or a later stage',
                          f'no parse action ever provides `{f}` to {cname} and no later stage assigns it: the declared value can never reach the model',
                          node=ci.node, file=ci.module.replace('.', '/') + '.py')
            # build(): constructor call of the model class
            calls = [n for n in walk_no_nested(build.node) if isinstance(n, ast.Call) and isinstance(n.func, ast.Name)
                     and idx.class_of(ci.module, n.func) is not None and idx.class_of(ci.module, n.func).module.startswith('pydbml._classes')]
            if not calls:
                raise Unrecognised(f'{cname}.build does not construct a model object', build.node)
            # locals derived from fields
            derived: Dict[str, Set[str]] = {}
            for n in walk_no_nested(build.node):
                if isinstance(n, ast.Assign) and len(n.targets) == 1 and isinstance(n.targets[0], ast.Name):
                    fs = {x.attr for x in ast.walk(n.value) if isinstance(x, ast.Attribute) and isinstance(x.value, ast.Name) and x.value.id == 'self'}
                    for x in ast.walk(n.value):
                        if isinstance(x, ast.Name) and x.id in derived:
                            fs |= derived[x.id]
                    derived.setdefault(n.targets[0].id, set()).update(fs & set(flds))
            forwarded: Set[str] = set()
            for call in calls:
                mcls = idx.class_of(ci.module, call.func)
                init = idx.lookup_method(mcls.id, '__init__')
                params = [a.arg for a in init.node.args.args][1:] if init else []
                for i, a in enumerate(call.args):
                    kwname = params[i] if i < len(params) else f'#{i}'
                    _fwd(col, cname, mcls.name, kwname, a, flds, derived, forwarded, build)
                for kw in call.keywords:
                    if kw.arg is None:
                        continue
                    col.check(kw.arg in params, 'C01-fields', f'{cname}.build->{mcls.name}:{kw.arg}:param',
                              f'{mcls.name} accepts `{kw.arg}`', f'{cname}.build passes `{kw.arg}` to {mcls.name}, which has no such parameter',
                              node=call, file=build.file)
                    _fwd(col, cname, mcls.name, kw.arg, kw.value, flds, derived, forwarded, build)
            # other consumption inside build (e.g. columns/indexes loops, subject_names)
            consumed = {x.attr for x in ast.walk(build.node) if isinstance(x, ast.Attribute) and isinstance(x.value, ast.Name)
                        and x.value.id == 'self' and isinstance(x.ctx, ast.Load)}
            other_readers: Set[str] = set()
            for modname in (BLUEPRINT_MOD, PARSER_MOD):
                for fn in ast.walk(idx.module(modname).tree):
                    if isinstance(fn, ast.FunctionDef) and fn is not build.node:
                        for x in ast.walk(fn):
                            if isinstance(x, ast.Attribute) and isinstance(x.ctx, ast.Load) and not (isinstance(x.value, ast.Name) and x.value.id == 'self' and fn.name == 'build'):
                                other_readers.add(x.attr)
            for f in flds:
                cons = f'{cname}.{f}:forwarded'
                used = f in forwarded or f in consumed or f in other_readers
                col.check(used, 'C01-fields', cons, f'{cname}.{f} is forwarded to the model (or consumed while building)',
                          f'{cname}.build never uses `self.{f}` and nothing else in the parser reads it: the parsed `{f}` is dropped',
                          node=build.node, file=build.file)
    guarded(col, 'C01-fields', 'field-flow', fields)

    # ---------------------------------------------------------------- C01-stored
    def stored():
        n = 0
        for cname in ('Table', 'Column', 'Index', 'Reference', 'Enum', 'EnumItem', 'Note', 'Project', 'TableGroup', 'StickyNote', 'Expression'):
            ci = idx.find_class(cname)
            init = ci.methods.get('__init__')
            if init is None:
                raise AnchorMissing(f'{cname}.__init__')
            params = [a.arg for a in init.node.args.args][1:]
            for p in params:
                n += 1
                how = None
                for st in walk_no_nested(init.node):
                    tgt = val = None
                    if isinstance(st, ast.Assign) and len(st.targets) == 1:
                        tgt, val = st.targets[0], st.value
                    elif isinstance(st, ast.AnnAssign) and st.value is not None:
                        tgt, val = st.target, st.value
                    if tgt is not None and isinstance(tgt, ast.Attribute) and norm(tgt.value) == 'self' and tgt.attr in (p, '_' + p):
                        if any(isinstance(x, ast.Name) and x.id == p for x in ast.walk(val)):
                            how = norm(st)
                    if isinstance(st, ast.For) and any(isinstance(x, ast.Name) and x.id == p for x in ast.walk(st.iter)):
                        for c in ast.walk(st):
                            if isinstance(c, ast.Call) and isinstance(c.func, ast.Attribute) and norm(c.func.value) == 'self' \
                                    and c.func.attr.startswith('add_') and c.args and norm(c.args[0]) == norm(st.target):
                                how = norm(c)
                col.check(how is not None, 'C01-stored', f'{cname}.__init__:{p}', f'`{p}` is stored ({(how or "")[:50]})',
                          f'{cname}.__init__ accepts `{p}` but never stores it under self.{p}: the parsed value is dropped',
                          node=init.node, file=init.file)
        col.floor('C01-stored', 'constructor parameters', n, 50)
    guarded(col, 'C01-stored', 'constructors', stored)

    # ---------------------------------------------------------------- C01-wiring
    def wiring():
        pcls = idx.cls(PARSER_MOD, 'PyDBMLParser')
        pb = pcls.methods.get('parse_blueprint')
        bd = pcls.methods.get('build_database')
        if pb is None or bd is None:
            raise AnchorMissing('PyDBMLParser.parse_blueprint / build_database')
        from ..inline import inlined_info
        pb = inlined_info(idx, pb)
        bd = inlined_info(idx, bd, 3, keep={'build', 'add'})
        # classes produced by each top-level alternative
        kinds: Dict[str, Set[str]] = {}
        for flag in (False, True):
            sh = top_shape(gm.configs[flag])
            col.check(len(sh['alts']) >= 6, 'C01-wiring', f'allow_properties={flag}:six-kinds', f'{len(sh["alts"])} element kinds at top level',
                      f'only {len(sh["alts"])} element kinds are alternatives of the top-level repetition', node=gm.set_syntax.node, file=gm.set_syntax.file)
            col.check(sh['rep'] is not None and sh['rep'].a['min'] == 0, 'C01-wiring', f'allow_properties={flag}:any-number',
                      'any number of elements (including none) is accepted', 'the top-level repetition does not accept zero or more elements',
                      node=gm.set_syntax.node, file=gm.set_syntax.file)
            for alt in sh['alts']:
                tag = f'allow_properties={flag}:{alt.var or alt.label()}'
                last = alt.actions[-1] if alt.actions else None
                col.check(last is not None and last.kind == 'method' and last.name.endswith('.parse_blueprint'), 'C01-wiring', tag + ':instance-action',
                          'the collecting action of this parser instance is attached',
                          f'top-level alternative `{alt.var}` does not end its action chain with the instance\'s parse_blueprint: parsed '
                          f'{alt.var} elements are never collected', node=_N(alt), file=alt.file)
                classes: Set[str] = set()
                stack = [alt]
                seen: Set[int] = set()
                while stack:
                    x = stack.pop()
                    if x.uid in seen:
                        continue
                    seen.add(x.uid)
                    found = False
                    for a in x.actions:
                        rc = returned_constructor(a) if a.kind != 'method' else None
                        if rc is not None and rc[0] in bps:
                            classes.add(rc[0])
                            found = True
                    if not found:
                        stack.extend(x.kids)
                kinds.setdefault(alt.var or alt.label(), set()).update(classes)
                col.check(len(classes) == 1, 'C01-wiring', tag + ':produces', f'produces {sorted(classes)}',
                          f'top-level alternative `{alt.var}` produces {sorted(classes) or "no blueprint"}', node=_N(alt), file=alt.file)
        produced = set().union(*kinds.values()) if kinds else set()
        # parse_blueprint specialised per produced class (rules/wiring.py): where a blueprint of that class is filed
        from .wiring import kind_facts
        stores: Dict[str, Tuple[str, str]] = {}
        for cls in sorted(produced):
            kf = kind_facts(ctx, cls)
            own = [s_ for s_ in kf.stores if s_[2] == 'self']
            cons = f'parse_blueprint:{cls}'
            if own and any(not s_[4] for s_ in own):
                s0 = next(s_ for s_ in own if not s_[4])
                stores[cls] = (s0[0], s0[1])
                col.ok('C01-wiring', cons, f'{cls} is filed under {s0[0]}', node=pb.node, file=pb.file)
            elif own:
                stores[cls] = (own[0][0], own[0][1])
                col.unk('C01-wiring', cons, f'a {cls} is stored in {own[0][0]} only under {own[0][4]}', node=pb.node, file=pb.file)
            elif kf.undecided or kf.opaque:
                col.unk('C01-wiring', cons, f'parse_blueprint specialised to {cls} does not store the blueprint in a recognised form '
                        f'({"dispatch undecided" if kf.undecided else kf.opaque[0]})', node=pb.node, file=pb.file)
            else:
                col.bad('C01-wiring', cons, f'parse_blueprint specialised to {cls} (dispatch resolved, helpers inlined) never stores the blueprint'
                        f'{" and raises" if kf.raises_unconditionally else ""}: every declared element of that kind is dropped', node=pb.node, file=pb.file)
            if cls in stores:
                col.check(stores[cls][1] in ('append', 'assign'), 'C01-wiring', f'parse_blueprint:{cls}:order',
                          'stored in source order', f'{cls} blueprints are stored with `{stores[cls][1]}`: source order is not kept',
                          node=pb.node, file=pb.file)
        # build_database: each collection built exactly once into database.add
        built: Dict[str, int] = {}
        for n in walk_no_nested(bd.node):
            if isinstance(n, ast.For) and norm(n.iter).startswith('self.'):
                tv = norm(n.target)
                for c in ast.walk(n):
                    if isinstance(c, ast.Call) and isinstance(c.func, ast.Attribute) and c.func.attr == 'add' and norm(c.func.value) == 'self.database' \
                            and c.args and norm(c.args[0]) == f'{tv}.build()':
                        built[norm(n.iter)] = built.get(norm(n.iter), 0) + 1
            if isinstance(n, ast.If) and norm(n.test).startswith('self.'):
                for c in ast.walk(n):
                    if isinstance(c, ast.Call) and isinstance(c.func, ast.Attribute) and c.func.attr == 'add' and norm(c.func.value) == 'self.database' \
                            and c.args and norm(c.args[0]) == f'{norm(n.test)}.build()':
                        built[norm(n.test)] = built.get(norm(n.test), 0) + 1
        for cls, (attr, _) in sorted(stores.items()):
            if cls not in produced:
                continue
            # `.add(...)` calls / `.build()` results the rule could not attribute to a collection: no verdict from absence
            unread = [c for c in ast.walk(bd.node) if isinstance(c, ast.Call) and isinstance(c.func, ast.Attribute) and c.func.attr in ('add', 'build')
                      and not (c.func.attr == 'add' and norm(c.func.value) == 'self.database' and c.args and norm(c.args[0]).endswith('.build()'))
                      and not (c.func.attr == 'build' and any(isinstance(p_, ast.Call) and getattr(p_.func, 'attr', '') == 'add' and norm(p_.func.value) == 'self.database'
                                                              and p_.args and p_.args[0] is c for p_ in ast.walk(bd.node)))]
            mentions = any(norm(x) == attr for x in ast.walk(bd.node) if isinstance(x, ast.Attribute))
            if built.get(attr, 0) == 0 and (unread and mentions):
                col.unk('C01-wiring', f'build_database:{attr}', f'build_database reads {attr} and calls `{norm(unread[0])[:60]}`, but how the built objects reach the database '
                        f'is not recognised', node=bd.node, file=bd.file)
                continue
            col.check(built.get(attr, 0) == 1, 'C01-wiring', f'build_database:{attr}', f'{attr} is built into the database exactly once',
                      f'build_database builds the collection {attr} {built.get(attr, 0)} times (every {cls} must be built and added exactly once)',
                      node=bd.node, file=bd.file)
        # iteration is forward and unfiltered
        for n in walk_no_nested(bd.node):
            if isinstance(n, ast.For):
                it = n.iter
                reshaped = None
                if isinstance(it, ast.Call) and isinstance(it.func, ast.Name) and it.func.id in ('sorted', 'reversed', 'set', 'frozenset'):
                    reshaped = f'{it.func.id}(...)'
                elif isinstance(it, ast.Subscript) and isinstance(it.slice, ast.Slice):
                    reshaped = 'a slice'
                elif isinstance(it, (ast.ListComp, ast.GeneratorExp, ast.SetComp)) and any(g.ifs for g in it.generators):
                    reshaped = 'a filtered comprehension'
                cons = f'build_database:for:{norm(it)[:40]}'
                if reshaped:
                    col.bad('C01-wiring', cons, f'build_database iterates `{norm(it)}` ({reshaped}): elements are reordered, filtered or deduplicated before they are built',
                            node=n, file=bd.file)
                else:
                    col.ok('C01-wiring', cons, 'iterated forwards, unfiltered', node=n, file=bd.file)
        # nothing that was declared is dropped on the way: no store into a parser collection is guarded by "not already in that collection"
        dedup_obligations(ctx, col, 'C01-wiring', [pb, bd])
        # Database.add dispatch covers what the builds return
        db = idx.cls('pydbml.database', 'Database')
        add = db.methods.get('add')
        if add is None:
            raise AnchorMissing('Database.add')
        # Database.add specialised per model class (isinstance tests on the argument decided, dispatch tables and helper methods read in place): which add_* it reaches
        dispatched: Dict[str, str] = {}
        undecided: Dict[str, str] = {}
        model_of: Dict[str, str] = {}
        for cname in sorted(produced):
            b = bps[cname].methods['build']
            for n in walk_no_nested(b.node):
                if isinstance(n, ast.Return) and n.value is not None:
                    v = n.value
                    if isinstance(v, ast.Name):
                        for s_ in walk_no_nested(b.node):
                            if isinstance(s_, ast.Assign) and norm(s_.targets[0]) == v.id and isinstance(s_.value, ast.Call):
                                v = s_.value
                    if isinstance(v, ast.Call) and isinstance(v.func, ast.Name):
                        model_of[cname] = v.func.id
        objp = [a.arg for a in add.node.args.args][1]
        keep_add = {n for n in db.methods if n.startswith('add_')}
        for m in sorted(set(model_of.values())):
            mci = next((c for c in idx.classes.values() if c.name == m and c.module.startswith('pydbml._classes')), None)
            if mci is None:
                undecided[m] = f'class {m} not found'
                continue
            spec = inlined_info(idx, add, 3, keep=keep_add, types={objp: mci.id})
            alias: Dict[str, str] = {}
            for n in ast.walk(spec.node):
                if isinstance(n, ast.Assign) and len(n.targets) == 1 and isinstance(n.targets[0], ast.Name) and isinstance(n.value, ast.Attribute) \
                        and norm(n.value.value) == 'self' and n.value.attr.startswith('add_'):
                    alias[n.targets[0].id] = n.value.attr
            reached = []
            for c in ast.walk(spec.node):
                if isinstance(c, ast.Call) and c.args and norm(c.args[0]) == objp:
                    if isinstance(c.func, ast.Attribute) and norm(c.func.value) == 'self' and c.func.attr.startswith('add_'):
                        reached.append(c.func.attr)
                    elif isinstance(c.func, ast.Name) and c.func.id in alias:
                        reached.append(alias[c.func.id])
            left = any(isinstance(c, ast.Call) and norm(c.func) == 'isinstance' and c.args and norm(c.args[0]) == objp for c in ast.walk(spec.node))
            if len(set(reached)) == 1 and not left:
                dispatched[m] = reached[0]
            elif left or reached:
                undecided[m] = f'dispatch not decided (reaches {sorted(set(reached))}{", isinstance tests left" if left else ""})'
        for cname, m in sorted(model_of.items()):
            if m in dispatched:
                col.ok('C01-wiring', f'Database.add:{m}', f'{m} -> {dispatched.get(m)}', node=add.node, file=add.file)
            elif m in undecided:
                col.unk('C01-wiring', f'Database.add:{m}', f'Database.add for a {m}: {undecided[m]}', node=add.node, file=add.file)
            else:
                col.bad('C01-wiring', f'Database.add:{m}', f'Database.add specialised to {m} (built from {cname}) reaches no add_* method: parsed elements of that kind cannot be '
                        f'added', node=add.node, file=add.file)
        # the add_* methods append (order kept)
        bad_order = []
        ctl = ast.parse('def f(self, x):\n    self.tables.insert(0, x)\n    self.refs = sorted(self.refs)\n')
        for fn in [m.node for m in db.methods.values()] + [pb.node, bd.node] + [ctl.body[0]]:
            for n in ast.walk(fn):
                if isinstance(n, ast.Call) and isinstance(n.func, ast.Attribute) and n.func.attr in ('insert', 'sort', 'reverse') \
                        and norm(n.func.value).startswith('self.'):
                    bad_order.append((fn, n))
                if isinstance(n, ast.Call) and isinstance(n.func, ast.Name) and n.func.id in ('sorted', 'reversed', 'set', 'frozenset') \
                        and n.args and norm(n.args[0]).startswith('self.'):
                    bad_order.append((fn, n))
        # a collection attribute of the parser / database is bound once (in __init__) and only grown afterwards: re-binding it (`self.refs = a + self.refs`)
        # replaces source order by construction order
        init_lists = set()
        for ci_ in (idx.cls('pydbml.parser.parser', 'PyDBMLParser'), db):
            im = ci_.methods.get('__init__')
            if im is not None:
                for st_ in ast.walk(im.node):
                    tgt_ = st_.targets[0] if isinstance(st_, ast.Assign) and len(st_.targets) == 1 else (st_.target if isinstance(st_, ast.AnnAssign) else None)
                    if tgt_ is not None and isinstance(tgt_, ast.Attribute) and isinstance(getattr(st_, 'value', None), ast.List):
                        init_lists.add(norm(tgt_))
        for fn in [m.node for m in db.methods.values() if m.node.name != '__init__'] + [pb.node, bd.node]:
            for n in ast.walk(fn):
                if isinstance(n, (ast.Assign, ast.AugAssign)):
                    tgts_ = n.targets if isinstance(n, ast.Assign) else [n.target]
                    for t_ in tgts_:
                        if isinstance(t_, ast.Attribute) and norm(t_) in init_lists and not (isinstance(n, ast.AugAssign) and isinstance(n.op, ast.Add)):
                            v_ = n.value
                            grows = isinstance(v_, ast.BinOp) and isinstance(v_.op, ast.Add) and norm(v_.left) == norm(t_)
                            if not grows:
                                bad_order.append((fn, n))
        ctl_hits = [b for b in bad_order if b[0] is ctl.body[0]]
        real = [b for b in bad_order if b[0] is not ctl.body[0]]
        if len(ctl_hits) != 2:
            col.unk('C01-wiring', 'order:control', 'positive control for the order rule did not match')
        for fn, n in real:
            col.bad('C01-wiring', f'order:{fn.name}:{norm(n)[:40]}', f'{fn.name} reorders a collection with `{norm(n)}`: elements no longer appear in source order',
                    node=n, file='pydbml/database.py' if fn not in (pb.node, bd.node) else pb.file)
        col.check(not real, 'C01-wiring', 'order:append-only', 'collections are only appended to and iterated forwards (control matched)',
                  f'{len(real)} reordering operations on the collections')
    guarded(col, 'C01-wiring', 'top-level-wiring', wiring)

    # ---------------------------------------------------------------- C01-case / C01-lex
    def lexis():
        lits = [g for g in gm.reachable() if g.kind in ('lit', 'keyword', 'oneof')]
        n = 0
        seen = set()
        for g in lits:
            texts = [g.a['text']] if g.kind != 'oneof' else list(g.a['alts'])
            if not any(c.isalpha() for t in texts for c in t):
                continue
            key = (g.module, g.line, tuple(texts))
            if key in seen:
                continue
            seen.add(key)
            n += 1
            col.check(bool(g.a.get('caseless')), 'C01-case', f'{g.module.split(".")[-1]}:{texts[0]!r}@{g.line}',
                      f'keyword {texts[0]!r} is matched in any letter case',
                      f'keyword {texts[0]!r} ({g.file}:{g.line}) is matched case-sensitively while all other keywords are caseless: the same '
                      f'declaration in another letter case is rejected', node=_N(g), file=g.file)
        # keyword sets written as a regular expression: the value handed on is the text as written, so a case-insensitive pattern stores the author's capitalisation
        for g in gm.reachable():
            if g.kind != 'regex':
                continue
            v = gt.vocab_of(g)
            if not v or not any(c.isalpha() for t, _, _ in v for c in t):
                continue
            key = (g.module, g.line, tuple(t for t, _, _ in v))
            if key in seen:
                continue
            seen.add(key)
            n += len(v)
            cons = f'{g.module.split(".")[-1]}:regex:{v[0][0]!r}@{g.var or g.line}'
            if all(cl for _, cl, _ in v):
                col.bad('C01-case', cons, f'the keyword set {[t for t, _, _ in v]} ({g.file}:{g.line}) is matched by a case-insensitive regular expression, which returns the text '
                        f'as written: `CASCADE` and `cascade` are stored as different values, so the same declaration in another letter case gives a different model '
                        f'(and two copies of one reference no longer compare equal)', node=_N(g), file=g.file)
            else:
                col.bad('C01-case', cons, f'the keyword set {[t for t, _, _ in v]} ({g.file}:{g.line}) is matched case-sensitively while all other keywords are caseless',
                        node=_N(g), file=g.file)
        col.floor('C01-case', 'keyword literals', n, 40)
        # identifier token: bare word over [A-Za-z0-9_] or double-quoted single-line string
        name = gm.var('generic', 'name')
        alts = flatten_alt(name, ('first', 'or'))
        word = [a for a in alts if a.kind == 'word']
        quoted = [a for a in alts if a.kind == 'quoted']
        want = frozenset('ABCDEFGHIJKLMNOPQRSTUVWXYZabcdefghijklmnopqrstuvwxyz0123456789_')
        col.check(len(alts) == 2 and len(word) == 1 and len(quoted) == 1, 'C01-lex', 'name:alternatives', 'identifier = bare word | quoted string',
                  f'identifier token has alternatives {[a.label() for a in alts]}', node=_N(name), file=name.file)
        if word:
            w = word[0]
            col.check(w.a['init'] == want and w.a['body'] == want and w.a['min'] == 1 and w.a['max'] is None, 'C01-lex', 'name:bare-charset',
                      'bare identifiers are non-empty words over letters, digits and underscore',
                      f'the bare identifier token differs from a non-empty word over [A-Za-z0-9_]: first position off by {"".join(sorted(w.a["init"] ^ want))[:24]!r}, later positions off by '
                      f'{"".join(sorted(w.a["body"] ^ want))[:24]!r} (min={w.a["min"]}, max={w.a["max"]}) - names the document may declare bare are rejected or split, or text that is not a name is taken as one',
                      node=_N(w), file=w.file)
        if quoted:
            q = quoted[0]
            col.check(q.a['quote'] == '"' and q.a['end'] == '"' and not q.a['multiline'] and q.a['unquote'] and not q.a['esc'], 'C01-lex', 'name:quoted',
                      'quoted identifiers are double-quoted, single-line, returned without the quotes, no escape processing',
                      f'quoted identifier token is {q.a}', node=_N(q), file=q.file)
            col.check(not q.a.get('convert_ws'), 'C01-lex', 'name:quoted-verbatim',
                      'a quoted identifier is exactly the characters between the quotes',
                      'the quoted-identifier token converts the two-character sequences \\n, \\t, \\r, \\f into control characters (QuotedString\'s '
                      'convert_whitespace_escapes defaults to True): `Table "a\\nb"` gets a name with a real line break - not what was declared, it cannot be '
                      'written back as a quoted identifier (single-line token; the DBML renderer raises ValueError) and a tab comes back as spaces',
                      node=_N(q), file=q.file)
        # string literal: three styles, one escape char, only ''' multi-line, all unquoted
        sl = gm.var('generic', 'string_literal')
        qs = [a for a in flatten_alt(sl, ('first', 'or')) if a.kind == 'quoted']
        styles = {(q.a['quote'], q.a['multiline']) for q in qs}
        col.check(styles == {("'", False), ('"', False), ("'''", True)} and len(qs) == len(flatten_alt(sl, ('first', 'or'))), 'C01-lex',
                  'string:styles', 'three string styles: \'..\' and ".." single-line, \'\'\'..\'\'\' multi-line',
                  f'string literal styles are {sorted(styles)}', node=_N(sl), file=sl.file)
        col.check(len({q.a['esc'] for q in qs}) == 1 and all(q.a['esc'] == '\\' for q in qs) and all(q.a['unquote'] for q in qs), 'C01-lex',
                  'string:escape', 'all styles share the backslash escape and return the unquoted text',
                  f'string styles disagree on escape/unquoting: {[(q.a["quote"], q.a["esc"], q.a["unquote"]) for q in qs]}', node=_N(sl), file=sl.file)
        col.check(sl.kind == 'or' or _longest_first(qs), 'C01-lex', 'string:longest-match',
                  'the triple-quoted style cannot be shadowed by the single-quoted one (longest match / ordered correctly)',
                  "string styles are tried in order with `'` before `'''`: a triple-quoted string is read as an empty string", node=_N(sl), file=sl.file)
        # expression literal: backticks, any text without backtick, multi-line, verbatim
        el = gm.var('generic', 'expression_literal')
        ok_el, why_el = verbatim_delimited(el, '`')
        col.check(ok_el, 'C01-lex', 'expression:verbatim', 'a backtick expression is every character up to the next backtick, verbatim',
                  f'the expression literal ({el.label()} at {el.file}:{el.line}) does not return the text between the backticks verbatim: {why_el}',
                  node=_N(el), file=el.file)
        acts = [a for a in el.actions if a.kind == 'lambda']
        ok_act = False
        if acts and isinstance(acts[0].node.body, ast.Call):
            c = acts[0].node.body
            ok_act = norm(c.func) == 'ExpressionBlueprint' and len(c.args) == 1 and norm(c.args[0]) == f'{acts[0].tok_param()}[0]'
        col.check(ok_act, 'C01-lex', 'expression:action', 'the expression text becomes an ExpressionBlueprint unchanged',
                  'the expression literal action is not ExpressionBlueprint(tok[0])', node=_N(el), file=el.file)
        # numbers
        nl = gm.var('generic', 'number_literal')
        alts = flatten_alt(nl, ('first', 'or'))
        digits = frozenset('0123456789')
        ints = [a for a in alts if a.kind == 'word' and a.a['init'] == digits and a.a['body'] == digits]
        floats = [a for a in alts if a.kind == 'combine']
        okf = False
        if floats:
            fs = flatten_and(floats[0].kids[0])
            okf = len(fs) == 3 and fs[0].kind == 'word' and fs[0].a['body'] == digits and gt.lit_of(fs[1]) == '.' and fs[2].kind == 'word' and fs[2].a['body'] == digits
        col.check(len(alts) == 2 and len(ints) == 1 and okf, 'C01-lex', 'number:forms', 'numbers are digits or digits.digits',
                  f'number literal forms are {[a.label() for a in alts]}', node=_N(nl), file=nl.file)
        col.check(nl.kind == 'or', 'C01-lex', 'number:longest-match', 'integer and float forms are tried with longest match',
                  'number forms are tried in order with the integer first: `1.5` is read as the integer 1 (and the rest is a syntax error or dropped)',
                  node=_N(nl), file=nl.file)
    guarded(col, 'C01-lex', 'lexis', lexis)

    # ---------------------------------------------------------------- C01-default
    def defaults():
        defs = [x for g in gm.nodes_with_action('parse_column_settings') for x in named_nodes(g, 'default')]
        col.floor('C01-default', 'default slots', len(defs), 2)
        d = defs[0]
        seq = [k for k in flatten_and(d) if k.kind not in ('suppress', 'errorstop') and not gt.is_blank_skipper(k)]
        if len(seq) != 1 or seq[0].kind not in ('first', 'or'):
            raise Unrecognised('default setting is not <keyword> <value alternatives>')
        alts = flatten_alt(seq[0], ('first', 'or'))
        # boolean words
        bools = [a for a in alts if gt.vocab_of(a) is not None]
        if len(bools) != 1:
            raise Unrecognised(f'{len(bools)} literal-word alternatives among the default values')
        b = bools[0]
        texts = {t for t, _, _ in gt.vocab_of(b)}
        from ..grammar import action_value

        def valued(g_):
            out = []
            for a_ in g_.actions:
                if a_.kind in ('lambda', 'func') and a_.node is not None:
                    mt = idx.modules[a_.module].tree if a_.module in idx.modules else None
                    e_ = action_value(a_, mt)
                    if e_ is not None and not (isinstance(e_, ast.Constant) and e_.value is None):
                        out.append((a_, e_))
            return out
        lam = valued(b)
        table = None
        if lam and isinstance(lam[0][1], ast.Subscript) and isinstance(lam[0][1].value, ast.Dict):
            dct = lam[0][1].value
            table = {}
            for k, v in zip(dct.keys, dct.values):
                if isinstance(k, ast.Constant) and isinstance(v, ast.Constant):
                    table[k.value] = v.value
            sub_ok = norm(lam[0][1].slice) == f'{lam[0][0].tok_param()}[0]'
        if table is None:
            raise Unrecognised('boolean default action is not a dict lookup on tok[0]')
        col.check(set(table) == texts and sub_ok, 'C01-default', 'boolean:keys',
                  'the lookup table has exactly the spellings the caseless literals return',
                  f'boolean default words {sorted(texts)} (as returned by the caseless literals) do not match the lookup keys {sorted(table)}: '
                  f'a KeyError escapes the parse action / a word is not converted', node=_N(b), file=b.file)
        want = {'true': True, 'false': False, 'null': None}
        got = {k.lower(): v for k, v in table.items()}
        col.check(got == want and all(v is not None or k == 'NULL' for k, v in table.items()), 'C01-default', 'boolean:values',
                  'true -> True, false -> False, null keeps its text NULL (action returns None)',
                  f'boolean default table is {table}; expected true->True, false->False, NULL->None (None leaves the token NULL)', node=_N(b), file=b.file)
        # number conversion
        nums = [a for a in alts if any(t.kind == 'word' and t.a['init'] == frozenset('0123456789') for t in gt.first_tokens(a))]
        if len(nums) != 1:
            raise Unrecognised('number alternative of the default values not found')
        nlam = valued(nums[0])
        okn = False
        if nlam and isinstance(nlam[0][1], ast.IfExp):
            ie = nlam[0][1]
            tp = nlam[0][0].tok_param()
            t = ie.test
            okn = (isinstance(t, ast.Compare) and isinstance(t.ops[0], ast.In) and isinstance(t.left, ast.Constant) and t.left.value == '.'
                   and norm(t.comparators[0]) == f'{tp}[0]' and isinstance(ie.body, ast.Call) and norm(ie.body.func) == 'float'
                   and isinstance(ie.orelse, ast.Call) and norm(ie.orelse.func) == 'int' and norm(ie.orelse.args[0]) == f'{tp}[0]')
        if not nlam or not isinstance(nlam[0][1], ast.IfExp):
            raise Unrecognised('the number default action is not read as a conditional conversion')
        col.check(okn, 'C01-default', 'number:kind', 'a number with a dot becomes float, without one int',
                  f'number default action `{norm(nlam[0][1]) if nlam else ""}` does not choose float iff the literal contains a dot',
                  node=_N(nums[0]), file=nums[0].file)
        kinds = []
        for a in alts:
            ft = gt.first_tokens(a)
            kinds.append('bool' if a is b else 'number' if a is nums[0] else 'string' if all(t.kind == 'quoted' and t.a['quote'] != '`' for t in ft)
                         else 'expression' if all((t.kind == 'lit' and t.a['text'] == '`') or (t.kind == 'quoted' and t.a['quote'] == '`') for t in ft) else 'other')
        col.check(sorted(kinds) == ['bool', 'expression', 'number', 'string'], 'C01-default', 'kinds',
                  'default values: string, backtick expression, boolean word, number', f'default value kinds are {kinds}', node=_N(d), file=d.file)
        # the string alternative must come before words/numbers cannot shadow: strings start with a quote - disjoint FIRST sets
        # settings action takes the first token of the default
        for g in gm.nodes_with_action('parse_column_settings'):
            a = [x for x in g.actions if x.name == 'parse_column_settings'][0]
            uses = use_kinds(a).get('default', [])
            col.check(any(k == 'index0' for k, _ in uses), 'C01-default', f'parse_column_settings@{g.var}:takes-value',
                      'the default value token is taken as is', 'parse_column_settings does not store tok["default"][0]', node=a.node, file=act_file(a))
            break
    guarded(col, 'C01-default', 'default-literals', defaults)

    # ---------------------------------------------------------------- C01-order (settings by name)
    def by_name():
        n = 0
        for g in gm.action_nodes():
            for a in g.actions:
                if a.kind != 'func' or not a.name.endswith('_settings'):
                    continue
                n += 1
                pos = positional_reads(a)
                cons = f'{a.name}:by-name'
                if any(o.construct == cons for o in col.obs):
                    continue
                col.check(not pos, 'C01-order', cons, f'{a.name} reads settings by results name only (order-independent)',
                          f'{a.name} reads `{norm(pos[0]) if pos else ""}` by position: the result depends on the order of the settings',
                          node=pos[0] if pos else a.node, file=act_file(a))
        col.floor('C01-order', 'settings actions', n, 5)
        # settings lists: element repeated with separator, element is one alternative set in every position
        for flag in (False, True):
            for node, seq in gt.bracket_lists(gm.reachable(flag)):
                els = gt.list_elements(seq)
                if len(els) < 2:
                    continue
                k0 = gt.struct_key(els[0], frozenset({'property'}))
                same = all(gt.struct_key(e, frozenset({'property'})) == k0 for e in els[1:])
                col.check(same, 'C01-order', f'allow_properties={flag}:{node.module.split(".")[-1]}:{node.var or node.line}:same-element',
                          'first and following settings positions accept the same alternatives (any order)',
                          f'in settings list `{node.var}` the first position and the following positions accept different alternatives: some '
                          f'settings orders are rejected', node=_N(node), file=node.file)
    guarded(col, 'C01-order', 'settings-order', by_name)

    # ---------------------------------------------------------------- C01-shadow
    def shadow():
        n = 0
        seen = set()
        for g in gm.reachable():
            if g.kind != 'first':
                continue
            alts = g.kids
            key = (g.module, g.line, len(alts), g.var)
            if key in seen:
                continue
            seen.add(key)
            n += 1
            bad = None
            for j in range(len(alts)):
                for i in range(j):
                    why = shadows(alts[i], alts[j])
                    if why:
                        bad = bad or (i, j, why)
            cons = f'{g.module.split(".")[-1]}:{g.var or "alt"}@{g.line}'
            col.check(bad is None, 'C01-shadow', cons, f'no alternative of the {len(alts)} is shadowed by an earlier one',
                      f'in the ordered alternative at {g.file}:{g.line} alternative #{bad[1] + 1 if bad else 0} can never match because alternative '
                      f'#{bad[0] + 1 if bad else 0} matches first ({bad[2] if bad else ""}): what the later alternative declares is misread or rejected',
                      node=_N(g), file=g.file)
        col.floor('C01-shadow', 'ordered alternatives', n, 40)
    guarded(col, 'C01-shadow', 'shadowing', shadow)

    # ---------------------------------------------------------------- C01-mult
    def multiplicity():
        rows = [
            ('parse_table', 'name', (1, 1)), ('parse_table', 'alias', (0, 1)), ('parse_table', 'settings', (0, 1)),
            ('parse_table', 'columns', (0, gt.INF)), ('parse_table', 'indexes', (0, gt.INF)), ('parse_table', 'note', (0, gt.INF)),
            ('parse_column', 'name', (1, 1)), ('parse_column', 'type', (1, 1)), ('parse_column', 'settings', (0, 1)),
            ('parse_column_settings', 'ref', (0, gt.INF)), ('parse_column_settings', 'default', (0, gt.INF)),
            ('parse_enum', 'name', (1, 1)), ('parse_enum', 'items', (1, 1)), ('parse_enum_item', 'name', (1, 1)),
            ('parse_enum_item', 'settings', (0, 1)), ('parse_index', 'subject', (1, 1)), ('parse_index', 'settings', (0, 1)),
            ('parse_ref', 'name', (0, 1)), ('parse_ref', 'col1', (1, 1)), ('parse_ref', 'col2', (1, 1)), ('parse_ref', 'type', (1, 1)),
            ('parse_ref', 'settings', (0, 1)), ('parse_inline_relation', 'type', (1, 1)), ('parse_inline_relation', 'table', (1, 1)),
            ('parse_inline_relation', 'field', (1, 1)), ('parse_inline_relation', 'schema', (0, 1)),
            ('parse_ref_cols', 'table', (1, 1)), ('parse_ref_cols', 'field', (1, 1)), ('parse_ref_cols', 'schema', (0, 1)),
            ('parse_table_group', 'name', (1, 1)), ('parse_table_group', 'items', (0, gt.INF)),
            ('parse_project', 'name', (1, 1)), ('parse_project', 'items', (1, 1)),
            ('parse_sticky_note', 'name', (1, 1)), ('parse_sticky_note', 'text', (1, 1)),
        ]
        n = 0
        for fname, nm, want in rows:
            gs = gm.nodes_with_action(fname)
            if not gs:
                raise AnchorMissing(f'rule bound to {fname}')
            seen = set()
            for g in gs:
                if (g.module, g.line) in seen:
                    continue
                seen.add((g.module, g.line))
                n += 1
                got = gt.mult(g, nm)
                f = lambda t: f'{t[0]}..{"many" if t[1] >= gt.INF else t[1]}'  # noqa: E731
                col.check(got == want, 'C01-mult', f'{fname}@{g.var or g.line}:{nm}', f'`{nm}` occurs {f(got)} times',
                          f'in rule `{g.var}` the component `{nm}` can occur {f(got)} times, the language needs {f(want)}: '
                          + ('declarations are rejected or dropped' if got[1] < want[1] or got[0] > want[0] else 'an incomplete element is accepted'),
                          node=_N(g), file=g.file)
        # repeated elements inside blocks
        reps = [('parse_enum', 'items', 'enum items', 1), ('parse_table_group', None, None, None)]
        for g in gm.nodes_with_action('parse_enum'):
            for x in named_nodes(g, 'items'):
                r = x if x.kind == 'repeat' else None
                col.check(r is not None and r.a['min'] == 1 and r.a['max'] is None, 'C01-mult', f'enum:items-repeat@{x.line}',
                          'an enum has one or more items', f'enum items repetition is {x.a if x.kind == "repeat" else x.kind}', node=_N(x), file=x.file)
                n += 1
        idxblocks = [x for g in gm.nodes_with_action('parse_table') for x in named_nodes(g, 'indexes')]
        for x in idxblocks[:2]:
            reps_in = [r for r in walk(x) if r.kind == 'repeat' and r.kids and any(a.name == 'parse_index' for a in r.kids[0].actions)]
            col.check(bool(reps_in) and reps_in[0].a['min'] == 1 and reps_in[0].a['max'] is None, 'C01-mult', f'indexes:index-repeat@{x.line}',
                      'an indexes block holds one or more index definitions', 'the indexes block does not repeat the index rule 1..many times',
                      node=_N(x), file=x.file)
            n += 1
        # a component that can occur several times and is consumed as a collection must accumulate its matches (list_all_matches / trailing *):
        # a plain results name keeps only the LAST match, so everything declared in earlier occurrences is dropped silently
        seen_acc = set()
        for g in gm.action_nodes():
            for a in g.actions:
                if a.kind != 'func' or a.node is None:
                    continue
                uses = use_kinds(a)
                list_fields = set()
                for c in ast.walk(a.node):
                    if isinstance(c, ast.Call) and isinstance(c.func, ast.Name) and c.func.id.endswith('Blueprint'):
                        ci = idx.class_of(a.module, c.func)
                        if ci is not None:
                            for fname_, ann in getattr(ci, 'fields', {}).items() if isinstance(getattr(ci, 'fields', None), dict) else []:
                                if 'List' in str(ann) or 'list' in str(ann):
                                    list_fields.add(fname_)
                for nm, us in uses.items():
                    as_collection = any(k == 'iter' for k, _ in us)
                    if not as_collection:
                        continue
                    if gt.mult(g, nm)[1] < 2:
                        continue
                    for x in named_nodes(g, nm):
                        key = (a.name, nm, x.module, x.line)
                        if key in seen_acc:
                            continue
                        seen_acc.add(key)
                        n += 1
                        col.check(bool(x.list_all), 'C01-mult', f'{a.name}:{nm}:accumulates@{x.module.split(".")[-1]}:{x.var or x.line}',
                                  f'`{nm}` keeps all its matches', f'`{nm}` can be matched several times inside `{g.var or a.name}` and {a.name} consumes it as a collection, '
                                  f'but the results name at {x.file}:{x.line} does not accumulate (no list_all_matches / `*`): only the last occurrence survives, '
                                  f'everything declared in the earlier ones is dropped', node=_N(x), file=x.file)
        col.floor('C01-mult', 'multiplicity rows', n, 35)
    guarded(col, 'C01-mult', 'multiplicities', multiplicity)

    # ---------------------------------------------------------------- C01-enum (declared type: shared with C05)
    def enum_types():
        sub = ctx.sub('c05', col.prop)
        n = 0
        for o in sub.obs:
            if o.rule in ('C05-enum', 'C05-schema') or (o.rule == 'C05-resolve' and 'locate' in o.construct):
                n += 1
                col.obs.append(type(o)(col.prop, o.rule.replace('C05-', 'C01-'), o.construct, o.status, o.msg, o.file, o.line, o.extra))
        col.floor('C01-enum', 'enum-type / default-schema / resolver obligations', n, 20)
        # a composite reference pairs its columns by position: the endpoint lists keep the order written in the reference (rule shared with C04-roles)
        sub4 = ctx.sub('c04', col.prop)
        m = 0
        for o in sub4.obs:
            if o.rule == 'C04-roles' and o.construct.endswith(':written-order'):
                m += 1
                col.obs.append(type(o)(col.prop, 'C01-resolve', o.construct, o.status, o.msg, o.file, o.line, o.extra))
        col.floor('C01-resolve', 'endpoint order obligations', m, 2)
        # the endpoint names are the names written: the builder must not make several names out of one quoted name (rule shared with C08-precondition)
        from .c08 import split_of_quoted_name
        split_of_quoted_name(ctx, col, gm, 'C01-resolve', 'reference-endpoint')
    guarded(col, 'C01-enum', 'enum-types', enum_types)

    # ---------------------------------------------------------------- C01-sides
    def sides():
        gs = gm.nodes_with_action('parse_ref')
        if not gs:
            raise AnchorMissing('parse_ref')
        a = [x for x in gs[0].actions if x.name == 'parse_ref'][0]
        tokp = a.tok_param()
        n = 0
        for node in ast.walk(a.node):
            key = val = None
            if isinstance(node, ast.Dict):
                pairs = list(zip(node.keys, node.values))
            elif isinstance(node, ast.Assign) and isinstance(node.targets[0], ast.Subscript) and isinstance(node.targets[0].slice, ast.Constant):
                pairs = [(node.targets[0].slice, node.value)]
            else:
                continue
            for k, v in pairs:
                if not (isinstance(k, ast.Constant) and isinstance(k.value, str) and k.value[-1:] in '12' and k.value[:-1] in ('schema', 'table', 'col')):
                    continue
                side = k.value[-1]
                srcs = {s.slice.value for s in ast.walk(v) if isinstance(s, ast.Subscript) and norm(s.value) == tokp and isinstance(s.slice, ast.Constant)}
                n += 1
                part = {'schema': 'schema', 'table': 'table', 'col': 'field'}[k.value[:-1]]
                parts = {s.slice.value for s in ast.walk(v) if isinstance(s, ast.Subscript) and isinstance(s.slice, ast.Constant)
                         and isinstance(s.value, ast.Subscript)}
                col.check(srcs == {f'col{side}'} and parts == {part}, 'C01-sides', f'parse_ref:{k.value}',
                          f'{k.value} comes from tok[col{side}][{part!r}]',
                          f'parse_ref fills `{k.value}` from `{norm(v)}`: the two sides / parts of the reference are crossed', node=v, file=act_file(a))
        col.floor('C01-sides', 'side keys in parse_ref', n, 6)
        # inline relation fills side 2; get_reference_blueprints side 1 from the declaring table/column
        gi = gm.nodes_with_action('parse_inline_relation')
        ai = [x for x in gi[0].actions if x.name == 'parse_inline_relation'][0]
        keys, _ = dict_keys_of(ai)
        side_keys = {k for k in keys if k[-1:] in '12' and k[:-1] in ('schema', 'table', 'col')}
        col.check(side_keys == {'table2', 'col2', 'schema2'}, 'C01-sides', 'parse_inline_relation:side2',
                  'an inline relation fills the right-hand side only', f'parse_inline_relation fills {sorted(side_keys)}; the declaring column is side 1, '
                  f'the written target must be side 2', node=ai.node, file=act_file(ai))
        tb = bps['TableBlueprint'].methods.get('get_reference_blueprints')
        if tb is None:
            raise AnchorMissing('TableBlueprint.get_reference_blueprints')
        st = {}
        for nn in ast.walk(tb.node):
            if isinstance(nn, ast.Assign) and isinstance(nn.targets[0], ast.Attribute):
                st[nn.targets[0].attr] = norm(nn.value)
        loopvar = None
        for nn in ast.walk(tb.node):
            if isinstance(nn, ast.For) and norm(nn.iter) == 'self.columns':
                loopvar = norm(nn.target)
        want = {'schema1': 'self.schema', 'table1': 'self.name', 'col1': f'{loopvar}.name'}
        for k, v in want.items():
            col.check(st.get(k) == v, 'C01-sides', f'get_reference_blueprints:{k}', f'{k} = {v}',
                      f'get_reference_blueprints sets {k} = {st.get(k)} (expected {v}): an inline reference does not start at the column/table that declared it',
                      node=tb.node, file=tb.file)
        # ReferenceBlueprint.build keeps sides apart
        rb = bps['ReferenceBlueprint'].methods['build']
        derived: Dict[str, Set[str]] = {}
        for nn in rb.node.body:
            for s in ast.walk(nn):
                if isinstance(s, ast.Assign) and len(s.targets) == 1 and isinstance(s.targets[0], ast.Name):
                    fs = {x.attr for x in ast.walk(s.value) if isinstance(x, ast.Attribute) and norm(x.value) == 'self'}
                    for x in ast.walk(s.value):
                        if isinstance(x, ast.Name) and x.id in derived:
                            fs |= derived[x.id]
                    # comprehension variables iterate over derived lists
                    derived.setdefault(s.targets[0].id, set()).update(fs)
        call = [c for c in ast.walk(rb.node) if isinstance(c, ast.Call) and norm(c.func) == 'Reference']
        if not call:
            raise Unrecognised('ReferenceBlueprint.build does not construct Reference')
        for kw in call[0].keywords:
            if kw.arg in ('col1', 'col2'):
                side = kw.arg[-1]
                fs = set()
                for x in ast.walk(kw.value):
                    if isinstance(x, ast.Name) and x.id in derived:
                        fs |= derived[x.id]
                    if isinstance(x, ast.Attribute) and norm(x.value) == 'self':
                        fs.add(x.attr)
                fs &= {'schema1', 'table1', 'col1', 'schema2', 'table2', 'col2'}
                wantf = {f'schema{side}', f'table{side}', f'col{side}'}
                if not fs:
                    col.unk('C01-sides', f'ReferenceBlueprint.build:{kw.arg}', f'cannot trace what ReferenceBlueprint.build computes {kw.arg} from (`{norm(kw.value)[:60]}`)',
                            node=kw.value, file=rb.file)
                    continue
                col.check(fs == wantf, 'C01-sides', f'ReferenceBlueprint.build:{kw.arg}', f'{kw.arg} derives from {sorted(wantf)}',
                          f'ReferenceBlueprint.build computes {kw.arg} from {sorted(fs)} (expected exactly {sorted(wantf)}): the endpoint is resolved with '
                          f'the wrong schema/table/column', node=kw.value, file=rb.file)
    guarded(col, 'C01-sides', 'reference-sides', sides)


# ----------------------------------------------------------------------------------------------

def _rn(fn: ast.AST, e: ast.AST) -> str:
    from .common import resolve_names
    return resolve_names(fn, e)


def pm_parent(act: Action, node: ast.AST) -> ast.AST:
    pm = parent_map_ast(act.node)
    return pm.get(id(node), node)


def _fwd(col: Collector, cname: str, mname: str, kwname: str, value: ast.AST, flds: List[str], derived: Dict[str, Set[str]],
         forwarded: Set[str], build: FuncInfo):
    fs = {x.attr for x in ast.walk(value) if isinstance(x, ast.Attribute) and isinstance(x.value, ast.Name) and x.value.id == 'self'}
    for x in ast.walk(value):
        if isinstance(x, ast.Name) and x.id in derived:
            fs |= derived[x.id]
    fs &= set(flds)
    forwarded |= fs
    if not fs:
        return
    # a keyword fed by exactly the same-named field (possibly with helpers) is fine; a keyword fed only by OTHER fields is crossed
    if kwname in fs:
        col.ok('C01-fields', f'{cname}.build->{mname}:{kwname}', f'{kwname}=<self.{kwname}>', node=value, file=build.file)
        return
    # Reference endpoints are resolved objects derived from several fields (judged in C01-sides)
    if cname == 'ReferenceBlueprint' and kwname in ('col1', 'col2'):
        return
    col.bad('C01-fields', f'{cname}.build->{mname}:{kwname}',
            f'{cname}.build passes `{norm(value)[:60]}` (blueprint field(s) {sorted(fs)}) as `{kwname}` to {mname}: the parsed `{sorted(fs)[0]}` '
            f'ends up in the wrong attribute', node=value, file=build.file)


def verbatim_delimited(el: G, q: str) -> Tuple[bool, str]:
    """Does the token return exactly the characters between two `q` delimiters (any characters but q,
    line breaks included, no escape processing)?"""
    if el.kind == 'combine' and el.kids:
        seq = flatten_and(el.kids[0])
        if not (len(seq) == 3 and gt.lit_of(seq[0]) == q and seq[0].kind == 'suppress' and gt.lit_of(seq[2]) == q and seq[2].kind == 'suppress'):
            return False, 'it is not <suppressed delimiter> <text> <suppressed delimiter>'
        body = seq[1]
        inner = body.kids[0] if body.kind == 'repeat' and body.kids else body
        if inner.kind != 'charsnotin' or inner.a['not'] != frozenset(q):
            return False, f'the text part is {inner.label()} instead of "any characters except the delimiter"'
        if body.kind == 'repeat' and not (body.a['min'] == 0 and body.a['max'] is None):
            return False, 'the text part is not repeated 0..many times'
        if body.kind != 'repeat' and (inner.a.get('min') or 0) > 0:
            return True, ''
        return True, ''
    if el.kind == 'quoted':
        a = el.a
        if a['quote'] != q or a['end'] != q:
            return False, f'quotes are {a["quote"]!r}..{a["end"]!r}'
        if not a['multiline']:
            return False, 'the token does not span lines'
        if a['esc'] or a['esc_quote']:
            return False, 'an escape character is processed (and removed) inside the text'
        if a['convert_ws']:
            return False, 'QuotedString converts backslash sequences such as \\n, \\t into control characters (convert_whitespace_escapes defaults to True)'
        if not a['unquote']:
            return False, 'the delimiters are kept in the text'
        return True, ''
    return False, f'unrecognised token form {el.label()}'


def _longest_first(qs: List[G]) -> bool:
    for j, q in enumerate(qs):
        for p in qs[:j]:
            if q.a['quote'].startswith(p.a['quote']) and q.a['quote'] != p.a['quote']:
                return False
    return True


def _first_token_seq(g: G) -> List[G]:
    return [x for x in flatten_and(g) if x.kind not in gt.ZERO_WIDTH] if g.kind == 'and' else [g]


def shadows(a: G, b: G) -> Optional[str]:
    """Provable cases in which ordered alternative `a` (earlier) makes `b` (later) unreachable or
    misread: identical structure, literal prefix, quote prefix, or a's whole sequence being a
    structural prefix of b's."""
    ka = gt.struct_key(a)
    kb = gt.struct_key(b)
    if ka == kb and not (a.name or b.name):
        return 'identical alternatives'
    ta, tb = _unwrap(a), _unwrap(b)
    if ta.kind == 'lit' and tb.kind == 'lit':
        x, y = ta.a['text'], tb.a['text']
        if ta.a.get('caseless'):
            x, y = x.lower(), y.lower() if tb.a.get('caseless') else y
        if y.startswith(x) and x != y and (ta.a.get('caseless') or not tb.a.get('caseless')):
            return f'literal {ta.a["text"]!r} is a prefix of {tb.a["text"]!r}'
    if ta.kind == 'quoted' and tb.kind == 'quoted':
        if tb.a['quote'].startswith(ta.a['quote']) and tb.a['quote'] != ta.a['quote']:
            return f'quote {ta.a["quote"]!r} is a prefix of quote {tb.a["quote"]!r}'
    if ta.kind == 'word' and tb.kind == 'combine' and tb.kids:
        fs = _first_token_seq(tb.kids[0])
        if fs and fs[0].kind == 'word' and fs[0].a['init'] <= ta.a['init'] and fs[0].a['body'] <= ta.a['body'] and len(fs) > 1:
            return 'the earlier word matches the first part of the later combined token'
    # sequence prefix
    sa, sb = _first_token_seq(a), _first_token_seq(b)
    if len(sa) < len(sb) and not any(x.kind == 'errorstop' for x in flatten_and(a) if a.kind == 'and'):
        if all(gt.struct_key(x) == gt.struct_key(y) and x.name == y.name for x, y in zip(sa, sb)):
            return 'the earlier alternative is a prefix of the later one'
    return None


def _unwrap(g: G) -> G:
    while g.kind in ('suppress', 'group') and g.kids:
        g = g.kids[0]
    return g
