"""C12 - all documented ways of supplying the source give the same database.

Decides the structural part: every entry route funnels its text through the BOM remover into
the one parser class; files are opened as UTF-8; options are forwarded keyword-to-same-keyword
on every hop; other source types hit `raise TypeError`; the static entry points are callable
on instances."""
from __future__ import annotations

import ast
from typing import Dict, List, Optional, Set, Tuple

from ..core import Collector, guarded, norm, Unrecognised, AnchorMissing
from ..paths import function_paths, walk_event, Ev
from ..calls import bind_args, Resolver
from ..pyindex import FuncInfo, ClassInfo, walk_no_nested, access_path
from ..cond import term, conjuncts

EXPLANATION = (
    'Route table over PyDBML.__new__ (str / Path / TextIOWrapper), PyDBML.parse and '
    'PyDBML.parse_file (stream / path): on every enumerated path the text handed to the parser '
    'class was produced by the BOM remover (path-sensitive clean/raw tracking with callee '
    'summaries), every open() on a route names a UTF-8 codec, each option is forwarded '
    'keyword-to-same-keyword on every hop down to Database.__init__, the unsupported-type branch '
    'raises TypeError, parse/parse_file are static, and every route returns <parser class>(...).parse().')
RULE_TEXT = ('obligations are generated per (route path x sink call), per open() call, per '
             '(call hop x option), per accepted source type; distinct = distinct rule|construct keys')
ASSUMPTIONS = [
    'decides the structural funnel, not equality of the resulting databases (which follows once all routes '
    'feed the same text and options to the same parser)',
    'text decoding by the caller of an already-open stream is outside the library',
]

ENGINES = ['pyindex', 'paths', 'grammar']
TECHNIQUE = ('static analysis (ast): route table by path enumeration with clean/raw tracking of the text, keyword forwarding per hop, codec and newline mode of every open() / read_text / read_bytes / codecs.open on the call closure of the '
             'routes; line-break tokens and regular-expression skippers of the grammar IR (a carriage return is skipped wherever a line break is accepted)')

PARSER_MOD = 'pydbml.parser.parser'
OPTIONS = ('allow_properties', 'sql_renderer', 'dbml_renderer')
UTF8 = {'utf8', 'utf-8', 'utf_8', 'u8', 'utf', 'utf-8-sig', 'utf_8_sig', 'utf8-sig'}
BOM_STRIPPING_CODECS = {'utf-8-sig', 'utf_8_sig', 'utf8-sig'}


def _is_remove_bom(ctx, fi: FuncInfo, call: ast.Call) -> bool:
    if isinstance(call.func, (ast.Name, ast.Attribute)):
        sym = ctx.idx.resolve_expr(fi.module, call.func)
        return sym is not None and sym.kind == 'func' and sym.name == 'remove_bom' and sym.module == 'pydbml.tools'
    return False


class RouteAnalysis:
    """clean/raw tracking of text values along each path of the entry functions."""

    def __init__(self, ctx, col: Collector):
        self.ctx = ctx
        self.col = col
        self.idx = ctx.idx
        self.res = Resolver(ctx.idx)
        self.pydbml = self.idx.cls(PARSER_MOD, 'PyDBML')
        self.parser_cls = self.idx.cls(PARSER_MOD, 'PyDBMLParser')
        self.summaries: Dict[str, Optional[bool]] = {}
        self.sinks = 0

    # state of an expression: 'clean' | 'raw' | 'file_clean' | 'file_raw' | 'unknown'
    def expr_state(self, fi: FuncInfo, e: ast.AST, env: Dict[str, str]) -> str:
        if isinstance(e, ast.Name):
            return env.get(e.id, 'unknown')
        if isinstance(e, ast.Call):
            if _is_remove_bom(self.ctx, fi, e) and e.args:
                return 'clean'
            # x.read()
            if isinstance(e.func, ast.Attribute) and e.func.attr == 'read':
                st = self.expr_state(fi, e.func.value, env)
                return 'clean' if st == 'file_clean' else 'raw'
            if isinstance(e.func, ast.Name) and e.func.id == 'open':
                enc = self.open_encoding(e)
                return 'file_clean' if enc in BOM_STRIPPING_CODECS else 'file_raw'
            # str methods that keep a leading BOM or produce new text: treat as raw
            return 'raw'
        if isinstance(e, ast.Constant):
            return 'clean' if isinstance(e.value, str) and not e.value.startswith('﻿') else 'raw'
        return 'raw'

    @staticmethod
    def open_encoding(call: ast.Call) -> Optional[str]:
        enc = None
        for kw in call.keywords:
            if kw.arg == 'encoding' and isinstance(kw.value, ast.Constant) and isinstance(kw.value.value, str):
                enc = kw.value.value.lower()
        if enc is None and len(call.args) >= 4 and isinstance(call.args[3], ast.Constant):
            enc = str(call.args[3].value).lower()
        return enc

    def callee_cleans(self, callee: FuncInfo, pname: str) -> bool:
        """Summary: does `callee` strip the BOM from parameter `pname` on every path before the
        text reaches the parser class (or a callee that does)?"""
        key = f'{callee.id}#{pname}'
        if key in self.summaries:
            return bool(self.summaries[key])
        self.summaries[key] = False  # recursion guard
        ok = self.analyse(callee, {pname: 'raw'}, report=False)
        self.summaries[key] = ok
        return ok

    def analyse(self, fi: FuncInfo, init_env: Dict[str, str], report: bool, route: str = '') -> bool:
        """Walk all paths of fi; at every sink the text argument must be clean.  Returns True if
        all sinks on all paths were clean."""
        all_ok = True
        paths = function_paths(fi.node, unroll=1)
        for pi, path in enumerate(paths):
            env = dict(init_env)
            for ev in path:
                n = ev.node
                # sinks first (arguments are evaluated before the assignment of the result)
                for sub in walk_event(ev):
                    if isinstance(sub, ast.Call):
                        ok = self.sink(fi, sub, env, report, route, pi)
                        if ok is False:
                            all_ok = False
                if ev.kind == 'stmt':
                    if isinstance(n, ast.Assign) and len(n.targets) == 1 and isinstance(n.targets[0], ast.Name):
                        env[n.targets[0].id] = self.expr_state(fi, n.value, env)
                    elif isinstance(n, ast.With):
                        for it in n.items:
                            if isinstance(it.optional_vars, ast.Name):
                                env[it.optional_vars.id] = self.expr_state(fi, it.context_expr, env)
        return all_ok

    def sink(self, fi: FuncInfo, call: ast.Call, env, report, route, pi) -> Optional[bool]:
        callees = self.res.resolve_call(fi, call, None, name_fallback=False)
        for c in callees:
            if isinstance(c, ClassInfo) and c.id == self.parser_cls.id:
                init = self.idx.lookup_method(c.id, '__init__')
                if init is None:
                    raise AnchorMissing('PyDBMLParser.__init__')
                bound = bind_args(call, init.node, skip_first=True)
                src = bound.get('source')
                if src is None and call.args:
                    src = call.args[0]
                if src is None:
                    raise Unrecognised('parser class constructed without a source argument', call)
                st = self.expr_state(fi, src, env)
                self.sinks += 1
                if report:
                    self.col.check(st == 'clean', 'C12-bom', f'{fi.qualname}:{route}:{norm(call.func)}({norm(src)})',
                                   'text reaching the parser class passed the BOM remover on this path',
                                   f'on a path of {fi.qualname} the text `{norm(src)}` reaches {c.name}(...) '
                                   f'without passing remove_bom (state {st})', node=call, file=fi.file)
                return st == 'clean'
            if isinstance(c, FuncInfo) and c.cls == self.pydbml.id and c.node.name in ('parse', 'parse_file', '__new__'):
                bound = bind_args(call, c.node, skip_first=c.kind in ('method', 'classmethod'))
                params = [p for p in ('text', 'file', 'source_') if p in bound]
                if not params:
                    # first positional parameter of the callee
                    names = [a.arg for a in c.node.args.args]
                    if c.kind in ('method', 'classmethod') and names:
                        names = names[1:]
                    if names and names[0] in bound:
                        params = [names[0]]
                if not params:
                    raise Unrecognised(f'call to {c.qualname} without a recognisable text argument', call)
                p = params[0]
                st = self.expr_state(fi, bound[p], env)
                ok = st == 'clean' or self.callee_cleans(c, p)
                self.sinks += 1
                if report:
                    self.col.check(ok, 'C12-bom', f'{fi.qualname}:{route}:{norm(call.func)}({norm(bound[p])})',
                                   'text is clean here or the callee strips the BOM on all its paths',
                                   f'{fi.qualname} passes `{norm(bound[p])}` (state {st}) to {c.qualname}, '
                                   f'which does not strip the BOM on every path', node=call, file=fi.file)
                return ok
        return None


def run(ctx, col: Collector):
    idx = ctx.idx
    res = Resolver(idx)

    def anchors():
        from ..inline import inlined_info
        pyd = idx.cls(PARSER_MOD, 'PyDBML')
        # the entry points are read with their private helpers in place; the BOM remover and the entry points themselves stay calls
        keep_ = {'remove_bom', 'parse', 'parse_file', '__new__'}
        new = inlined_info(idx, idx.func(PARSER_MOD, 'PyDBML.__new__'), depth=2, keep=keep_)
        parse = inlined_info(idx, idx.func(PARSER_MOD, 'PyDBML.parse'), depth=2, keep=keep_)
        parse_file = inlined_info(idx, idx.func(PARSER_MOD, 'PyDBML.parse_file'), depth=2, keep=keep_)
        return pyd, new, parse, parse_file

    # ---------------------------------------------------------------- (i) BOM funnel
    def bom():
        pyd, new, parse, parse_file = anchors()
        ra = RouteAnalysis(ctx, col)
        for fi, p in ((new, 'source_'), (parse, 'text'), (parse_file, 'file')):
            args = [a.arg for a in fi.node.args.args]
            if p not in args:
                # first non-cls/self parameter
                cand = [a for a in args if a not in ('cls', 'self')]
                if not cand:
                    raise Unrecognised(f'{fi.qualname} has no source parameter', fi.node)
                p = cand[0]
            before = ra.sinks
            ra.analyse(fi, {p: 'raw'}, report=True, route=p)
            if ra.sinks == before:
                col.bad('C12-funnel', f'{fi.qualname}:no-sink',
                        f'{fi.qualname} never hands its text to the parser class or another entry point',
                        node=fi.node, file=fi.file)
        col.floor('C12-bom', 'route sinks', ra.sinks, 3)
        col.stat('route_sinks', ra.sinks)
    guarded(col, 'C12-bom', 'routes', bom)

    # ---------------------------------------------------------------- remove_bom body
    def bom_body():
        fi = idx.func('pydbml.tools', 'remove_bom')
        params = [a.arg for a in fi.node.args.args]
        if len(params) != 1:
            raise Unrecognised('remove_bom should take exactly one parameter', fi.node)
        p = params[0]
        # conditional expressions in returns/assignments become branches; a name that stands for the mark (a constant of this or another module) is read as the mark
        import copy as _copy
        from ..strval import _LiftIfExp
        fnode = _copy.deepcopy(fi.node)

        class _Mark(ast.NodeTransformer):
            def visit_Name(self, n):
                if isinstance(n.ctx, ast.Load) and n.id != p:
                    sym = idx.resolve(fi.module, n.id)
                    v = getattr(sym, 'node', None) if sym is not None and sym.kind == 'assign' else None
                    if isinstance(v, ast.Constant) and isinstance(v.value, str) and v.value == '\ufeff':
                        return ast.copy_location(ast.Constant(value=v.value), n)
                return n

            def visit_Attribute(self, n):
                self.generic_visit(n)
                if isinstance(n.value, ast.Name):
                    sym = idx.resolve(fi.module, n.value.id)
                    if sym is not None and sym.kind == 'module' and getattr(sym, 'target_mod', None) in idx.modules:
                        s2 = idx.resolve(sym.target_mod, n.attr)
                        v = getattr(s2, 'node', None) if s2 is not None and s2.kind == 'assign' else None
                        if isinstance(v, ast.Constant) and v.value == '\ufeff':
                            return ast.copy_location(ast.Constant(value=v.value), n)
                return n
        fnode = _LiftIfExp().visit(_Mark().visit(fnode))
        ast.fix_missing_locations(fnode)
        paths = function_paths(fnode, unroll=1)
        verdicts = []
        for path in paths:
            env = {p: 'id'}   # 'id' = unchanged parameter, 'tail' = param[1:], 'other'
            tests = []
            result = None
            for ev in path:
                n = ev.node
                if ev.kind == 'test':
                    tests.append(term(n, ev.outcome))
                elif ev.kind == 'stmt' and isinstance(n, ast.Assign) and len(n.targets) == 1 \
                        and isinstance(n.targets[0], ast.Name):
                    env[n.targets[0].id] = _bom_expr(n.value, env)
                elif ev.kind == 'return':
                    result = _bom_expr(n.value, env) if n is not None and n.value is not None else 'none'
            established = any(_establishes_bom(t, p) for t in tests for t in conjuncts(t))
            refuted_bom = any(_establishes_no_bom(t, p) for t in tests)
            verdicts.append((result, established, refuted_bom, tests))
        strip_paths = [v for v in verdicts if v[0] == 'tail']
        id_paths = [v for v in verdicts if v[0] == 'id']
        prefix_paths = [v for v in verdicts if v[0] == 'removeprefix']
        other = [v for v in verdicts if v[0] not in ('tail', 'id', 'removeprefix')]
        cons = f'remove_bom:{norm(fi.node.body[-1]) if fi.node.body else ""}'
        if other:
            col.bad('C12-bom-body', 'remove_bom:returns', f'remove_bom returns something other than its argument '
                    f'or its argument minus the first character on some path ({other[0][0]})', node=fi.node, file=fi.file)
            return
        if prefix_paths and not strip_paths:
            col.ok('C12-bom-body', 'remove_bom:removeprefix', 'remove_bom = removeprefix(U+FEFF)', node=fi.node, file=fi.file)
            return
        if not strip_paths:
            col.bad('C12-bom-body', 'remove_bom:strip', 'remove_bom has no path that strips the first character',
                    node=fi.node, file=fi.file)
            return
        ok = all(v[1] for v in strip_paths)
        col.check(ok, 'C12-bom-body', 'remove_bom:strip-guard',
                  'the first character is dropped only when it is U+FEFF',
                  'a path of remove_bom drops the first character without having established that it is U+FEFF',
                  node=fi.node, file=fi.file)
        # identity paths: must not have established a BOM (i.e. BOM present implies stripped)
        leak = [v for v in id_paths if v[1]]
        col.check(not leak, 'C12-bom-body', 'remove_bom:no-leak',
                  'no path returns the text unchanged after having seen a leading U+FEFF',
                  'a path of remove_bom sees a leading U+FEFF and returns the text unchanged',
                  node=fi.node, file=fi.file)
    guarded(col, 'C12-bom-body', 'remove_bom', bom_body)

    # ---------------------------------------------------------------- (ii) encodings
    def encodings():
        n_open = 0
        from .common import get_cg
        roots = [fi.id for fi in idx.all_funcs() if fi.module == PARSER_MOD]
        reach = get_cg(ctx).closure(roots)
        for fi in idx.all_funcs():
            if fi.id not in reach:
                continue
            for n in walk_no_nested(fi.node):
                if isinstance(n, ast.Call) and isinstance(n.func, ast.Name) and n.func.id == 'open':
                    n_open += 1
                    enc = RouteAnalysis.open_encoding(n)
                    mode = None
                    if len(n.args) >= 2 and isinstance(n.args[1], ast.Constant):
                        mode = n.args[1].value
                    for kw in n.keywords:
                        if kw.arg == 'mode' and isinstance(kw.value, ast.Constant):
                            mode = kw.value.value
                    nl = next((kw.value for kw in n.keywords if kw.arg == 'newline'), None)
                    if mode and 'b' in str(mode):
                        col.bad('C12-utf8', f'{fi.qualname}:{norm(n)}', f'{fi.qualname} opens the source file in binary mode: the bytes are decoded without the universal-newline '
                                f'translation a text-mode open does, so a file with CRLF line ends gives a different text by path than as an open text stream', node=n, file=fi.file)
                        continue
                    if nl is not None and not (isinstance(nl, ast.Constant) and nl.value is None):
                        col.bad('C12-utf8', f'{fi.qualname}:{norm(n)}', f'{fi.qualname} opens the source file with newline={norm(nl)}: line ends are not translated, so a file with '
                                f'CRLF line ends gives a different text by path than as an ordinary open text stream', node=n, file=fi.file)
                        continue
                    col.check(enc in UTF8, 'C12-utf8', f'{fi.qualname}:{norm(n)}',
                              f'file opened with encoding={enc!r}',
                              f'file opened with encoding={enc!r}: non-ASCII documents then depend on the locale',
                              node=n, file=fi.file)
                # other ways to read a file: pathlib / io / codecs
                if isinstance(n, ast.Call) and isinstance(n.func, ast.Attribute) and n.func.attr in ('read_text', 'read_bytes') and not (
                        isinstance(n.func.value, ast.Name) and n.func.value.id in ('self',)):
                    n_open += 1
                    if n.func.attr == 'read_bytes':
                        col.bad('C12-utf8', f'{fi.qualname}:{norm(n)[:50]}', f'{fi.qualname} reads the source file as bytes (`{norm(n)[:50]}`) and decodes them itself: no '
                                f'universal-newline translation takes place, so a file with CRLF line ends gives a different text by path than the same file passed as an open '
                                f'text stream or as a string read in text mode - the routes disagree', node=n, file=fi.file)
                    else:
                        enc = next((kw.value.value for kw in n.keywords if kw.arg == 'encoding' and isinstance(kw.value, ast.Constant)), None)
                        if enc is None and n.args and isinstance(n.args[0], ast.Constant):
                            enc = n.args[0].value
                        col.check(enc in UTF8, 'C12-utf8', f'{fi.qualname}:{norm(n)[:50]}', f'file read as text with encoding={enc!r}',
                                  f'file read as text with encoding={enc!r}: non-ASCII documents then depend on the locale', node=n, file=fi.file)
                if isinstance(n, ast.Call) and isinstance(n.func, ast.Attribute) and n.func.attr == 'open' and isinstance(n.func.value, ast.Name) \
                        and n.func.value.id in ('io', 'codecs'):
                    n_open += 1
                    is_stdlib = any(isinstance(st, ast.Import) and any(a.name == 'codecs' and a.asname in (None, 'codecs') for a in st.names)
                                    for st in ast.walk(ctx.idx.modules[fi.module].tree)) if fi.module in ctx.idx.modules else False
                    if n.func.value.id == 'codecs' and is_stdlib:
                        # codecs.open: "underlying encoded files are always opened in binary mode; no automatic conversion of '\n' is done"
                        col.bad('C12-utf8', f'{fi.qualname}:{norm(n)[:50]}', f'{fi.qualname} opens the source with codecs.open (`{norm(n)[:50]}`): such a file is read in '
                                f'binary mode and decoded without universal-newline translation, so a file with CRLF line ends gives a different text by path than the same '
                                f'file passed as an ordinary open text stream', node=n, file=fi.file)
                        continue
                    col.unk('C12-utf8', f'{fi.qualname}:{norm(n)[:50]}', f'{fi.qualname} opens the source with {norm(n.func)}: encoding and newline handling of that call are not '
                            f'modelled', node=n, file=fi.file)
        col.floor('C12-utf8', 'open() calls on routes', n_open, 1)
    guarded(col, 'C12-utf8', 'open-calls', encodings)

    # ---------------------------------------------------------------- (iii) option forwarding
    def options():
        pyd, new, parse, parse_file = anchors()
        parser_cls = idx.cls(PARSER_MOD, 'PyDBMLParser')
        db_cls = idx.cls('pydbml.database', 'Database')
        hops = 0
        # functions that reach the parser class
        reaches: Set[str] = set()
        for fi in (new, parse, parse_file):
            for n in walk_no_nested(fi.node):
                if isinstance(n, ast.Call):
                    for c in res.resolve_call(fi, n, None, False):
                        if isinstance(c, ClassInfo) and c.id == parser_cls.id:
                            reaches.add(fi.id)
        changed = True
        while changed:
            changed = False
            for fi in (new, parse, parse_file):
                if fi.id in reaches:
                    continue
                for n in walk_no_nested(fi.node):
                    if isinstance(n, ast.Call):
                        for c in res.resolve_call(fi, n, None, False):
                            if isinstance(c, FuncInfo) and c.id in reaches:
                                reaches.add(fi.id)
                                changed = True

        def carriers_in(fi: FuncInfo) -> Dict[str, str]:
            """expression source -> option it carries, inside function fi."""
            out = {}
            params = {a.arg for a in list(fi.node.args.args) + list(fi.node.args.kwonlyargs)}
            for o in OPTIONS:
                if o in params:
                    out[o] = o
            if fi.cls:
                init = idx.lookup_method(fi.cls, '__init__')
                if init is not None:
                    iparams = {a.arg for a in init.node.args.args}
                    for n in ast.walk(init.node):
                        if isinstance(n, ast.Assign) and len(n.targets) == 1:
                            t, v = n.targets[0], n.value
                            if (isinstance(t, ast.Attribute) and isinstance(t.value, ast.Name) and t.value.id == 'self'
                                    and isinstance(v, ast.Name) and v.id in OPTIONS and v.id in iparams):
                                out[f'self.{t.attr}'] = v.id
            return out

        def check_call(fi: FuncInfo, call: ast.Call, callee_node, callee_name, skip_first, must_accept=False):
            nonlocal hops
            cparams = {a.arg for a in list(callee_node.args.args) + list(callee_node.args.kwonlyargs)}
            car = carriers_in(fi)
            bound = bind_args(call, callee_node, skip_first=skip_first)
            for o in OPTIONS:
                if o not in set(car.values()):
                    continue   # caller does not carry the option (e.g. parse_file)
                if o not in cparams:
                    if must_accept:
                        hops += 1
                        col.bad('C12-options', f'{fi.qualname}->{callee_name}:{o}',
                                f'{fi.qualname} accepts `{o}` but routes the source through {callee_name}, which has no such '
                                f'parameter: the option is dropped on this route', node=call, file=fi.file)
                    continue
                hops += 1
                arg = bound.get(o)
                cons = f'{fi.qualname}->{callee_name}:{o}'
                if arg is None:
                    col.bad('C12-options', cons, f'{fi.qualname} calls {callee_name} without forwarding `{o}` '
                            f'(the callee default is used on this route)', node=call, file=fi.file)
                    continue
                src = access_path(arg) or norm(arg)
                carried = car.get(src)
                col.check(carried == o, 'C12-options', cons, f'`{o}` forwarded as {src}',
                          f'{fi.qualname} passes `{src}` (carrying {carried}) as `{o}` to {callee_name}',
                          node=call, file=fi.file)

        build_db = idx.func(PARSER_MOD, 'PyDBMLParser.build_database')
        for fi in (new, parse, parse_file, build_db):
            car = carriers_in(fi)
            for n in walk_no_nested(fi.node):
                if not isinstance(n, ast.Call):
                    continue
                for c in res.resolve_call(fi, n, None, False):
                    if isinstance(c, ClassInfo) and c.id in (parser_cls.id, db_cls.id):
                        init = idx.lookup_method(c.id, '__init__')
                        if init is None:
                            raise AnchorMissing(f'{c.name}.__init__')
                        check_call(fi, n, init.node, c.name, True)
                    elif isinstance(c, FuncInfo) and c.cls == pyd.id and c.id in reaches:
                        cparams = {a.arg for a in list(c.node.args.args) + list(c.node.args.kwonlyargs)}
                        if set(car.values()) & set(OPTIONS) and not (cparams & set(OPTIONS)):
                            for o in sorted(set(car.values()) & set(OPTIONS)):
                                hops += 1
                                col.bad('C12-options', f'{fi.qualname}->{c.qualname}:{o}',
                                        f'{fi.qualname} accepts `{o}` but routes the source through {c.qualname}, '
                                        f'which cannot receive it: the option is dropped on this route',
                                        node=n, file=fi.file)
                        else:
                            check_call(fi, n, c.node, c.qualname, c.kind in ('method', 'classmethod'), must_accept=True)
        # the parser and the database store what they receive
        for cls, attrs in ((parser_cls, None), (db_cls, None)):
            init = idx.lookup_method(cls.id, '__init__')
            iparams = {a.arg for a in init.node.args.args}
            stored = {}
            for n in ast.walk(init.node):
                if isinstance(n, ast.Assign) and len(n.targets) == 1 and isinstance(n.targets[0], ast.Attribute) \
                        and isinstance(n.targets[0].value, ast.Name) and n.targets[0].value.id == 'self':
                    if isinstance(n.value, ast.Name) and n.value.id in OPTIONS:
                        stored.setdefault(n.value.id, []).append(n.targets[0].attr)
            for o in OPTIONS:
                if o in iparams:
                    hops += 1
                    col.check(bool(stored.get(o)), 'C12-options', f'{cls.name}.__init__:store:{o}',
                              f'{cls.name} stores `{o}` as {stored.get(o)}',
                              f'{cls.name}.__init__ accepts `{o}` but never stores it', node=init.node,
                              file=init.file)
        # Database reads what it stored (sql_renderer / dbml_renderer names checked in C16)
        col.floor('C12-options', 'option hops', hops, 12)
        col.stat('option_hops', hops)
    guarded(col, 'C12-options', 'hops', options)

    # ---------------------------------------------------------------- (iv) TypeError, accepted types
    def typeerror():
        pyd, new, parse, parse_file = anchors()
        srcp = [a.arg for a in new.node.args.args if a.arg != 'cls']
        if not srcp:
            raise Unrecognised('__new__ has no source parameter', new.node)
        p = srcp[0]
        from ..inline import inlined_info
        new = inlined_info(idx, new, depth=2, keep={'remove_bom', 'parse', 'parse_file'})
        paths = function_paths(new.node, unroll=1)
        accepted: Set[str] = set()
        fall = 0
        # "no source given" is exactly `source is None`: a truthiness test would treat the empty document '' (and any falsy object) as "no source"
        n_bare = 0
        for path in paths:
            last = path[-1]
            if last.kind == 'return' and last.node is not None and last.node.value is not None and '__new__' in norm(last.node.value):
                n_bare += 1
                lits = [c for ev in path if ev.kind == 'test' for c in conjuncts(term(ev.node, ev.outcome))]
                if ('none', p) in lits:
                    col.ok('C12-types', '__new__:no-source-is-None', 'the bare factory object is returned only when the source is None', node=last.node, file=new.file)
                elif ('not', ('truthy', p)) in lits:
                    col.bad('C12-types', '__new__:no-source-is-None', f'__new__ returns the bare factory object whenever `{p}` is falsy: PyDBML(\'\') gives a parser object while '
                            f'PyDBML.parse(\'\') gives an empty Database, and falsy objects of unsupported types are not refused with TypeError', node=last.node, file=new.file)
                else:
                    col.unk('C12-types', '__new__:no-source-is-None', f'the test under which __new__ returns the bare factory object is not recognised ({lits})',
                            node=last.node, file=new.file)
        if n_bare == 0:
            col.unk('C12-types', '__new__:no-source-is-None', '__new__ has no path that returns the bare factory object (super().__new__(cls))', node=new.node, file=new.file)
        # a string source IS the document: the constructor neither rebinds its source argument nor looks at the file system with it before the type dispatch
        rebinds = [n for n in ast.walk(new.node) if isinstance(n, ast.Name) and n.id == p and isinstance(n.ctx, ast.Store)]
        probes = [c for c in ast.walk(new.node) if isinstance(c, ast.Call) and any(access_path(a) == p for a in c.args)
                  and ((isinstance(c.func, ast.Attribute) and c.func.attr in ('isfile', 'exists', 'isdir', 'is_file', 'expanduser', 'abspath')) or
                       (isinstance(c.func, ast.Name) and c.func.id in ('Path',)))]
        str_probe = None
        for path in paths:
            lits = []
            for ev in path:
                if ev.kind == 'test':
                    for c in ast.walk(ev.node):
                        if any(c is pr for pr in probes) and any(l[0] == 'isinstance' and l[1] == p and 'str' in str(l[2]) for l in lits + conjuncts(term(ev.node, True))):
                            str_probe = str_probe or c
                    lits.extend(conjuncts(term(ev.node, ev.outcome)))
                elif ev.node is not None:
                    for c in ast.walk(ev.node):
                        if any(c is pr for pr in probes) and any(l[0] == 'isinstance' and l[1] == p and 'str' in str(l[2]) for l in lits):
                            str_probe = str_probe or c
        if rebinds or str_probe is not None:
            what = f'rebinds its source argument `{p}`' if rebinds else f'probes the file system with a string source (`{norm(str_probe)[:50]}`)'
            col.bad('C12-types', '__new__:string-is-the-document', f'__new__ {what}: a string that happens to name an existing file is read as that file by PyDBML(text) while '
                    f'PyDBML.parse(text) parses the text itself - the routes disagree', node=(rebinds[0] if rebinds else str_probe), file=new.file)
        else:
            col.ok('C12-types', '__new__:string-is-the-document', 'a string source is parsed as the document text itself', node=new.node, file=new.file)
        for path in paths:
            ts = [term(ev.node, ev.outcome) for ev in path if ev.kind == 'test']
            lits = [c for t in ts for c in conjuncts(t)]
            inst_true = [c for c in lits if c[0] == 'isinstance' and c[1] == p]
            inst_false = [c[1] for c in lits if c[0] == 'not' and c[1][0] == 'isinstance' and c[1][1] == p]
            given = any(c == ('not', ('none', p)) or c == ('truthy', p) for c in lits)
            if inst_true:
                accepted.add(inst_true[0][2])
                continue
            if given and inst_false:
                fall += 1
                last = path[-1]
                is_te = last.kind == 'raise' and last.node.exc is not None and _exc_name(last.node.exc) == 'TypeError'
                col.check(is_te, 'C12-typeerror', f'__new__:fallthrough:{"/".join(sorted(c[2] for c in inst_false))}',
                          'a source of another type raises TypeError',
                          'a source that is none of the accepted types does not end in `raise TypeError` '
                          f'(path ends in {last.kind} {norm(last.node) if last.node is not None else ""})',
                          node=last.node if last.node is not None else new.node, file=new.file)
        # the source handed on to something this rule did not read (a helper that was not expanded, a loop over a table of types): no verdict from absence
        handed_on = [norm(c)[:60] for c in ast.walk(new.node) if isinstance(c, ast.Call) and any(norm(a) == p for a in c.args)
                     and not (isinstance(c.func, ast.Name) and c.func.id in ('isinstance', 'open', 'remove_bom', 'str', 'type', 'repr'))
                     and not (isinstance(c.func, ast.Attribute) and c.func.attr in ('parse', 'parse_file', 'read'))]
        table_loops = [n for n in ast.walk(new.node) if isinstance(n, ast.For) and any(isinstance(c, ast.Call) and norm(c.func) == 'isinstance' and c.args and norm(c.args[0]) == p
                                                                                        for c in ast.walk(n))]
        undecidable = bool(handed_on or table_loops)
        if fall >= 1:
            col.ok('C12-typeerror', '__new__:has-fallthrough', 'isinstance dispatch has a rejecting branch', node=new.node, file=new.file)
        elif undecidable:
            col.unk('C12-typeerror', '__new__:has-fallthrough', f'__new__ hands the source to `{(handed_on or ["a loop over a table of types"])[0]}`, which was not followed: cannot see '
                    f'the rejecting branch', node=new.node, file=new.file)
        else:
            col.bad('C12-typeerror', '__new__:has-fallthrough', 'no path of __new__ rejects unsupported source types', node=new.node, file=new.file)
        for t in ('str', 'Path', 'TextIOWrapper'):
            import re as _re
            okt = any(t == a_ or t in a_.replace('(', ' ').replace(')', ' ').replace(',', ' ').split() for a in accepted for a_ in [_re.sub(r'_m\d+_', '', str(a))])
            if okt:
                col.ok('C12-types', f'__new__:accepts:{t}', f'{t} sources are dispatched', node=new.node, file=new.file)
            elif undecidable:
                col.unk('C12-types', f'__new__:accepts:{t}', f'cannot see where {t} sources are accepted (the dispatch is in code that was not followed)', node=new.node, file=new.file)
            else:
                col.bad('C12-types', f'__new__:accepts:{t}', f'__new__ has no isinstance branch accepting {t}', node=new.node, file=new.file)
    guarded(col, 'C12-typeerror', '__new__', typeerror)

    # ---------------------------------------------------------------- (v) static entry points, (vi) same parser
    def static_and_funnel():
        pyd, new, parse, parse_file = anchors()
        parser_cls = idx.cls(PARSER_MOD, 'PyDBMLParser')
        for fi in (parse, parse_file):
            col.check(fi.kind in ('staticmethod', 'classmethod'), 'C12-static', f'{fi.qualname}:decorator',
                      f'{fi.qualname} is a {fi.kind}', f'{fi.qualname} is a plain {fi.kind}: calling it on a '
                      f'PyDBML() instance would bind the instance as the source', node=fi.node, file=fi.file)
            # every normal return returns <parser instance>.parse() or another entry's result
            paths = function_paths(fi.node, unroll=1)
            nret = 0
            for path in paths:
                last = path[-1]
                if last.kind != 'return':
                    continue
                nret += 1
                env_cls: Dict[str, str] = {}
                for ev in path:
                    n = ev.node
                    if ev.kind == 'stmt' and isinstance(n, ast.Assign) and len(n.targets) == 1 \
                            and isinstance(n.targets[0], ast.Name) and isinstance(n.value, ast.Call):
                        ci = idx.class_of(fi.module, n.value.func)
                        if ci is not None:
                            env_cls[n.targets[0].id] = ci.id
                ok = False
                v = last.node.value if last.node is not None else None
                if isinstance(v, ast.Call) and isinstance(v.func, ast.Attribute) and v.func.attr == 'parse':
                    r = v.func.value
                    if isinstance(r, ast.Name) and env_cls.get(r.id) == parser_cls.id:
                        ok = True
                    elif isinstance(r, ast.Call) and (idx.class_of(fi.module, r.func) or object) is parser_cls:
                        ok = True
                    elif isinstance(r, ast.Name) and r.id in ('cls', 'PyDBML'):
                        ok = True   # delegating to the other static entry point (BOM/option rules cover it)
                elif isinstance(v, ast.Call) and isinstance(v.func, ast.Attribute) and v.func.attr in ('parse', 'parse_file'):
                    ok = True
                col.check(ok, 'C12-funnel', f'{fi.qualname}:return:{norm(v) if v is not None else "None"}',
                          'route returns <parser class>(...).parse()',
                          f'{fi.qualname} returns `{norm(v) if v is not None else None}` which is not the result of '
                          f'{parser_cls.name}(...).parse()', node=last.node or fi.node, file=fi.file)
            col.floor('C12-funnel', f'returns of {fi.qualname}', nret, 1)
        # __new__: the branch with a source returns cls.parse(...)/parse_file(...)
        paths = function_paths(new.node, unroll=1)
        for path in paths:
            last = path[-1]
            if last.kind != 'return' or last.node is None or last.node.value is None:
                continue
            v = last.node.value
            is_super = isinstance(v, ast.Call) and isinstance(v.func, ast.Attribute) and v.func.attr == '__new__'
            lits = [c for ev in path if ev.kind == 'test' for c in conjuncts(term(ev.node, ev.outcome))]
            srcp_ = [a.arg for a in new.node.args.args if a.arg != 'cls']
            has_source = any(c[0] == 'isinstance' for c in lits) or (bool(srcp_) and (('not', ('none', srcp_[0])) in lits or ('truthy', srcp_[0]) in lits))
            if has_source:
                ok = isinstance(v, ast.Call) and isinstance(v.func, ast.Attribute) and v.func.attr in ('parse', 'parse_file') \
                    and isinstance(v.func.value, ast.Name) and v.func.value.id in ('cls', 'PyDBML')
                col.check(ok, 'C12-funnel', f'__new__:return:{norm(v)}', 'constructor route delegates to the static entry point',
                          f'__new__ returns `{norm(v)}` for a given source instead of delegating to parse/parse_file',
                          node=last.node, file=new.file)
            elif not is_super:
                col.unk('C12-funnel', f'__new__:return:{norm(v)}', 'unrecognised return on the no-source path', node=last.node,
                        file=new.file)
    guarded(col, 'C12-static', 'entry-points', static_and_funnel)

    def newlines():
        # the file routes read in text mode (line ends arrive as `\n`), the string routes get the text as it is: a document with `\r\n` line ends gives the same
        # database on both only if a `\r` before a line break is skipped wherever a line break is accepted
        from ..core import acquire_grammar
        from .. import gtools as gt
        gm = acquire_grammar(ctx, col, 'C12-grammar')
        n = 0
        seen = set()
        for g in gm.reachable():
            if g.uid in seen:
                continue
            seen.add(g.uid)
            if g.kind == 'lit' and '\n' in g.a.get('text', '') and g.a['text'].strip('\n') == '':
                n += 1
                cons = f'line-break@{g.module.split(".")[-1]}:{g.line}'
                ok_ = '\r' in (g.ws or '') and g.skip_ws
                if any(o.construct == cons for o in col.obs):
                    continue
                col.check(ok_, 'C12-newline', cons, 'a carriage return before the line break is skipped as white space',
                          f'the line-break literal at {g.file}:{g.line} does not skip `\\r` (white space {g.ws!r}, skipping {g.skip_ws}): a document with CRLF line ends passed as '
                          f'a string fails (or parses differently) while the same document read from a file parses', file=g.file)
            if g.kind == 'regex':
                rs = gt.regex_skipper(g.a.get('pattern', ''), g.a.get('flags', 0) or 0)
                if rs is None or not rs['nl']:
                    continue
                n += 1
                cons = f'skipper-regex@{g.module.split(".")[-1]}:{g.var or g.line}'
                if any(o.construct == cons for o in col.obs):
                    continue
                if rs['unbounded'] and rs['blank'] and not rs['cr-in-loop']:
                    col.bad('C12-newline', cons, f'the skipper {g.a.get("pattern")!r} ({g.file}:{g.line}) repeats over line breaks and passes spaces and tabs itself but not `\\r`: after '
                            f'its first line break a `\\r\\n` is no longer skipped, so a CRLF document passed as a string fails where the same document read from a file '
                            f'(universal newlines) parses', file=g.file)
                else:
                    col.ok('C12-newline', cons, 'the regular-expression skipper passes `\\r` wherever it passes other blanks (or leaves blanks to pyparsing)', file=g.file)
        col.floor('C12-newline', 'line-break tokens', n, 1)
    guarded(col, 'C12-newline', 'newlines', newlines)


def _exc_name(e: ast.AST) -> str:
    if isinstance(e, ast.Call):
        e = e.func
    if isinstance(e, ast.Name):
        return e.id
    if isinstance(e, ast.Attribute):
        return e.attr
    return norm(e)


def _bom_expr(e: Optional[ast.AST], env: Dict[str, str]) -> str:
    if e is None:
        return 'none'
    if isinstance(e, ast.Name):
        return env.get(e.id, 'other')
    if isinstance(e, ast.Subscript) and isinstance(e.value, ast.Name) and env.get(e.value.id) == 'id':
        s = e.slice
        if isinstance(s, ast.Slice) and s.upper is None and s.step is None and isinstance(s.lower, ast.Constant) \
                and s.lower.value == 1:
            return 'tail'
        return 'other'
    if isinstance(e, ast.Call) and isinstance(e.func, ast.Attribute) and e.func.attr == 'removeprefix' \
            and isinstance(e.func.value, ast.Name) and env.get(e.func.value.id) == 'id' and len(e.args) == 1 \
            and isinstance(e.args[0], ast.Constant) and e.args[0].value == '﻿':
        return 'removeprefix'
    if isinstance(e, ast.IfExp):
        return 'other'
    return 'other'


def _establishes_bom(t, p: str) -> bool:
    """literal t (true) establishes that p starts with U+FEFF."""
    if t[0] == 'eq':
        vals = {t[1], t[2]}
        return f'{p}[0]' in vals and repr('﻿') in vals
    if t[0] == 'truthy' and t[1].replace('"', "'") in (f"{p}.startswith('\\ufeff')", f"{p}.startswith('﻿')"):
        return True
    return False


def _establishes_no_bom(t, p: str) -> bool:
    return t[0] == 'not' and _establishes_bom(t[1], p)
